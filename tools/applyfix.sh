#!/bin/bash
# tools/applyfix.sh <diff> <CHECK> <commit message file>  : apply a repair to /repo, run the check and the baseline, commit
set -e
cd /repo
git apply "$1"
cd /verif
VERIF_NPROC=${VERIF_NPROC:-12} ./check "$2" --no-confirm | grep -E "VIOLATION|^\[$2\] tier|KNOWN|HARNESS" | cut -c1-300 | head -20 || true
tools/run_baseline.py /repo | tail -1 | tee /tmp/applyfix.base
grep -q "stable_but_not_passing=0" /tmp/applyfix.base
cd /repo && git commit -qa -F "$3" && git log -1 --format='committed %h %s'
