#!/venv/bin/python
"""Regenerate MANIFEST.json from the table below (keeps it schema-valid at all times)."""
import json
import os
import subprocess

HERE = os.path.dirname(os.path.dirname(os.path.abspath(__file__)))

CHECKS = {
    "C01": dict(
        level="model_checking", engine="E-explicit-state",
        technique="explicit-state BFS over all chunk lengths on the real computer (state merging "
                  "by canonical form, NaN-poisoned dead regions) + unmerged all-compositions tree",
        text="Every reachable state of a real STFT/SI computer under the alphabet {compute_chunk of "
             "every length 0..Nmax-n, finalize} is explored to closure for each configuration of a "
             "lattice (all 1<=S<=L<=8, 3 frame styles, 2 windows, padded/unpadded; SI banks x shifts "
             "1..6 x styles); every transition runs the real method and is compared with compute_full "
             "of a fresh instance, so all 2^(Nmax-1) chunkings of every prefix are covered, not sampled.",
        note="Sample values are one generic signal per configuration; compute_full is the reference "
             "(its own definition is C02/C03); merging validated by poisoning and an unmerged cross-check.",
        design="3/C01"),
    "C02": dict(
        level="exploration", engine="L-lattice",
        technique="bounded-exhaustive lattice enumeration of configurations x lengths on the real "
                  "compute_full against a definitional full-DFT reference model",
        text="The full Cartesian lattice (7 tiny banks incl. complex ones that wrap below 0 Hz and past "
             "Nyquist x L 2..12 x S x padded/unpadded (every DFT size 2..12,16, all residues mod 4) x 3 "
             "frame styles x 2 windows x log/power/energy x 6 lengths around the frame boundaries) is "
             "enumerated completely and each point compared with an independent reference (full complex "
             "DFT, explicit reflection map, responses rebuilt by the docstring recipe).",
        note="numpy.fft trusted; get_truncated_response taken as given (C06); one generic signal per "
             "length plus zeros.",
        design="3/C02"),
    "C03": dict(
        level="exploration", engine="L-lattice",
        technique="bounded-exhaustive lattice enumeration on the real compute_full against an "
                  "np.convolve reference model",
        text="Every in-domain point of banks x shifts 1..6 x styles x padded/unpadded x windows x "
             "log/power/energy x float dtypes x lengths {0..3S, M-1, M, M+S, D-1, D, D+1, 2D+3} is "
             "computed by the real overlap-save implementation and by direct convolution.",
        note="np.convolve trusted; impulse responses sampled in the documented DFT width; the reference "
             "asserts its DFT size equals the computer's (harness error otherwise).",
        design="3/C03"),
    "C04": dict(
        level="model_checking", engine="E-explicit-state",
        technique="explicit-state BFS to fixpoint over call histories on one real instance, "
                  "differential oracle against a fresh instance (bit-identical)",
        text="All histories over {compute_chunk(k), finalize, compute_full(N), compute_full(float32), "
             "frame_by_frame_calculation(N, chunk_size)} are explored to closure (utterances bounded by "
             "Nmax), so the verdict covers histories of unbounded length over the alphabet; each "
             "observation must be bit-identical to a fresh instance fed only the current utterance; "
             "refusals mid-utterance must raise ValueError and leave the canonical state unchanged.",
        note="Finite alphabet of chunk/utterance lengths; merging by canonical state with NaN-poisoned "
             "dead regions (as C01).",
        design="3/C04"),
    "C08": dict(
        level="exploration", engine="L-lattice",
        technique="exhaustive enumeration of the alias registry, of every class tree with <=5 (thorough 7) "
                  "classes x alias-sharing pairs x query roots, and of nested JSON configuration trees",
        text="The whole registry (__subclasses__ of the six families, every alias, per-family resolution, "
             "unknown aliases) is walked; alias shadowing is decided on EVERY creation-ordered class tree up "
             "to the bound under a private root with the oracle 'created last wins'; the "
             "alias_factory_subclass_from_arg contract over mapping types; JSON-round-tripped nested "
             "configurations (computer x bank alias x scale alias x window alias) vs explicit construction "
             "(array_equal features).",
        note="Hierarchies are trees (no multiple-inheritance DAGs); creating classes is global state, so "
             "each hierarchy lives under a fresh private root.",
        design="3/C08"),
    "C18": dict(
        level="exploration", engine="L-lattice",
        technique="bounded-exhaustive lattice (length x dtype x coefficient x in_place x memory layout x "
                  "seed) against an explicit float64 recurrence and exact noise algebra",
        text="Preemphasize: every N 0..6 x 5 dtypes x coefficients x in_place x layouts equals the explicit "
             "loop computed in float64 and cast back, input untouched unless in_place. Dither: seeds 0..31 "
             "reproducible, apply(x)-x independent of x (to 8 ulp of max|x|), exactly linear in coeff on a "
             "zero signal, coeff 0 identity; fixed-seed mean/std inside 6 standard errors.",
        note="The distributional claim is checked as a deterministic fixed-seed computation (DESIGN 4).",
        design="3/C18"),
    "C19": dict(
        level="exploration", engine="L-lattice",
        technique="exhaustive evaluation of a stated finite grid (every 0.25 Hz in [0,1e5] + ulp "
                  "neighbourhoods of the Bark break-points + parameter lattice) with adjacency monotonicity",
        text="Round trips both ways to 1e-9, strict increase between every pair of adjacent grid points, "
             "continuity at the Bark break-points, agreement with independently re-implemented published "
             "mel/Bark formulas, 1000 Hz = 1000 mel +- 0.02, OctaveScaling(low_hz<=0) rejected.",
        note="'All real frequencies' is represented by the grid; at the +-64 ulp neighbourhoods only "
             "'no drop beyond 8 ulp' is demanded (adjacent floats may map to one value).",
        design="3/C19"),
    "C20": dict(
        level="exploration", engine="L-lattice",
        technique="exhaustive enumeration of widths 0..4096 x window classes/parameters, of the "
                  "circshift_fourier argument lattice (shift theorem oracle) and a probability grid",
        text="Every width x window: length, closed form vs numpy shape / documented area, non-negativity, "
             "sum = 1+O(1/width), gamma closed form and arg-max band. circshift_fourier: dft_size 1..12 and "
             "None x segment length x start_idx x shift -2D..2D x copy x dtype: ifft(pad(out)) == "
             "roll(ifft(pad(in)), shift). gauss_quant vs erfc bisection (lower tail + symmetry), monotone, "
             "affine in mu/std; angular/hertz inverses.",
        note="numpy.fft and math.erfc trusted; tolerances as corrected in DESIGN 3/C20.",
        design="3/C20"),
}

NOT_YET = "check not built yet in this session (see DESIGN.md section 3 for the planned design)"
ALL = ["C%02d" % i for i in range(1, 21)]


def main():
    checks = []
    for pid in ALL:
        if pid not in CHECKS:
            continue
        c = CHECKS[pid]
        checks.append({
            "property_id": pid,
            "quick_cmd": "./check %s --tier quick" % pid,
            "thorough_cmd": "./check %s --tier thorough" % pid,
            "evidence_file": "/verif/evidence/%s.json" % pid,
            "replay_cmd_template": "./check %s --replay {path}" % pid,
            "engine": c["engine"],
            "level_claimed": {"category": c["level"], "text": c["text"],
                              "design_ref": "DESIGN.md section " + c["design"]},
            "level_note": c["note"],
            "technique": c["technique"],
        })
    commits = subprocess.run(
        ["git", "-C", "/repo", "log", "--format=%h %s", "--grep=^hook:"],
        capture_output=True, text=True).stdout.strip().splitlines()
    man = {
        "version": 1,
        "setup_cmd": "/venv/bin/python -m mc.selftest",
        "hooks": {
            "guard": "PYDROBERT_SPEECH_VERIF",
            "enable": "the checks import /repo/src directly (editable install / sys.path); "
                      "./check sets PYDROBERT_SPEECH_VERIF=1; no instrumentation is needed so far",
            "baseline_off_cmd": "cd /repo && env -u PYDROBERT_SPEECH_VERIF /venv/bin/python -m pytest "
                                "-ra -q -p no:cacheprovider --timeout=900 --continue-on-collection-errors",
            "source_commits": [c.split()[0] for c in commits],
            "add_only": True,
        },
        "engines": [
            {"name": "E-explicit-state", "path": "mc/explorer.py",
             "serves_properties": ["C01", "C04", "C16", "C17"],
             "kind_free_text": "BFS over operation histories of the real object with canonical-state merging"},
            {"name": "L-lattice", "path": "mc/core.py",
             "serves_properties": ["C02", "C03", "C05", "C06", "C07", "C08", "C09", "C11", "C12",
                                   "C14", "C15", "C18", "C19", "C20"],
             "kind_free_text": "bounded-exhaustive enumeration of a finite parameter lattice against a reference model"},
            {"name": "M-model-replay", "path": "mc/refs/shorten.py", "serves_properties": ["C13"],
             "kind_free_text": "format state machine explored on a model; every trace encoded and replayed through the real decoder"},
            {"name": "F-fault", "path": "mc/crash.py", "serves_properties": ["C10"],
             "kind_free_text": "kill the real CLI at every traced syscall (strace injection), resume, compare"},
        ],
        "checks": checks,
        "not_applicable": [{"property_id": p, "reason": NOT_YET} for p in ALL if p not in CHECKS],
        "notes": "See DESIGN.md. known_findings.json lists genuine defects (open/fixed).",
    }
    with open(os.path.join(HERE, "MANIFEST.json"), "w") as f:
        json.dump(man, f, indent=1)
    print("MANIFEST.json: %d checks, %d not yet claimed" % (len(checks), len(man["not_applicable"])))


if __name__ == "__main__":
    main()
