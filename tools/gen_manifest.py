#!/venv/bin/python
"""Regenerate MANIFEST.json from the table below (keeps it schema-valid at all times)."""
import json
import os
import subprocess

HERE = os.path.dirname(os.path.dirname(os.path.abspath(__file__)))

CHECKS = {
    "C01": dict(
        level="model_checking", engine="E-explicit-state",
        technique="explicit-state BFS over all chunk lengths on the real computer (state merging "
                  "by canonical form, NaN-poisoned dead regions) + unmerged all-compositions tree; schedule enumeration of two live instances",
        text="Every reachable state of a real STFT/SI computer under the alphabet {compute_chunk of "
             "every length 0..Nmax-n, finalize} is explored to closure for each configuration of a "
             "lattice (all 1<=S<=L<=8, 3 frame styles, 2 windows, padded/unpadded; SI banks x shifts "
             "1..6 x styles); every transition runs the real method and is compared with compute_full "
             "of a fresh instance, so all 2^(Nmax-1) chunkings of every prefix are covered, not sampled. Added after seeded changes: every composition on ONE live computer with all outputs held until after finalize, and every interleaving of the calls of TWO live computers (schedule enumeration; snapshots would hide shared buffers). Wave 4: sub-check transport - every composition through one live computer with chunks in non-native byte order / strided / negative-stride / in one caller buffer overwritten after each call, and with the computer deep-copied or pickled before every call and before exactly one call at every position. Wave 5: transport also offers a refused integer chunk before exactly one call at every position, runs every call under np.errstate(all='raise'), and builds the computer with flags spelled 0/1 / numpy.bool_.",
        note="Sample values are one generic signal per configuration; compute_full is the reference "
             "(its own definition is C02/C03); merging validated by poisoning and an unmerged cross-check.",
        design="3/C01"),
    "C02": dict(
        level="exploration", engine="L-lattice",
        technique="bounded-exhaustive lattice enumeration of configurations x lengths on the real "
                  "compute_full against a definitional full-DFT reference model; construction histories on a shared bank",
        text="The full Cartesian lattice (7 tiny banks incl. complex ones that wrap below 0 Hz and past "
             "Nyquist x L 2..12 x S x padded/unpadded (every DFT size 2..12,16, all residues mod 4) x 3 "
             "frame styles x 2 windows x log/power/energy x 6 lengths around the frame boundaries) is "
             "enumerated completely and each point compared with an independent reference (full complex "
             "DFT, explicit reflection map, responses rebuilt by the docstring recipe). Also construction histories: every ordered pair/triple of computers built on ONE bank instance, evaluated after all were built; data alphabet incl. loud-then-quiet, outlier, tiny, strided and negative-stride views; realistic 25/10 ms geometry. Wave 4: big-endian input and computers obtained via deepcopy / pickle round trip / after an earlier compute_full. Wave 5: numpy error state all='raise' (generic / zero / loud-then-quiet signals) and constructor flags spelled 0/1 / numpy.bool_.",
        note="numpy.fft trusted; get_truncated_response taken as given (C06); one generic signal per "
             "length plus zeros.",
        design="3/C02"),
    "C03": dict(
        level="exploration", engine="L-lattice",
        technique="bounded-exhaustive lattice enumeration on the real compute_full against an "
                  "np.convolve reference model; construction/call histories in one process",
        text="Every in-domain point of banks x shifts 1..6 x styles x padded/unpadded x windows x "
             "log/power/energy x float dtypes x lengths {0..3S, M-1, M, M+S, D-1, D, D+1, 2D+3} is "
             "computed by the real overlap-save implementation and by direct convolution. Also construction/call histories: ordered pairs of configurations built in one process, 7 compute_full calls on the live instances (short utterances first), each vs the definition. Waves 4-5: computers via deepcopy / pickle, refused integer input inside histories, big-endian / strided / negative-stride inputs in every dtype, flag spellings, numpy error state.",
        note="np.convolve trusted; impulse responses sampled in the documented DFT width; the reference "
             "asserts its DFT size equals the computer's (harness error otherwise).",
        design="3/C03"),
    "C04": dict(
        level="model_checking", engine="E-explicit-state",
        technique="explicit-state BFS to fixpoint over call histories on one real instance, "
                  "differential oracle against a fresh instance (bit-identical)",
        text="All histories over {compute_chunk(k), finalize, compute_full(N), compute_full(float32), "
             "frame_by_frame_calculation(N, chunk_size)} are explored to closure (utterances bounded by "
             "Nmax), so the verdict covers histories of unbounded length over the alphabet; each "
             "observation must be bit-identical to a fresh instance fed only the current utterance; "
             "refusals mid-utterance must raise ValueError and leave the canonical state unchanged. Wave 4: same buffer object refilled, big-endian input left untouched, refused inputs, results of several utterances held to the end.",
        note="Finite alphabet of chunk/utterance lengths; merging by canonical state with NaN-poisoned "
             "dead regions (as C01).",
        design="3/C04"),
    "C05": dict(
        level="exploration", engine="L-lattice",
        technique="bounded-exhaustive lattice bank class x scale x num_filts x rate x range x flags, every "
                  "filter: closed-form layout reference and DTFT-of-impulse-response measurements; call histories on one bank object",
        text="Every constructible bank of the lattice: centres/edges equal the independently re-implemented "
             "scale layout, centres strictly increasing and inside supports_hz; for filters whose support "
             "spans < rate/2: peak at the centre with gain 1 (two routes: DTFT of the impulse response and "
             "the frequency response), 3 dB crossings (erb=False) or ERB = edge spacing (erb=True, Parseval), "
             "unit L2 norm with scale_l2_norm; triangle / mel-triangle equality at every bin; invalid ranges "
             "rejected with ValueError. Also odd/fractional sampling rates and a history sub-check: every 2-call (3 thorough) sequence on one bank object, results held, compared with fresh objects, aliasing/scribble tests. Waves 4-5: frequency-grid sub-check (odd widths, half spectra), support threshold changed before construction, gammatone orders 1-2, numpy error state, scale objects re-parameterised / copied / pickled.",
        note="(Nyquist, Nyquist+1] is left open by the property and untested; unconstructible valid "
             "configurations are counted, not violations; odd sampling rates not enumerated.",
        design="3/C05"),
    "C06": dict(
        level="exploration", engine="L-lattice",
        technique="bounded-exhaustive lattice banks x every filter x DFT widths (2..600 sweep in thorough), "
                  "docstring rebuild recipe vs get_frequency_response; call histories on one bank object",
        text="For every bank, filter and width: rebuilt-from-truncated vs full response within 2 eps "
             "(identical up to 1e-12 for triangular/Fbank), start bin in [0,width), real banks inside the "
             "half spectrum, half=True equals the leading bins, Hermitian symmetry, analytic filters vanish "
             "on negative frequencies, all finite. Also banks with high_hz in (Nyquist, Nyquist+1] at large widths, one bank object per case, and call histories (incl. the same call twice on banks with narrow filters). Waves 4-5: banks under a changed support threshold and threshold histories; width / index as numpy scalars and 0-d arrays with argument immutability.",
        note="Widths per bank are bounded by the cost of the library's per-period Python loops (stated in "
             "the module).",
        design="3/C06"),
    "C07": dict(
        level="exploration", engine="L-lattice",
        technique="bounded-exhaustive lattice banks x every filter x buffer widths {W0, W0+1, 2W0, 4W0-1}: "
                  "inverse DFT vs impulse response and support bounds in both domains; call histories on one bank object",
        text="In every buffer long enough for the filter: ifft(frequency response) equals the impulse "
             "response within 2 eps, real iff is_real, magnitudes outside `supports` < 2 eps and outside "
             "`supports_hz` < 2.5 eps, zero-phase supports straddle 0, causal gammatone supports start at 0. Also call histories on one bank object (results held, fresh-object differential oracle). Waves 4-5: threshold axis and threshold histories; argument types (numpy integers on long supports) and option spellings (0/1, numpy.bool_, JSON).",
        note="Domain as stated by the property (zero-phase banks; gammatone order >= 3 without L2 scaling); "
             "filters with W0 above a cap are skipped and counted.",
        design="3/C07"),
    "C08": dict(
        level="exploration", engine="L-lattice",
        technique="exhaustive enumeration of the alias registry, of every class tree with <=5 (thorough 7) "
                  "classes x alias-sharing pairs x query roots, and of nested JSON configuration trees; registration/lookup histories",
        text="The whole registry (__subclasses__ of the six families, every alias, per-family resolution, "
             "unknown aliases) is walked; alias shadowing is decided on EVERY creation-ordered class tree up "
             "to the bound under a private root with the oracle 'created last wins'; the "
             "alias_factory_subclass_from_arg contract over mapping types; JSON-round-tripped nested "
             "configurations (computer x bank alias x scale alias x window alias) vs explicit construction "
             "(array_equal features). Also lookup/register/lookup histories (queries repeated after every class creation), classes that inherit `aliases`, falsy aliases, and build-modify-build histories for string aliases. Waves 4-5: foreign-family aliases in nested slots, near-miss aliases (whitespace, case, edits) through 4 routes, class statements executed again (names repeat).",
        note="Hierarchies are trees (no multiple-inheritance DAGs); creating classes is global state, so "
             "each hierarchy lives under a fresh private root.",
        design="3/C08"),
    "C09": dict(
        level="exploration", engine="L-lattice",
        technique="bounded-exhaustive lattice of tool x computer x pre x post x config syntax x container "
                  "x utterance set; both console tools run in-process against a NumPy reference pipeline; separate-process and in-process run histories",
        text="Every point of the Cartesian lattice runs the real tool and compares every stored matrix "
             "(ids present, nothing else, allclose rtol 1e-5 in float32) with read_signal -> channel pick -> "
             "pre-processors in order -> compute_full (or raw column) -> post-processors in order; config "
             "syntaxes must agree and a fixed --seed must be reproducible (dither). Also --seed over {0,1,7,2^31-1}, separate interpreter processes with distinct hash salts, a framing lattice (tool x style x L parity x S parity x every length), option boundary values and id sets with string relations, runs with a pre-existing manifest (all 16 subsets), and pairs of tool runs in one interpreter. Wave 4: silent, zero-padded and very quiet utterances.",
        note="Order of the torch tool's two Preemphasize filters is unobservable (they commute); signal "
             "lengths L//2+1 <= N < L are outside the torch tool's claimed domain (C14).",
        design="3/C09"),
    "C10": dict(
        level="fault_enumeration", engine="F-fault",
        technique="crash-point enumeration on the real process: strace syscall fault injection kills the "
                  "CLI at every state-changing syscall on the output paths (SIGKILL and SIGINT), then resume; exhaustive manifest-subset enumeration",
        text="The real console script is killed at EVERY state-changing syscall (openat/mkdir/write/writev/"
             "close) touching the output directory, a feature file or the manifest, with SIGKILL and SIGINT; "
             "after each kill invariants I1 (manifest lists only complete loadable files) and I2 (lists every "
             "completed utterance but the one in flight) are checked, the command is re-run and I3 (directory "
             "identical to an uninterrupted run incl. dither under --seed) and I4 (listed files not rewritten) "
             "are checked; thorough adds second-order kills. Worker counts 0..3 compared; the dataset "
             "mechanism is driven for every assignment/order of <=4 items over <=3 simulated workers. Also ids with substring relations, non-default --file-prefix/--file-suffix, and `manifest_subsets`: id set x all 24 map orders x all 16 manifest subsets x seeds. Wave 5: a wrong file set of the uninterrupted run is reported as a violation.",
        note="Process kills at syscall granularity (page cache survives); OS scheduling of DataLoader "
             "workers is sampled, the repository-side seeding mechanism is enumerated (DESIGN 4).",
        design="3/C10"),
    "C11": dict(
        level="exploration", engine="L-lattice",
        technique="bounded-exhaustive lattice container x shape x dtype x access path x cast x key, plus "
                  "exhaustive garbage enumeration (all 1-byte strings, 2-byte strings over 16 symbols, every "
                  "prefix and byte substitution of small valid files) for wds_read_signal in child processes; call histories in a fresh process",
        text="Every container is written with its own writer and read back from a path and from a stream "
             "(array_equal, dtype, shape); the error lattice (no suffix, stream without force_as, unknown "
             "force_as); wds_read_signal must return None or an ndarray and never raise, hang or crash on "
             "every enumerated byte string under every key suffix. Also multi-read SPHERE files through every access path, and call histories in a forked never-called process: every pair (triple) of calls over successful reads, documented errors and files named after force_as keywords; held results unchanged, no shared memory, module configuration unchanged. Waves 4-5: a file rewritten between reads (4 ways, mtime restored), long multi-channel inputs through every reader, 21 kinds of file object, streams positioned at a non-zero offset.",
        note="wave, soundfile, numpy, torch, h5py writers trusted; short-read streams (pipes) not modelled.",
        design="3/C11"),
    "C12": dict(
        level="exploration", engine="L-lattice",
        technique="bounded-exhaustive lattice coding x channels 1..7 x sample counts around multiples of the "
                  "16 KiB read x header layout x dtype with an independent SPHERE writer; all 256 G.711 "
                  "codes; every truncation length; every header prefix; call histories with held results",
        text="Files produced by an independent writer decode to exactly the stored samples and shape for "
             "every lattice point (both sides of every read boundary, frame sizes that do not divide 16384); "
             "both G.711 tables equal an independent ITU-T expansion on all 256 codes; every byte length of a "
             "truncated data section yields a warning and exactly the whole samples present; header faults "
             "raise IOError. Also header sizes that are not multiples of 1024 (every size 1024..3100), counts around k*q for k<=4 (2nd-4th straddle), and call histories with held results. Waves 4-5: 21 kinds of file object (names of every type, pipes, gzip, mmap), raw streams that return short reads.",
        note="The independent G.711 expansion and SPHERE writer are cross-checked against libsndfile in "
             "their selftests.",
        design="3/C12"),
    "C13": dict(
        level="model_checking", engine="M-model-replay",
        technique="format state machine explored on a Python model (all command sequences to depth 3-4, BFS "
                  "over merged model states to depth 8); every model trace is serialised by an independent "
                  "encoder and replayed through the real decoder",
        text="Every command sequence over a 14-command alphabet x 24 header combinations (depth 3) and core "
             "headers (depth 4), plus a BFS over the model's states (bit cursor, channel, block size, shift, "
             "provenance of history/mean slots), is encoded by an independent encoder and decoded by the real "
             "decoder, which must return exactly the target samples; the model decoder is itself validated "
             "on the six sph2pipe vectors; every truncation that cuts a command, undefined command codes and "
             "versions must raise IOError; long streams exercise the bit reader's refill. Waves 4-5: QLPC with no taps, mu-law type 0, complete streams of every length around the reader's refill points, every kind of file object incl. a pipe.",
        note="Sample values: fixed generic sequence plus extremes; validity policy of generated streams as "
             "listed in the module's ASSUMPTIONS; merged BFS keyed without sample values (unmerged depth-4 "
             "sequences and the fine-keyed thorough BFS cover what merging could hide).",
        design="3/C13"),
    "C14": dict(
        level="exploration", engine="L-lattice",
        technique="bounded-exhaustive lattice (C02 lattice x precision x lengths from 0) comparing every "
                  "PyTorch module with its NumPy counterpart; TorchScript script/trace vs eager",
        text="PyTorchSTFTFrameComputer.from_stft_frame_computer(c)(x) vs c.compute_full(x) on every point "
             "(4 bank kinds x L 2..12 x S x pad x 3 styles x windows x energy/log/power x N in {0,1,L//2,L,"
             "L+1,2L+1,3L+S} x float32/float64), shapes incl. empty column count; wrappers (Preemphasize, "
             "PostProcessorWrapper, SI computer, Dither algebra and fixed-seed moments); scripted and traced "
             "modules equal eager. Also non-contiguous input tensors, and for the wrappers: caller's tensor unchanged, second call equals the first. Wave 4: parameter-free modules traced with an example of the other dtype. Wave 5: dither module modes (eval, train(False), scripted in eval mode, deepcopy, state_dict), all wrappers under torch.set_default_dtype(float64).",
        note="Lengths L//2+1 <= N < L are outside the property's claim and the lattice; the torch "
             "constructor's documented refusal of empty filters (DFT size 2 Fbank) is skipped and counted.",
        design="3/C14"),
    "C15": dict(
        level="exploration", engine="L-lattice",
        technique="bounded-exhaustive lattice of shapes <=3-D x dtype x axis x target_axis x concatenate x "
                  "num_deltas x context window x pad mode (Deltas) and num_vectors x axes x pad mode (Stack) "
                  "against an explicit-loop reference; object call histories",
        text="Every lattice point is compared (exact shape and dtype, values to 1e-12, ints exact up to the "
             "documented truncation) with the Kaldi recursion written with explicit loops and explicit edge "
             "extension; 2-D fast path vs N-D path; input unchanged unless in_place. Also object histories: every sequence of calls on one Deltas/Stack object (merged BFS to depth 3-4 plus un-merged pairs/triples) with all results held, vs a fresh object and the reference. Waves 4-5: every numpy pad mode incl. callables, transport routes with every non-default option, refused calls inside histories with attributes unchanged.",
        note="Callable pad modes are not enumerated; an empty filtered axis only with num_deltas=0.",
        design="3/C15"),
    "C16": dict(
        level="model_checking", engine="E-explicit-state",
        technique="explicit-state BFS over all accumulate histories of a data set (every non-empty subset of "
                  "the remaining vectors, in every presentation) on the real Standardize, merged by the "
                  "statistics matrix; plus a lattice for local standardisation; multi-instance histories",
        text="All ordered set-partitions of an integer-valued data set (n<=5 quick, up to 8 thorough) into "
             "accumulate calls (vector / 2-D along either axis / 3-D) are explored; the reachable states are "
             "exactly the 2^n subsets (additivity holds bit-exactly) and in every state apply equals the "
             "independently computed (x-mean)/std; local standardisation, ValueError on dimension mismatch, "
             "float64 result and in_place on a lattice. Also call histories mixing apply and accumulate, a mismatch lattice (every mismatching length incl. broadcastable 1, statistics unchanged after a refusal), and two-instance histories through shared files (load/accumulate/save interleavings re-executed from scratch, no snapshots).",
        note="Integer-valued data so that accumulation order cannot change a bit; real-valued data on the "
             "lattice part with rtol 1e-10.",
        design="3/C16"),
    "C17": dict(
        level="model_checking", engine="E-explicit-state",
        technique="explicit-state BFS over save/accumulate histories to depth 3 (thorough 4) on shared paths; "
                  "state = statistics + decoded directory contents; reload oracle after every save; live histories without snapshots",
        text="Histories over accumulate(D+ | D- | float32) and save(path in {a.npy,a.npz,a.bin,b.npz}, key, "
             "compress, overwrite) are explored on the real Standardize in a scratch directory; after every "
             "save the statistics are reloaded (array_equal apply), the npz archive must contain exactly what "
             "the docstring promises for the overwrite flag, saving onto any existing file must succeed, and "
             "saving without statistics must raise ValueError. Also a data alphabet with constant / near-degenerate coefficients over every target, live histories without snapshots, and re-saving narrower/wider statistics or over another writer's file. Waves 4-5: digit-only / arr_N-like npz keys, 8 path spellings with the scratch directory as current directory.",
        note="Garbage content at a target path is not in the alphabet; compression is observed, not judged.",
        design="3/C17"),
    "C18": dict(
        level="exploration", engine="L-lattice",
        technique="bounded-exhaustive lattice (length x dtype x coefficient x in_place x memory layout x "
                  "seed) against an explicit float64 recurrence and exact noise algebra; object call histories",
        text="Preemphasize: every N 0..6 x 5 dtypes x coefficients x in_place x layouts equals the explicit "
             "loop computed in float64 and cast back, input untouched unless in_place. Dither: seeds 0..31 "
             "reproducible, apply(x)-x independent of x (to 8 ulp of max|x|), exactly linear in coeff on a "
             "zero signal, coeff 0 identity; fixed-seed mean/std inside 6 standard errors. Also signals around powers of two up to 2^17+1, all histories of depth 6 over {seed, apply} on one Dither object, every 3-operation sequence incl. apply-to-previous-result and coeff re-assignment with results held, and integer signals at the dtype rails. Wave 4: several live objects with different coefficients (every 3-operation sequence, closed-form oracle per object), non-native byte-order dtypes. Wave 5: copy / deepcopy / pickle routes, exhaustive int16 tie sweep (every value as previous sample x 14 coefficients), signed and unsigned 8-64 bit rails.",
        note="The distributional claim is checked as a deterministic fixed-seed computation (DESIGN 4).",
        design="3/C18"),
    "C19": dict(
        level="exploration", engine="L-lattice",
        technique="exhaustive evaluation of a stated finite grid (every 0.25 Hz in [0,1e5] + ulp "
                  "neighbourhoods of the Bark break-points + parameter lattice) with adjacency monotonicity",
        text="Round trips both ways to 1e-9, strict increase between every pair of adjacent grid points, "
             "continuity at the Bark break-points, agreement with independently re-implemented published "
             "mel/Bark formulas, 1000 Hz = 1000 mel +- 0.02, OctaveScaling(low_hz<=0) rejected. Also histories: two instances with different parameters in one process and re-assignment of documented public attributes on a used object. Wave 4: the same number passed in both directions in every order on one and two instances (mel/Bark inverse closed forms in the oracle). Wave 5: every numpy integer type up to its limits (found F29), octave anchor in -O / -OO / PYTHONOPTIMIZE interpreters, transport of scale objects.",
        note="'All real frequencies' is represented by the grid; at the +-64 ulp neighbourhoods only "
             "'no drop beyond 8 ulp' is demanded (adjacent floats may map to one value).",
        design="3/C19"),
    "C20": dict(
        level="exploration", engine="L-lattice",
        technique="exhaustive enumeration of widths 0..4096 x window classes/parameters, of the "
                  "circshift_fourier argument lattice (shift theorem oracle) and a probability grid",
        text="Every width x window: length, closed form vs numpy shape / documented area, non-negativity, "
             "sum = 1+O(1/width), gamma closed form and arg-max band. circshift_fourier: dft_size 1..12 and "
             "None x segment length x start_idx x shift -2D..2D x copy x dtype: ifft(pad(out)) == "
             "roll(ifft(pad(in)), shift). gauss_quant vs erfc bisection (lower tail + symmetry), monotone, "
             "affine in mu/std; angular/hertz inverses. Also window call histories: the caller overwrites every returned array in place before the next call on the same or another object. Wave 5: widths as numpy integers, windows after copy / deepcopy / pickle and under np.errstate(all='raise'), circshift flag and integer spellings.",
        note="numpy.fft and math.erfc trusted; tolerances as corrected in DESIGN 3/C20.",
        design="3/C20"),
}

NOT_YET = "check not built yet in this session (see DESIGN.md section 3 for the planned design)"
ALL = ["C%02d" % i for i in range(1, 21)]


def main():
    checks = []
    for pid in ALL:
        if pid not in CHECKS:
            continue
        c = CHECKS[pid]
        checks.append({
            "property_id": pid,
            "quick_cmd": "./check %s --tier quick" % pid,
            "thorough_cmd": "./check %s --tier thorough" % pid,
            "evidence_file": "/verif/evidence/%s.json" % pid,
            "replay_cmd_template": "./check %s --replay {path}" % pid,
            "engine": c["engine"],
            "level_claimed": {"category": c["level"], "text": c["text"],
                              "design_ref": "DESIGN.md section " + c["design"]},
            "level_note": c["note"],
            "technique": c["technique"],
        })
    commits = subprocess.run(
        ["git", "-C", "/repo", "log", "--format=%h %s", "--grep=^hook:"],
        capture_output=True, text=True).stdout.strip().splitlines()
    man = {
        "version": 1,
        "setup_cmd": "/venv/bin/python -m mc.selftest",
        "hooks": {
            "guard": "PYDROBERT_SPEECH_VERIF",
            "enable": "the checks import /repo/src directly (editable install / sys.path); "
                      "./check sets PYDROBERT_SPEECH_VERIF=1; no instrumentation is needed so far",
            "baseline_off_cmd": "cd /repo && env -u PYDROBERT_SPEECH_VERIF /venv/bin/python -m pytest "
                                "-ra -q -p no:cacheprovider --timeout=900 --continue-on-collection-errors",
            "source_commits": [c.split()[0] for c in commits],
            "add_only": True,
        },
        "engines": [
            {"name": "E-explicit-state", "path": "mc/explorer.py",
             "serves_properties": ["C01", "C04", "C16", "C17"],
             "kind_free_text": "BFS over operation histories of the real object with canonical-state merging"},
            {"name": "L-lattice", "path": "mc/core.py",
             "serves_properties": ["C02", "C03", "C05", "C06", "C07", "C08", "C09", "C11", "C12",
                                   "C14", "C15", "C18", "C19", "C20"],
             "kind_free_text": "bounded-exhaustive enumeration of a finite parameter lattice against a reference model"},
            {"name": "M-model-replay", "path": "mc/refs/shorten.py", "serves_properties": ["C13"],
             "kind_free_text": "format state machine explored on a model; every trace encoded and replayed through the real decoder"},
            {"name": "F-fault", "path": "mc/crash.py", "serves_properties": ["C10"],
             "kind_free_text": "kill the real CLI at every traced syscall (strace injection), resume, compare"},
        ],
        "checks": checks,
        "not_applicable": [{"property_id": p, "reason": NOT_YET} for p in ALL if p not in CHECKS],
        "notes": "See DESIGN.md. known_findings.json lists genuine defects (open/fixed).",
    }
    with open(os.path.join(HERE, "MANIFEST.json"), "w") as f:
        json.dump(man, f, indent=1)
    print("MANIFEST.json: %d checks, %d not yet claimed" % (len(checks), len(man["not_applicable"])))


if __name__ == "__main__":
    main()
