#!/venv/bin/python
"""Run the pinned baseline test-suite of a checkout and compare with BASELINE.json.

usage: run_baseline.py [REPO_DIR] [-k EXPR]     (default /repo; guard variable OFF)
exit 0 iff every stable_pass test of /root/.vp/BASELINE.json passed.
"""
import json
import os
import subprocess
import sys
import tempfile
import xml.etree.ElementTree as ET

repo = sys.argv[1] if len(sys.argv) > 1 and not sys.argv[1].startswith("-") else "/repo"
extra = sys.argv[2:] if repo != "/repo" or (len(sys.argv) > 1 and not sys.argv[1].startswith("-")) else sys.argv[1:]
base = json.load(open("/root/.vp/BASELINE.json"))
want = set(base["stable_pass"])
env = dict(os.environ)
env.pop("PYDROBERT_SPEECH_VERIF", None)
env["PYTHONPATH"] = os.path.join(repo, "src")
env["PYTHONDONTWRITEBYTECODE"] = "1"
with tempfile.TemporaryDirectory() as td:
    xml = os.path.join(td, "j.xml")
    cmd = ["/venv/bin/python", "-m", "pytest", "-q", "-p", "no:cacheprovider", "--timeout=900",
           "--continue-on-collection-errors", "-x" if False else "-q", "--junitxml=" + xml,
           "-n", "8"] + extra
    p = subprocess.run(cmd, cwd=repo, env=env, capture_output=True, text=True)
    if "unrecognized arguments: -n" in p.stderr or "no such option: -n" in p.stderr:
        cmd = [c for c in cmd if c not in ("-n", "8")]
        p = subprocess.run(cmd, cwd=repo, env=env, capture_output=True, text=True)
    passed = set()
    failed = set()
    for tc in ET.parse(xml).getroot().iter("testcase"):
        tid = "%s::%s" % (tc.get("classname"), tc.get("name"))
        bad = any(ch.tag in ("failure", "error", "skipped") for ch in tc)
        (failed if bad else passed).add(tid)
print(p.stdout.strip().splitlines()[-1] if p.stdout.strip() else p.stderr[-500:])
missing = sorted(want - passed)
if extra:
    missing = [m for m in missing if m in failed]
print("baseline stable_pass=%d passed_now=%d stable_but_not_passing=%d" % (len(want), len(passed), len(missing)))
for m in missing[:40]:
    print("  NOT PASSING:", m)
sys.exit(1 if missing else 0)
