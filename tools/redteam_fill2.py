#!/venv/bin/python
"""second-wave red-team prompt: as redteam_fill.py, plus the list of mutations already produced
(from seeded/*/meta.json, i.e. other red-team agents' own summaries) so the new ones differ."""
import glob, json, subprocess, sys
pid, wt = sys.argv[1], sys.argv[2]
base = subprocess.run(['/verif/tools/redteam_fill.py', pid, wt], capture_output=True, text=True).stdout
prev = []
for m in sorted(glob.glob('/verif/seeded/%s-[mnpq]*/meta.json' % pid.lower())):
    d = json.load(open(m))
    prev.append("  - %s (site: %s; needs: %s)" % (d.get('summary', '')[:300], d.get('site', '?'), str(d.get('needs', ''))[:300]))
extra = """
ALREADY DONE BY OTHER ENGINEERS (do NOT repeat these mechanisms, code sites or triggering conditions; find different ones):
%s

For this second round, prefer defects of these kinds if the code offers them: (1) state that leaks between calls on the same object or between objects (caches, memoisation with an incomplete key, re-used scratch buffers, returned arrays that alias internal state); (2) boundary values of configuration parameters (0, 1, exactly-equal cases, odd vs even, non-integer rates, negative axes, empty inputs); (3) behaviour that only differs for large inputs (block/buffer boundaries) or for rarely used but documented options; (4) two code sites that must agree (a writer and a reader, a forward and an inverse, a NumPy and a PyTorch implementation) where only one is changed.
""" % "\n".join(prev)
print(base.replace("YOUR TASK:", extra + "\nYOUR TASK:", 1).replace("out/m<k>", "out/r<k>"))
