#!/venv/bin/python
"""Run the registered checks against seeded property-breaking changes (DESIGN section 7).

  tools/seeded.py run [ID ...|all] [--tier quick] [--in-repo]
  tools/seeded.py vet WORKTREE_OUT_DIR NAME     # import a red-team deliverable after vetting it

Each /verif/seeded/<id>/ holds patch.diff, demo.py, meta.json.  `run` applies the patch to a
scratch copy of /repo's working tree (or, with --in-repo, to /repo itself via git apply and
undoes it with git checkout), confirms the demo fails with the patch and passes without, runs the
check(s) of the property it breaks with VERIF_REPO pointing at the patched tree (evidence and
replays go to a scratch directory, never to /verif/evidence), and records the outcome in
seeded/<id>/result.json and seeded/RESULTS.md.
"""
import json
import os
import shutil
import subprocess
import sys
import tempfile
import time

HERE = os.path.dirname(os.path.dirname(os.path.abspath(__file__)))
SEEDED = os.path.join(HERE, "seeded")


def sh(cmd, **kw):
    return subprocess.run(cmd, capture_output=True, text=True, **kw)


def copy_repo(dst):
    shutil.copytree("/repo", dst, ignore=shutil.ignore_patterns(".git", "__pycache__", "*.pyc", "docs"))


def run_demo(tree, demo):
    env = dict(os.environ, PYTHONPATH=os.path.join(tree, "src"), PYTHONDONTWRITEBYTECODE="1",
               PYTHONHASHSEED="0")
    p = sh(["/venv/bin/python", demo], env=env, cwd=os.path.dirname(demo), timeout=600)
    return p.returncode, (p.stdout + p.stderr)[-400:]


def run_one(sid, tier, in_repo=False, props=None):
    d = os.path.join(SEEDED, sid)
    meta = json.load(open(os.path.join(d, "meta.json")))
    props = props or meta.get("checks") or [meta["property"]]
    patch = os.path.join(d, "patch.diff")
    res = dict(id=sid, property=meta["property"], tier=tier, checks={}, time=time.strftime("%F %T"))
    tmp = tempfile.mkdtemp(prefix="verif-seeded-")
    try:
        if in_repo:
            tree = "/repo"
            a = sh(["git", "-C", "/repo", "apply", patch])
        else:
            tree = os.path.join(tmp, "repo")
            copy_repo(tree)
            a = sh(["git", "apply", "--unsafe-paths", "--directory=" + tree, patch], cwd="/")
            if a.returncode:
                a = sh(["patch", "-p1", "-d", tree, "-i", patch])
        if a.returncode:
            res["error"] = "patch does not apply: " + (a.stderr or a.stdout)[-300:]
            return res
        demo = os.path.join(d, "demo.py")
        if os.path.exists(demo):
            res["demo_mutated_rc"], res["demo_mutated_out"] = run_demo(tree, demo)
            if not in_repo:
                res["demo_clean_rc"], _ = run_demo("/repo", demo)
        for prop in props:
            env = dict(os.environ, VERIF_REPO=tree, VERIF_EVIDENCE_DIR=os.path.join(tmp, "ev"),
                       VERIF_REPLAY_DIR=os.path.join(tmp, "replays"))
            t0 = time.time()
            p = sh([os.path.join(HERE, "check"), prop, "--tier", tier], env=env, cwd=HERE)
            lines = (p.stdout or "").splitlines()
            viol = [l for l in lines if l.startswith("VIOLATION")]
            first = ""
            for i, l in enumerate(lines):
                if l.startswith("VIOLATION") and i:
                    first = lines[i - 1].strip()[:400]
                    break
            res["checks"][prop] = dict(rc=p.returncode, violations=len(viol), first=first,
                                       harness_errors=[l[:300] for l in lines if l.startswith("HARNESS")][:3],
                                       wall_s=round(time.time() - t0, 1))
    finally:
        if in_repo:
            sh(["git", "-C", "/repo", "checkout", "--", "."])
        shutil.rmtree(tmp, ignore_errors=True)
    res["caught"] = any(c["rc"] == 1 and c["violations"] > 0 for c in res["checks"].values())
    with open(os.path.join(d, "result.json"), "w") as f:
        json.dump(res, f, indent=1)
    return res


def vet(src, name):
    """import a red-team deliverable (dir with patch.diff, demo.py, meta.json) after confirming:
    patch applies, baseline suite still passes, demo passes clean and fails mutated"""
    meta = json.load(open(os.path.join(src, "meta.json")))
    tmp = tempfile.mkdtemp(prefix="verif-vet-")
    try:
        tree = os.path.join(tmp, "repo")
        copy_repo(tree)
        a = sh(["git", "apply", "--unsafe-paths", "--directory=" + tree, os.path.join(src, "patch.diff")], cwd="/")
        if a.returncode:
            a = sh(["patch", "-p1", "-d", tree, "-i", os.path.join(src, "patch.diff")])
        if a.returncode:
            print(name, "REJECTED: patch does not apply", a.stderr[-300:])
            return False
        clean_rc, _ = run_demo("/repo", os.path.join(src, "demo.py"))
        mut_rc, mut_out = run_demo(tree, os.path.join(src, "demo.py"))
        b = sh([os.path.join(HERE, "tools", "run_baseline.py"), tree])
        tail = b.stdout.strip().splitlines()[-1] if b.stdout.strip() else b.stderr[-200:]
        ok = clean_rc == 0 and mut_rc != 0 and b.returncode == 0
        print(name, "OK" if ok else "REJECTED", "demo clean rc=%s mutated rc=%s; baseline: %s" % (clean_rc, mut_rc, tail))
        if not ok:
            return False
        dst = os.path.join(SEEDED, name)
        os.makedirs(dst, exist_ok=True)
        for f in ("patch.diff", "demo.py"):
            shutil.copy(os.path.join(src, f), os.path.join(dst, f))
        meta["verified"] = dict(demo_clean_rc=clean_rc, demo_mutated_rc=mut_rc, baseline=tail,
                                ran="tools/seeded.py vet: git apply on a scratch copy of /repo; "
                                    "tools/run_baseline.py <copy>; demo.py with PYTHONPATH=<copy>/src and /repo/src",
                                mutated_demo_output=mut_out[-300:])
        with open(os.path.join(dst, "meta.json"), "w") as f:
            json.dump(meta, f, indent=1)
        return True
    finally:
        shutil.rmtree(tmp, ignore_errors=True)


def summary():
    rows = []
    for sid in sorted(os.listdir(SEEDED)):
        r = os.path.join(SEEDED, sid, "result.json")
        m = os.path.join(SEEDED, sid, "meta.json")
        if not os.path.exists(m):
            continue
        meta = json.load(open(m))
        res = json.load(open(r)) if os.path.exists(r) else {}
        chk = "; ".join("%s rc=%s viol=%s %ss" % (k, v["rc"], v["violations"], v["wall_s"])
                        for k, v in res.get("checks", {}).items())
        rows.append("| %s | %s | %s | %s | %s | %s |" % (
            sid, meta["property"], meta.get("summary", "")[:110].replace("|", "/"),
            "yes" if res.get("caught") else ("NO" if res else "not run"), res.get("tier", ""), chk))
    with open(os.path.join(SEEDED, "RESULTS.md"), "w") as f:
        f.write("# Seeded property-breaking changes vs. the checks\n\n"
                "| id | property | change | caught | tier | checks |\n|---|---|---|---|---|---|\n")
        f.write("\n".join(rows) + "\n")
    return rows


def main():
    a = sys.argv[1:]
    if not a or a[0] == "summary":
        print("\n".join(summary()))
        return
    if a[0] == "vet":
        sys.exit(0 if vet(a[1], a[2]) else 1)
    if a[0] == "run":
        tier = "quick"
        in_repo = "--in-repo" in a
        if "--tier" in a:
            tier = a[a.index("--tier") + 1]
        ids = [x for x in a[1:] if not x.startswith("--") and x not in ("quick", "thorough")]
        if not ids or ids == ["all"]:
            ids = sorted(x for x in os.listdir(SEEDED) if os.path.isdir(os.path.join(SEEDED, x)))
        for sid in ids:
            r = run_one(sid, tier, in_repo)
            print(sid, "caught" if r.get("caught") else "MISSED", json.dumps(r.get("checks") or r.get("error"))[:600],
                  "demo(mut/clean)=%s/%s" % (r.get("demo_mutated_rc"), r.get("demo_clean_rc")))
        summary()


if __name__ == "__main__":
    main()
