#!/venv/bin/python
"""print the red-team prompt for a property id and worktree: redteam_fill.py C01 /tmp/rt-c01"""
import json, sys
pid, wt = sys.argv[1], sys.argv[2]
t = open('/verif/tools/redteam_prompt.md').read()
for l in open('/verif/properties.jsonl'):
    p = json.loads(l)
    if p['id'] == pid:
        t = (t.replace('{WT}', wt).replace('{ID}', pid).replace('{TITLE}', p['title'])
             .replace('{STATEMENT}', p['statement']).replace('{QUANT}', p['quantifier']['text'])
             .replace('{K}', '<k>'))
        print(t)
