#!/bin/bash
# tools/run_all.sh [quick|thorough] [ids...] : run registered checks in sequence against /repo, print one line each
tier=${1:-quick}; shift || true
cd "$(dirname "$0")/.."
ids=${@:-$(/venv/bin/python -c "import json;print(' '.join(c['property_id'] for c in json.load(open('MANIFEST.json'))['checks']))")}
for p in $ids; do
  s=$(date +%s)
  out=$(./check $p --tier $tier 2>&1); rc=$?
  echo "$p rc=$rc $(( $(date +%s) - s ))s $(echo "$out" | grep -E "^\[$p\] tier" | sed 's/.*evaluations/evaluations/')"
  echo "$out" | grep -E "^VIOLATION|^KNOWN-FINDING|^HARNESS" | cut -c1-300
done
