"""Engine E: explicit-state breadth-first exploration of a real object (DESIGN 2.1).

The caller supplies
  init()                 -> state object (holds the real implementation object)
  ops(state)             -> iterable of JSON-able operations, simplest first
  step(state, op)        -> (new_state, [violations]); must not mutate `state`
                            (deep-copies the real object, calls the REAL method,
                             runs the oracle, poisons dead regions)
  key(state)             -> hashable canonical form
Every transition is one execution of the real code.  BFS + simplest-first
alphabet: the first counterexample is a shortest one.  Histories are kept per
state so every violation carries the operation list that reaches it.
"""
from collections import deque


class ExploreStats:
    def __init__(self):
        self.states = 0
        self.transitions = 0
        self.max_depth = 0
        self.closed = False
        self.capped = None
        self.violations = []
        self.observations = set()


def bfs(init, ops, step, key, max_states=200000, max_viol=20, on_merge=None):
    st = ExploreStats()
    s0 = init()
    k0 = key(s0)
    seen = {k0: ()}
    frontier = deque([(s0, ())])
    st.states = 1
    while frontier:
        s, hist = frontier.popleft()
        for op in ops(s):
            s2, viol, obs = step(s, op)
            st.transitions += 1
            if obs is not None:
                st.observations.add(obs)
            h2 = hist + (op,)
            for v in viol:
                v = dict(v)
                v["case"] = dict(v.get("case") or {}, ops=list(h2))
                st.violations.append(v)
            if len(st.violations) >= max_viol:
                st.capped = "stopped after %d violations" % len(st.violations)
                return st
            if s2 is None:
                continue
            k = key(s2)
            if k not in seen:
                seen[k] = h2
                st.states += 1
                st.max_depth = max(st.max_depth, len(h2))
                if st.states > max_states:
                    st.capped = "state cap %d" % max_states
                    return st
                frontier.append((s2, h2))
            elif on_merge is not None:
                v = on_merge(seen[k], s2, h2)
                if v:
                    st.violations.extend(v)
    st.closed = True
    return st
