"""C19 - scaling functions are strictly increasing, exactly invertible, and mel/Bark follow the
published formulas (engine L over a stated finite grid).

Grid (DESIGN 3/C19): every multiple of STEP Hz in [0, 1e5] (from low_hz upward for the octave
scale), the same number of equally spaced values in the scale-domain image, the 129 floats
nearest to each Bark break-point (+-64 ulps) in both domains, and the parameter lattice
linear low in {0,10,-5} x slope in {.5,1,3}, octave low in {1,20,440}.  Every grid value and
every pair of adjacent grid values is evaluated (no sampling); arguments are Python floats, one
call per value (the scalar API the property is about).
"""
import math

import numpy as np

from .. import computers, core
from ..refs import scales_ref as ref

LEVEL = "exploration"
ASSUMPTIONS = [
    "the real line is represented by the stated finite grid: multiples of 0.25 Hz (0.0625 Hz "
    "thorough) in [0, 1e5], an equally fine grid of the scale-domain image, and +-64-ulp "
    "neighbourhoods of the Bark break-points; a defect confined between grid values is missed",
    "math.log / math.log10 / float arithmetic are trusted for the reference formulas "
    "(mc/refs/scales_ref.py, selftested against literature anchor values)",
]

FMAX = 1e5
RT_REL = 1e-9
RT_ABS = 1e-9


# ---------------------------------------------------------------- configurations


def configs(tier):
    out = [dict(name="mel"), dict(name="bark")]
    for low in (0.0, 10.0, -5.0):
        for slope in (0.5, 1.0, 3.0):
            out.append(dict(name="linear", low_hz=low, slope_hz=slope))
    lows = (0.5, 0.99, 1.0, 20.0, 440.0) if tier == "quick" else (1e-3, 0.25, 0.5, 0.99, 1.0, 20.0, 440.0, 8000.0)
    for low in lows:
        out.append(dict(name="octave", low_hz=low))
    return out


def build(cfg):
    """explicit construction (aliases are C08's business)"""
    from pydrobert.speech import scales

    n = cfg["name"]
    if n == "mel":
        return scales.MelScaling()
    if n == "bark":
        return scales.BarkScaling()
    if n == "linear":
        return scales.LinearScaling(cfg["low_hz"], cfg["slope_hz"])
    if n == "octave":
        return scales.OctaveScaling(cfg["low_hz"])
    raise core.HarnessError("unknown scale %r" % (cfg,))


def ref_forward(cfg):
    """independent forward map used (a) to place the scale-domain grid, (b) as the published
    formula for mel / Bark.  Linear / octave: the documented meaning of the parameters."""
    n = cfg["name"]
    if n == "mel":
        return ref.mel_from_hz
    if n == "bark":
        return ref.bark_from_hz
    if n == "linear":
        return lambda f: (f - cfg["low_hz"]) * cfg["slope_hz"]
    return lambda f: math.log2(f / cfg["low_hz"])


def hz_min(cfg):
    return cfg["low_hz"] if cfg["name"] == "octave" else 0.0


def grid_size(cfg, step):
    kmin = int(math.ceil(hz_min(cfg) / step))
    kmax = int(round(FMAX / step))
    return kmin, kmax


def grid_value(cfg, domain, k, step):
    if domain == "hz":
        return k * step
    kmin, kmax = grid_size(cfg, step)
    fwd = ref_forward(cfg)
    zlo, zhi = fwd(kmin * step), fwd(FMAX)
    return zlo + (zhi - zlo) * ((k - kmin) / float(kmax - kmin))


def _branch(cfg, domain, v):
    if cfg["name"] != "bark":
        return None
    z = ref.bark_from_hz(v) if domain == "hz" else v
    return "low" if z < 2.0 else ("high" if z > 20.1 else "mid")


# ---------------------------------------------------------------- evaluation


def _eval_values(cfg, domain, vals, ks, strict, step):
    """vals: increasing Python floats (grid values); every value and every adjacent pair is
    checked.  strict: demand strictly increasing images (grid spacing >> rounding); otherwise
    (ulp neighbourhoods) demand no drop beyond a few ulps."""
    sc = build(cfg)
    cls = type(sc).__name__
    if domain == "hz":
        f, g = sc.hertz_to_scale, sc.scale_to_hertz
    else:
        f, g = sc.scale_to_hertz, sc.hertz_to_scale
    viol = []
    seen = set()

    def add(what, detail, k, v):
        tags = dict(scale=cls, what=what + "_" + domain)
        br = _branch(cfg, domain, v)
        if br is not None:
            tags["bark_branch"] = br
        key = tuple(sorted(tags.items()))
        if key in seen:  # one witness per signature per point is enough
            return
        seen.add(key)
        viol.append(core.violation(tags, detail,
                                   dict(cfg=cfg, domain=domain, k=k, step=step, strict=strict)))

    fwd = ref_forward(cfg)
    prev = None
    n = 0
    for k, v in zip(ks, vals):
        r = computers.call(f, v)
        if r[0] != "ok":
            add("exception", "%s(%r) raised %s: %s" % (f.__name__, v, r[1], r[2]), k, v)
            prev = None
            continue
        y = float(r[1])
        r2 = computers.call(g, y)
        if r2[0] != "ok":
            add("exception", "%s(%r) raised %s: %s" % (g.__name__, y, r2[1], r2[2]), k, v)
            prev = None
            continue
        back = float(r2[1])
        n += 1
        if not abs(back - v) <= RT_REL * abs(v) + RT_ABS:
            add("roundtrip", "%s(%s(%r)) = %r, off by %.3g" % (g.__name__, f.__name__, v, back,
                                                              back - v), k, v)
        if cfg["name"] in ("mel", "bark"):
            if domain == "hz":
                want, arg = fwd(v), v
                got = y
            else:
                # published forward formula applied to the library's Hz value
                want, arg = fwd(y), y
                got = v
            tol = (ref.MEL_REL_TOL if cfg["name"] == "mel" else 1e-12) * abs(want) + 1e-11
            if not abs(got - want) <= tol:
                add("reference", "published formula gives %r at %r Hz, library pairs it with %r" % (
                    want, arg, got), k, v)
        if prev is not None:
            pv, py = prev
            if strict:
                if not y > py:
                    add("monotone", "%s(%r) = %r is not above %s(%r) = %r" % (
                        f.__name__, v, y, f.__name__, pv, py), k - 1, pv)
            else:
                if not y >= py - 8 * np.spacing(abs(py)):
                    add("monotone", "%s drops from %r at %r to %r at %r" % (f.__name__, py, pv, y, v),
                        k - 1, pv)
        prev = (v, y)
    return viol, n


def _grid_point(pt, step):
    cfg, domain, lo, hi = pt
    ks = list(range(lo, hi + 1))
    vals = [grid_value(cfg, domain, k, step) for k in ks]
    viol, n = _eval_values(cfg, domain, vals, ks, True, step)
    return core.result(viol, evals=len(ks), nontrivial_count=n,
                       obs=[cfg["name"], domain, len(viol) == 0],
                       sample=dict(cfg=cfg, domain=domain, first=vals[0], last=vals[-1], n=len(ks)))


def _grid_replay(case):
    cfg, domain, k, step = case["cfg"], case["domain"], case["k"], case["step"]
    if not case.get("strict", True):
        return _breaks_replay(case)
    kmin, kmax = grid_size(cfg, step)
    ks = [kk for kk in (k, k + 1) if kmin <= kk <= kmax]
    vals = [grid_value(cfg, domain, kk, step) for kk in ks]
    viol, _ = _eval_values(cfg, domain, vals, ks, True, step)
    return core.result(viol)


# ---------------------------------------------------------------- Bark break-points


def _neighbourhood(center, n):
    lo = center
    for _ in range(n):
        lo = math.nextafter(lo, -math.inf)
    out = [lo]
    for _ in range(2 * n):
        out.append(math.nextafter(out[-1], math.inf))
    return out


def _break_centers(domain):
    return ref.bark_break_hz() if domain == "hz" else list(ref.BARK_BREAKS)


def _breaks_eval(domain, which, ks=None):
    cfg = dict(name="bark")
    vals = _neighbourhood(_break_centers(domain)[which], 64)
    allks = list(range(len(vals)))
    if ks is not None:
        vals = [vals[k] for k in ks]
        allks = ks
    viol, n = _eval_values(cfg, domain, vals, [1000 * which + k for k in allks], False, 0.0)
    # continuity: the images of the whole +-64 ulp neighbourhood stay within 1e-9 (relative)
    sc = build(cfg)
    f = sc.hertz_to_scale if domain == "hz" else sc.scale_to_hertz
    ys = []
    for v in vals:
        r = computers.call(f, v)
        if r[0] == "ok":
            ys.append(float(r[1]))
    sides = set(_branch(cfg, domain, v) for v in vals)
    if ys and not (max(ys) - min(ys) <= 1e-9 * max(1.0, abs(ys[0]))):
        viol.append(core.violation(
            dict(scale="BarkScaling", what="continuity_" + domain, breakpoint=which),
            "images of the 129 floats around %r span [%r, %r]: a jump of %.3g" % (
                vals[len(vals) // 2], min(ys), max(ys), max(ys) - min(ys)),
            dict(cfg=cfg, domain=domain, k=1000 * which, step=0.0, strict=False)))
    return viol, n, sides


def _breaks_point(pt):
    domain, which = pt
    viol, n, sides = _breaks_eval(domain, which)
    if len(sides) < 2:
        raise core.HarnessError("break-point neighbourhood %r does not straddle the break" % (pt,))
    return core.result(viol, evals=129, nontrivial_count=n, obs=[domain, which, len(viol) == 0],
                       sample=dict(domain=domain, center=_break_centers(domain)[which]))


def _breaks_replay(case):
    which, k = divmod(case["k"], 1000)
    viol, _, _ = _breaks_eval(case["domain"], which)
    return core.result(viol)


# ---------------------------------------------------------------- anchors / constructor


def _anchor_point(pt):
    from pydrobert.speech import scales

    kind, val = pt
    viol = []
    if kind == "octave_low":
        r = computers.call(scales.OctaveScaling, val)
        if val <= 0:
            if not (r[0] == "exc" and r[1] == "ValueError"):
                viol.append(core.violation(
                    dict(what="octave_low_accepted", sign="zero" if val == 0 else "negative"),
                    "OctaveScaling(low_hz=%r): expected ValueError, got %s" % (
                        val, "an instance" if r[0] == "ok" else r[1]),
                    dict(kind=kind, val=val)))
            obs = "rejected"
        else:
            if r[0] != "ok":
                viol.append(core.violation(
                    dict(what="octave_low_rejected", exc=r[1]),
                    "OctaveScaling(low_hz=%r) raised %s: %s" % (val, r[1], r[2]),
                    dict(kind=kind, val=val)))
            obs = "accepted"
        return core.result(viol, obs=obs, sample=dict(kind=kind, val=val))
    # mel anchor: 1000 Hz is 1000 mel to within 0.02
    r = computers.call(scales.MelScaling().hertz_to_scale, 1000.0)
    if r[0] != "ok" or not abs(float(r[1]) - 1000.0) <= 0.02:
        viol.append(core.violation(dict(what="mel_anchor"),
                                   "MelScaling().hertz_to_scale(1000.0) = %s, expected 1000 +- 0.02"
                                   % (repr(float(r[1])) if r[0] == "ok" else r[1:],),
                                   dict(kind=kind, val=val)))
    return core.result(viol, obs="mel1000", sample=dict(kind=kind))


OPT_MODES = (["-O"], ["-OO"], ["env:PYTHONOPTIMIZE=1"], [])


def _anchor_interpreter_point(mode):
    """the octave anchor in a SEPARATE interpreter started in an optimised mode (python -O / -OO /
    PYTHONOPTIMIZE=1, where `assert` statements and `if __debug__` blocks are compiled away): the
    refusal of a non-positive low_hz is documented behaviour, not a debugging aid"""
    import json
    import subprocess
    import sys

    prog = (
        "import json, sys\n"
        "from pydrobert.speech import scales\n"
        "out = []\n"
        "for v in (0.0, -0.0, -1.0, -20.0, 0, -440, float('-inf'), 1.0, 20.0):\n"
        "    try:\n"
        "        scales.OctaveScaling(v); out.append([repr(v), 'ok'])\n"
        "    except Exception as e:\n"
        "        out.append([repr(v), type(e).__name__])\n"
        "print(json.dumps(dict(optimize=sys.flags.optimize, out=out)))\n")
    import os
    env = dict(os.environ, PYTHONPATH=os.path.join(core.REPO, "src"), PYTHONDONTWRITEBYTECODE="1")
    args = [sys.executable]
    for m in mode:
        if m.startswith("env:"):
            k, v = m[4:].split("=")
            env[k] = v
        else:
            args.append(m)
    p = subprocess.run(args + ["-c", prog], env=env, capture_output=True, text=True, timeout=120)
    case = dict(kind="interpreter", mode=mode)
    if p.returncode != 0:
        raise core.HarnessError("child interpreter failed: %s" % p.stderr[-300:])
    doc = json.loads(p.stdout.strip().splitlines()[-1])
    viol = []
    for v, res in doc["out"]:
        positive = float(v) > 0
        if positive and res != "ok":
            viol.append(core.violation(dict(what="octave_low_rejected", exc=res, optimized=bool(mode)),
                                       "python %s: OctaveScaling(%s) raised %s" % (" ".join(mode), v, res), case))
        if not positive and res != "ValueError":
            viol.append(core.violation(
                dict(what="octave_low_accepted", sign="zero" if float(v) == 0 else "negative", optimized=bool(mode)),
                "python %s (sys.flags.optimize=%d): OctaveScaling(low_hz=%s): expected ValueError, got %s" % (
                    " ".join(mode), doc["optimize"], v, res), case))
            break
    return core.result(viol, obs=[doc["optimize"], len(viol) == 0], sample=case)


# ---------------------------------------------------------------- sub-checks


# ---------------------------------------------------------------- instance / attribute histories

H_FREQS = (20.0, 160.0, 440.0, 1000.0, 5000.0)


def _mk(kind, params):
    from pydrobert.speech import scales

    return {"linear": scales.LinearScaling, "octave": scales.OctaveScaling,
            "mel": scales.MelScaling, "bark": scales.BarkScaling}[kind](*params)


def _formula(kind, params):
    """closed forms of the two parameterised scales (mel/Bark: the published formulas)"""
    if kind == "linear":
        low, slope = (params + [1.0])[:2] if len(params) < 2 else params
        return (lambda f: (f - low) * slope), (lambda z: z / slope + low)
    if kind == "octave":
        low = params[0]
        return (lambda f: math.log2(f / low)), (lambda z: (2.0 ** z) * low)
    if kind == "mel":
        return ref.mel_from_hz, ref.hz_from_mel
    return ref.bark_from_hz, ref.hz_from_bark


def _history_point(pt):
    """ops on several scale objects living in ONE process: ("new", name, kind, params),
    ("h2s", name, f), ("s2h", name, z), ("set", name, attr, value).  After every call the value is
    compared with the closed form for the object's CURRENT parameters: nothing computed for one
    instance (or for earlier parameter values of the same instance) may leak into another."""
    objs, cur = {}, {}
    viol = []
    evals = 0
    for op in pt:
        if op[0] == "new":
            r = computers.call(_mk, op[2], list(op[3]))
            if r[0] != "ok":
                return core.result([], nontrivial=False, obs="unconstructible", skipped=True)
            objs[op[1]] = r[1]
            cur[op[1]] = [op[2], list(op[3])]
            if op[2] == "linear" and len(cur[op[1]][1]) == 1:
                cur[op[1]][1].append(1.0)
            continue
        if op[0] == "set":
            setattr(objs[op[1]], op[2], op[3])
            kind, params = cur[op[1]]
            idx = {"low_hz": 0, "slope_hz": 1}[op[2]]
            params[idx] = op[3]
            continue
        kind, params = cur[op[1]]
        fwd, inv = _formula(kind, params)
        evals += 1
        if op[0] == "h2s":
            r = computers.call(objs[op[1]].hertz_to_scale, op[2])
            want = fwd(op[2])
        else:
            r = computers.call(objs[op[1]].scale_to_hertz, op[2])
            want = inv(op[2])
        tol = 2e-5 if kind == "mel" else 1e-9
        ok = r[0] == "ok" and abs(float(r[1]) - want) <= tol * max(1.0, abs(want))
        if not ok:
            viol.append(core.violation(
                dict(what="history", scale=kind, call=op[0],
                     after_attribute_change=any(o[0] == "set" and o[1] == op[1] for o in pt[:pt.index(op)]),
                     several_instances=sum(1 for o in pt if o[0] == "new") > 1),
                "history %r: %s(%r) on %s%r gave %s, closed form %r" % (
                    pt, op[0], op[2], kind, tuple(params), r[1] if r[0] == "ok" else r[1:], want),
                dict(ops=pt)))
            break
    return core.result(viol, evals=evals, nontrivial_count=evals, obs=[len(viol) == 0, pt[0][2]],
                       sample=dict(ops=pt))


def _history_points(tier):
    pts = []
    variants = {"linear": [[0.0, 1.0], [20.0, 2.0], [20.0, 0.25], [-5.0, 3.0]],
                "octave": [[20.0], [440.0], [1.0]], "mel": [[]], "bark": [[]]}
    # two instances of one class with different parameters, same frequencies, both query orders
    for kind, vs in variants.items():
        for pa in vs:
            for pb in vs:
                if pa == pb and len(vs) > 1:
                    continue
                for f in H_FREQS if tier == "thorough" else H_FREQS[1:4]:
                    z = 3.0
                    pts.append([["new", "A", kind, pa], ["new", "B", kind, pb],
                                ["h2s", "A", f], ["h2s", "B", f], ["s2h", "A", z], ["s2h", "B", z],
                                ["h2s", "A", f]])
    # attribute re-assignment on a used object (documented public attributes)
    for kind, attr, vals in (("linear", "slope_hz", [2.0, 0.25, 1.0]), ("linear", "low_hz", [0.0, 20.0, -5.0]),
                             ("octave", "low_hz", [20.0, 440.0, 1.0])):
        base = {"linear": [20.0, 2.0], "octave": [20.0]}[kind]
        for v in vals:
            for first in ("h2s", "s2h"):
                pts.append([["new", "A", kind, base], [first, "A", 440.0 if first == "h2s" else 3.0],
                            ["set", "A", attr, v], ["h2s", "A", 440.0], ["s2h", "A", 3.0],
                            ["h2s", "A", 160.0]])
    # the SAME number used as a frequency and as a scale value (every order, one and two instances,
    # int and float spellings of it): an answer remembered for one direction must never be served
    # for the other
    both = {"linear": [[20.0, 2.0]], "octave": [[20.0]], "mel": [[]], "bark": [[]]}
    for kind, vs in both.items():
        for pa in vs:
            for v in ((3.0, 3), (20.0, 20), (1.0, 1)) + (((100.0, 100), (1000.0, 1000)) if kind != "bark" and kind != "octave" else ()):
                for a, b in (("h2s", "s2h"), ("s2h", "h2s")):
                    for va in v:
                        for vb in v:
                            pts.append([["new", "A", kind, pa], [a, "A", va], [b, "A", vb], [a, "A", va]])
                            pts.append([["new", "A", kind, pa], ["new", "B", kind, pa],
                                        [a, "A", va], [b, "B", vb], [a, "B", va], [b, "A", vb]])
    return pts


# ---------------------------------------------------------------- argument types

INT_VALUES = (0, 1, 2, 3, 5, 7, 8, 15, 16, 17, 19, 20, 21, 22, 24, 25, 100, 127, 128, 255, 256, 1000, 4000, 30807, 30808,
              32767, 32768, 63576, 65000, 65535, 65536, 99999)
INT_TYPES = (("int", int), ("int8", np.int8), ("uint8", np.uint8), ("int16", np.int16), ("uint16", np.uint16),
             ("int32", np.int32), ("uint32", np.uint32), ("int64", np.int64), ("uint64", np.uint64),
             ("float64_0d", np.float64))


def _argtype_point(cfg):
    """the same VALUE passed as a Python int, as every numpy integer type that can hold it (8..64 bit,
    signed and unsigned: values up to the type's maximum) and as a numpy float64 scalar must give the same
    result as a Python float (to 1e-12): whole Hz / whole Bark are ordinary arguments"""
    obj = build(cfg)
    viol = []
    evals = 0
    for direction in ("hertz_to_scale", "scale_to_hertz"):
        fn = getattr(obj, direction)
        for v in INT_VALUES:
            if cfg["name"] == "octave" and direction == "hertz_to_scale" and v < cfg["low_hz"]:
                continue
            if direction == "scale_to_hertz" and v > 40:
                continue
            ref_r = computers.call(fn, float(v))
            if ref_r[0] != "ok" or not np.isfinite(ref_r[1]):
                continue
            for kind, typ in INT_TYPES:
                if kind[0] in "iu" and kind != "int" and not (np.iinfo(typ).min <= v <= np.iinfo(typ).max):
                    continue  # the value does not exist in that type
                arg = typ(v)
                evals += 1
                r = computers.call(fn, arg)
                ok = r[0] == "ok" and abs(float(r[1]) - float(ref_r[1])) <= 1e-12 * max(1.0, abs(float(ref_r[1])))
                if not ok:
                    viol.append(core.violation(
                        dict(what="argument_type", scale=cfg["name"], call=direction, arg=kind),
                        "%s %s(%r as %s) = %s but with the same value as a float it is %r" % (
                            cfg, direction, v, kind, r[1] if r[0] == "ok" else r[1:], ref_r[1]),
                        dict(kind="argtype", cfg=cfg)))
                    break
    return core.result(viol[:4], evals=evals, nontrivial_count=evals, obs=[cfg["name"], len(viol) == 0],
                       sample=dict(cfg=cfg, values=list(INT_VALUES)))


def _transport_point(cfg):
    """a scale object after copy.copy / copy.deepcopy / pickle round trip (how it reaches a worker
    process inside a bank) must map like a freshly built one with the same parameters"""
    import copy
    import pickle

    viol = []
    evals = 0
    fresh = build(cfg)
    for route, fn in (("copy", copy.copy), ("deepcopy", copy.deepcopy),
                      ("pickle", lambda o: pickle.loads(pickle.dumps(o)))):
        r = computers.call(fn, build(cfg))
        if r[0] != "ok":
            viol.append(core.violation(dict(what="transport", scale=cfg["name"], route=route, exc=r[1]),
                                       "%s of %r raised %s: %s" % (route, cfg, r[1], r[2]),
                                       dict(kind="transport", cfg=cfg)))
            continue
        for direction, vals in (("hertz_to_scale", (20.0, 160.0, 440.0, 1000.0, 5000.0)),
                                ("scale_to_hertz", (0.5, 3.0, 10.0, 20.0))):
            for v in vals:
                if cfg["name"] == "octave" and direction == "hertz_to_scale" and v < cfg["low_hz"]:
                    continue
                a = computers.call(getattr(fresh, direction), v)
                b = computers.call(getattr(r[1], direction), v)
                evals += 1
                if a[0] != "ok":
                    continue
                if b[0] != "ok" or not abs(float(b[1]) - float(a[1])) <= 1e-12 * max(1.0, abs(float(a[1]))):
                    viol.append(core.violation(
                        dict(what="transport", scale=cfg["name"], route=route, call=direction),
                        "%r after %s: %s(%r) = %s, a freshly built object gives %r" % (
                            cfg, route, direction, v, b[1] if b[0] == "ok" else b[1:], a[1]),
                        dict(kind="transport", cfg=cfg)))
                    break
    return core.result(viol[:4], evals=evals, nontrivial_count=evals, obs=[cfg["name"], len(viol) == 0],
                       sample=dict(cfg=cfg))


def subchecks(tier, seed):
    step = 0.25 if tier == "quick" else 0.0625
    chunk = 20000 if tier == "quick" else 40000
    cfgs = configs(tier)
    pts = []
    for cfg in cfgs:
        kmin, kmax = grid_size(cfg, step)
        for domain in ("hz", "scale"):
            lo = kmin
            while lo < kmax:
                hi = min(kmax, lo + chunk)
                pts.append((cfg, domain, lo, hi))  # consecutive chunks share one grid value
                lo = hi
    anchors = [("octave_low", v) for v in (0.0, -0.0, -1.0, -20.0, -1e-300, 0, -440,
                                           1e-300, 1e-9, 1.0, 20.0, 440.0)]
    anchors.append(("mel_1000", None))
    return [
        core.SubCheck(
            "grid", pts, lambda p: _grid_point(p, step),
            "every grid value v: inverse(forward(v)) = v to 1e-9 rel (+1e-9 abs), mel/Bark equal the "
            "published formula (mel 2e-5 rel, Bark 1e-12 rel), and forward(v_k) < forward(v_k+1) for "
            "every adjacent pair, in the Hz domain (forward = hertz_to_scale) and in the scale "
            "domain (forward = scale_to_hertz); non-trivial = both calls returned a value",
            axes=dict(scale=cfgs, domain=["hz", "scale"], hz_step=step, hz_range=[0, FMAX],
                      values_per_point=chunk + 1),
            replay=_grid_replay, chunk=2),
        core.SubCheck(
            "bark_breaks", [(d, w) for d in ("hz", "scale") for w in (0, 1)], _breaks_point,
            "the 129 floats nearest each Bark break-point (204.23/6542.85 Hz; 2/20.1 Bark), both "
            "directions: round trip, published formula, no drop beyond 8 ulps between adjacent floats, "
            "total variation across the neighbourhood < 1e-9 (continuity); the neighbourhood must "
            "straddle the break", replay=_breaks_replay, serial=True),
        core.SubCheck(
            "argument_types", cfgs, _argtype_point,
            "whole-number arguments (incl. the limits of the narrow types) passed as Python int / every numpy integer type that holds the value / numpy float64 scalar, both "
            "directions, every scale configuration: same result as with a Python float (1e-12)",
            replay=lambda case: _argtype_point(case["cfg"])),
        core.SubCheck(
            "transport", cfgs, _transport_point,
            "every scale configuration after copy.copy / deepcopy / pickle round trip: both directions at 9 "
            "values equal a freshly built object (1e-12)",
            replay=lambda case: _transport_point(case["cfg"])),
        core.SubCheck(
            "histories", _history_points(tier), _history_point,
            "objects living in one process: two instances of a class with different parameters queried at "
            "the same frequencies (both orders), and documented public attributes (low_hz, slope_hz) "
            "re-assigned on an object that has already been used; the same number (int and float "
            "spellings) passed as a frequency and as a scale value in every order on one and two "
            "instances; every value vs the closed form for the object's current parameters",
            replay=lambda case: _history_point(case["ops"])),
        core.SubCheck(
            "anchors_optimized", [list(m) for m in OPT_MODES], _anchor_interpreter_point,
            "the octave anchor in separate interpreters started with -O, -OO, PYTHONOPTIMIZE=1 (and none): "
            "non-positive low_hz raises ValueError, positive is accepted",
            replay=lambda case: _anchor_interpreter_point(case["mode"])),
        core.SubCheck(
            "anchors", anchors, _anchor_point,
            "OctaveScaling(low_hz <= 0) raises ValueError and positive low_hz is accepted; "
            "1000 Hz is 1000 +- 0.02 mel", serial=True,
            replay=lambda case: _anchor_point((case["kind"], case["val"]))),
    ]
