"""C18 - pre-processors apply the documented sample-wise transforms (engine L).

Preemphasize: N x dtype x coeff x in_place x memory layout, against an explicit float64
recurrence cast to the input dtype (exact equality).
Dither: N x dtype x coeff x in_place x layout x numpy seed 0..31: reproducibility, exact noise
algebra (noise independent of the signal up to the rounding of the addition, exactly linear
in coeff on a zero signal, coeff 0 = identity, integer dtypes receive the truncated sum), and a
fixed-seed 6-standard-error band for mean / standard deviation.
"""
import itertools
import math

import numpy as np

from .. import computers, core, sig

LEVEL = "exploration"
ASSUMPTIONS = [
    "sample values: one generic signal per length (mc/sig.py, scaled per dtype so that integer "
    "truncation and float16 rounding matter) plus an all-zero signal; numpy's astype is the "
    "trusted definition of 'cast back to the input dtype' (integers additionally checked against "
    "math.trunc)",
    "numpy.random.seed(s), s in 0..31 (fixed by the lattice, not by VERIF_SEED) is the alphabet of "
    "random streams; the distributional claim (mean 0, std coeff) is a fixed-seed computation with "
    "a 6-standard-error band at n = 2e5, not a proof",
]

DTYPES = ("float64", "float32", "float16", "int16", "int32", ">i2", ">f4", ">f8")  # incl. non-native byte order
COEFFS = (0.0, 0.5, 0.97, -1.0, 3.0)
LAYOUTS = ("contiguous", "strided", "reversed", "readonly")
SCALE = {"float64": 1.0, "float32": 1.0, "float16": 4.0, "int16": 1000.0, "int32": 100000.0,
         ">i2": 1000.0, ">f4": 1.0, ">f8": 1.0}


def _values(seed, n, dtype, offset=0):
    x = sig.signal(seed, n, offset=offset) * SCALE[dtype]
    return x.astype(dtype)  # for integers: truncation of a few-thousand-sized value, no overflow


def _layout(vals, layout):
    """returns (array handed to the implementation, base array that owns the memory)"""
    n = len(vals)
    if layout == "contiguous":
        a = np.array(vals, copy=True)
        return a, a
    if layout == "readonly":
        a = np.array(vals, copy=True)
        a.setflags(write=False)
        return a, a
    if layout == "strided":
        base = np.full(2 * n + 1, 77, dtype=vals.dtype)
        base[1:2 * n:2] = vals
        return base[1:2 * n:2], base
    if layout == "reversed":
        base = np.array(vals[::-1], copy=True)
        return base[::-1], base
    raise core.HarnessError(layout)


def _cast(y64, dtype):
    return np.asarray(y64, dtype=np.float64).astype(dtype)


def _same(a, b):
    return a.dtype == b.dtype and a.shape == b.shape and np.array_equal(a, b, equal_nan=True)


# ---------------------------------------------------------------- Preemphasize


def _pre_ref(vals, coeff, dtype):
    x = [float(v) for v in vals]  # float64 values of the input samples
    y = []
    for i, v in enumerate(x):
        y.append(v if i == 0 else v - coeff * x[i - 1])
    out = _cast(y, dtype)
    if np.dtype(dtype).kind == "i":
        t = np.array([math.trunc(v) for v in y], dtype=dtype)
        if not np.array_equal(t, out):
            raise core.HarnessError("astype disagrees with math.trunc")
    return out.reshape(len(x))


def _pre_case(seed, N, dtype, coeff, in_place, layout):
    from pydrobert.speech import pre

    vals = _values(seed, N, dtype)
    x, base = _layout(vals, layout)
    before = base.copy()
    want = _pre_ref(vals, coeff, dtype)
    case = dict(kind="preemphasize", N=N, dtype=dtype, coeff=coeff, in_place=in_place, layout=layout)
    tags = dict(proc="Preemphasize", dtype_kind=np.dtype(dtype).kind, in_place=in_place)
    p = pre.Preemphasize(coeff)
    r = computers.call(lambda: p.apply(x, in_place=in_place))
    viol = []
    if r[0] != "ok":
        viol.append(core.violation(dict(tags, what="exception", exc=r[1], layout=layout),
                                   "apply raised %s: %s" % (r[1], r[2]), case))
        return viol, "exc"
    got = r[1]
    if not isinstance(got, np.ndarray) or got.dtype != np.dtype(dtype) or got.shape != (N,):
        viol.append(core.violation(dict(tags, what="dtype_or_shape", swapped_input=dtype.startswith(">")),
                                   "returned %r %r, expected %s (%d,)" % (
                                       getattr(got, "dtype", type(got)), getattr(got, "shape", None),
                                       dtype, N), case))
        return viol, "shape"
    if not _same(got, want):
        bad = int(np.flatnonzero(~(got == want))[0])
        viol.append(core.violation(
            dict(tags, what="values", first_sample=(bad == 0), zero_coeff=(coeff == 0)),
            "coeff=%r x=%r: got %r, float64 recurrence cast to %s gives %r (first difference at %d)"
            % (coeff, vals.tolist(), got.tolist(), dtype, want.tolist(), bad), case))
    if not in_place and not np.array_equal(base, before):
        viol.append(core.violation(dict(tags, what="input_modified", layout=layout),
                                   "input changed from %r to %r" % (before.tolist(), base.tolist()),
                                   case))
    if in_place and layout == "strided" and not np.array_equal(base[0::2], before[0::2]):
        viol.append(core.violation(dict(tags, what="wrote_outside_view", layout=layout),
                                   "in_place wrote outside the view it was given", case))
    return viol, "ok"


def _pre_point(pt, seed):
    dtype, coeff = pt
    viol = []
    evals = nt = 0
    obs = set()
    for N in range(0, 7):
        for in_place in (False, True):
            for layout in LAYOUTS:
                if in_place and layout == "readonly":
                    continue  # not a meaningful request; the property leaves it open
                v, o = _pre_case(seed, N, dtype, coeff, in_place, layout)
                viol.extend(v)
                evals += 1
                nt += int(N >= 2)
                obs.add(o)
    return core.result(viol, evals=evals, nontrivial_count=nt, obs=[dtype, sorted(obs)],
                       sample=dict(dtype=dtype, coeff=coeff, inner="N 0..6 x in_place x layout"))


def _pre_replay(case, seed):
    v, _ = _pre_case(seed, case["N"], case["dtype"], case["coeff"], case["in_place"], case["layout"])
    return core.result(v)


# ---------------------------------------------------------------- Dither


def _dither(coeff, x, s, in_place=False):
    from pydrobert.speech import pre

    def run():
        np.random.seed(s)
        return pre.Dither(coeff).apply(x, in_place=in_place)

    return computers.call(run)


def _dither_case(seed, s, N, dtype, coeff, in_place, layout):
    """all exact consequences for one (numpy seed, N, dtype, coeff, in_place, layout)"""
    case = dict(kind="dither", s=s, N=N, dtype=dtype, coeff=coeff, in_place=in_place, layout=layout)
    tags = dict(proc="Dither", dtype_kind=np.dtype(dtype).kind, in_place=in_place)
    viol = []

    def bad(what, detail, **more):
        viol.append(core.violation(dict(tags, what=what, **more), detail, case))

    vals = _values(seed, N, dtype)
    x, base = _layout(vals, layout)
    before = base.copy()
    r = _dither(coeff, x, s, in_place)
    if r[0] != "ok":
        bad("exception", "apply raised %s: %s" % (r[1], r[2]), exc=r[1], layout=layout)
        return viol
    got = r[1]
    if not isinstance(got, np.ndarray) or got.dtype != np.dtype(dtype) or got.shape != (N,):
        bad("dtype_or_shape", "returned %r %r, expected %s (%d,)" % (
            getattr(got, "dtype", type(got)), getattr(got, "shape", None), dtype, N),
            swapped_input=dtype.startswith(">"))
        return viol
    got = got.copy()
    if not in_place and not np.array_equal(base, before):
        bad("input_modified", "input changed from %r to %r" % (before.tolist(), base.tolist()),
            layout=layout)
    if in_place and layout == "strided" and not np.array_equal(base[0::2], before[0::2]):
        bad("wrote_outside_view", "in_place wrote outside the view it was given", layout=layout)
    # reproducible: the same seed gives the same result, with or without in_place
    x2, _ = _layout(vals, "contiguous")
    r2 = _dither(coeff, x2, s, False)
    if r2[0] != "ok" or not _same(r2[1], got):
        bad("not_reproducible", "same numpy seed %d: %r then %r" % (s, got.tolist(), r2[1:]))
    # the noise itself: a float64 zero signal under the same seed
    rz = _dither(coeff, np.zeros(N), s, False)
    r1 = _dither(1.0, np.zeros(N), s, False)
    if rz[0] != "ok" or r1[0] != "ok":
        bad("exception", "apply(zeros) raised %r %r" % (rz[1:], r1[1:]), exc=(rz[1] if rz[0] != "ok" else r1[1]),
            layout="zeros")
        return viol
    noise, unit = rz[1], r1[1]
    # exactly linear in coeff on a zero signal (2 ulp of slack for a different but exact-in-
    # -real-arithmetic formulation)
    if not np.all(np.abs(noise - coeff * unit) <= 2 * np.spacing(np.abs(coeff * unit))):
        bad("not_linear_in_coeff", "coeff=%r: noise %r, coeff * unit-noise %r" % (
            coeff, noise.tolist(), (coeff * unit).tolist()))
    if coeff == 0:
        if not _same(got, vals):
            bad("coeff0_not_identity", "coeff 0: %r became %r" % (vals.tolist(), got.tolist()))
        return viol
    x64 = vals.astype(np.float64)
    total = x64 + noise
    kind = np.dtype(dtype).kind
    if kind == "i":
        if not np.all(np.abs(total) < np.iinfo(dtype).max):
            return viol  # the sum leaves the integer range: the cast is undefined, outside the lattice
        want = np.array([math.trunc(v) for v in total], dtype=dtype).reshape(N)
        if not _same(got, want):
            bad("int_not_truncated_sum", "x=%r noise=%r: got %r, trunc(x + noise) = %r" % (
                vals.tolist(), noise.tolist(), got.tolist(), want.tolist()))
    else:
        # apply(x) - x equals the noise up to the rounding of the addition (8 ulp of max|x+n| in
        # float64) and of the cast back to the input dtype (one spacing of that dtype)
        want = total.astype(dtype)
        with np.errstate(over="ignore", invalid="ignore"):
            slack = 8 * np.spacing(np.max(np.abs(total), initial=1.0))
            if dtype != "float64":
                slack = slack + np.spacing(np.abs(want)).astype(np.float64)
            err = np.abs(got.astype(np.float64) - total)
        if not np.all(err <= slack):
            bad("noise_depends_on_signal", "x=%r: apply(x) - x = %r but the same seed on zeros gives %r"
                % (vals.tolist(), (got.astype(np.float64) - x64).tolist(), noise.tolist()))
    return viol


def _dither_point(pt, seed):
    s, dtype = pt
    viol = []
    evals = nt = 0
    for N in range(0, 7):
        for coeff in (0.0, 0.5, 1.0, 3.0, 600.0, 1.0 / 32768, 1e-7, 1e-17):
            for in_place in (False, True):
                for layout in LAYOUTS:
                    if in_place and layout == "readonly":
                        continue
                    viol.extend(_dither_case(seed, s, N, dtype, coeff, in_place, layout))
                    evals += 1
                    nt += int(N >= 1 and coeff != 0)
    return core.result(viol, evals=evals, nontrivial_count=nt, obs=[dtype, s % 4, len(viol) == 0],
                       sample=dict(numpy_seed=s, dtype=dtype, inner="N 0..6 x coeff x in_place x layout"))


def _dither_replay(case, seed):
    if case["kind"] == "independence":
        return _indep_point((case["s"], case["coeff"]), seed)
    if case["kind"] == "stats":
        return _stats_point((case["s"], case["coeff"]))
    return core.result(_dither_case(seed, case["s"], case["N"], case["dtype"], case["coeff"],
                                    case["in_place"], case["layout"]))


def _indep_point(pt, seed):
    """apply(x) - x for two different float64 signals (one large: |x| ~ 600) under the same seed"""
    s, coeff = pt
    N = 64
    a = sig.signal(seed, N)
    b = sig.signal(seed, N, offset=1) * 600.0
    ra, rb = _dither(coeff, sig.ro(a), s), _dither(coeff, sig.ro(b), s)
    case = dict(kind="independence", s=s, coeff=coeff)
    if ra[0] != "ok" or rb[0] != "ok":
        return core.result([core.violation(
            dict(proc="Dither", what="exception", exc=(ra[1] if ra[0] != "ok" else rb[1]),
                 dtype_kind="f", in_place=False, layout="readonly"), "%r %r" % (ra[1:], rb[1:]), case)])
    na, nb = ra[1] - a, rb[1] - b
    tol = 8 * np.spacing(max(np.max(np.abs(ra[1])), np.max(np.abs(rb[1])), np.max(np.abs(b))))
    viol = []
    if not np.all(np.abs(na - nb) <= tol):
        viol.append(core.violation(
            dict(proc="Dither", what="noise_depends_on_signal", dtype_kind="f", in_place=False),
            "seed %d coeff %r: the two noise vectors differ by up to %.3g (allowed %.3g)" % (
                s, coeff, float(np.max(np.abs(na - nb))), tol), case))
    distinct = bool(coeff) and bool(np.any(na != 0))
    return core.result(viol, nontrivial=distinct, obs=[bool(coeff), len(viol) == 0],
                       sample=dict(numpy_seed=s, coeff=coeff, N=N))


def _stats_point(pt):
    s, coeff = pt
    n = 200000
    r = _dither(coeff, np.zeros(n), s)
    case = dict(kind="stats", s=s, coeff=coeff)
    if r[0] != "ok":
        return core.result([core.violation(
            dict(proc="Dither", what="exception", exc=r[1], dtype_kind="f", in_place=False,
                 layout="zeros"), str(r[1:]), case)])
    z = r[1]
    m, sd = float(np.mean(z)), float(np.std(z))
    viol = []
    if not abs(m) <= 6 * coeff / math.sqrt(n):
        viol.append(core.violation(dict(proc="Dither", what="mean"),
                                   "seed %d coeff %r: mean %.5g, 6 s.e. = %.5g" % (
                                       s, coeff, m, 6 * coeff / math.sqrt(n)), case))
    if not abs(sd - coeff) <= 6 * coeff / math.sqrt(2 * n):
        viol.append(core.violation(dict(proc="Dither", what="std"),
                                   "seed %d coeff %r: std %.6g, expected %r +- %.3g" % (
                                       s, coeff, sd, coeff, 6 * coeff / math.sqrt(2 * n)), case))
    return core.result(viol, obs=[coeff, len(viol) == 0], sample=dict(numpy_seed=s, coeff=coeff, n=n))


# ---------------------------------------------------------------- long signals, object reuse

LONG_N = [255, 256, 257, 1023, 1024, 1025, 4095, 4096, 4097, 16383, 16384, 16385, 32768, 32769,
          65535, 65536, 65537, 65538, 131071, 131072, 131073]


def _pre_long_point(pt, seed):
    """lengths around powers of two (block / buffer boundaries of any chunked implementation)"""
    from pydrobert.speech import pre

    dtype, in_place, N = pt
    vals = _values(seed, N, dtype)
    x64 = vals.astype(np.float64)
    want64 = x64.copy()
    want64[1:] = x64[1:] - 0.97 * x64[:-1]      # y[i] = x[i] - c*x[i-1] from the ORIGINAL samples
    want = _cast(want64, dtype)
    x = np.array(vals, copy=True)
    before = x.copy()
    case = dict(kind="preemphasize_long", N=N, dtype=dtype, in_place=in_place)
    tags = dict(proc="Preemphasize", dtype_kind=np.dtype(dtype).kind, in_place=in_place, long=True)
    r = computers.call(lambda: pre.Preemphasize(0.97).apply(x, in_place=in_place))
    viol = []
    if r[0] != "ok":
        viol.append(core.violation(dict(tags, what="exception", exc=r[1]), "%s: %s" % r[1:], case))
    elif r[1].dtype != np.dtype(dtype) or r[1].shape != (N,):
        viol.append(core.violation(dict(tags, what="dtype_or_shape"),
                                   "returned %r %r" % (r[1].dtype, r[1].shape), case))
    else:
        bad = np.flatnonzero(~(r[1] == want))
        if len(bad):
            viol.append(core.violation(
                dict(tags, what="values", first_sample=bool(bad[0] == 0), zero_coeff=False),
                "N=%d %s: %d samples differ from the float64 recurrence, first at index %d (got %r, "
                "expected %r)" % (N, dtype, len(bad), int(bad[0]), r[1][bad[0]].item(),
                                  want[bad[0]].item()), case))
        if not in_place and not np.array_equal(x, before):
            viol.append(core.violation(dict(tags, what="input_modified", layout="contiguous"),
                                       "input modified", case))
    return core.result(viol, obs=[dtype, N > 65536], sample=case)


def _pre_long_replay(case, seed):
    return _pre_long_point((case["dtype"], case["in_place"], case["N"]), seed)


DH_OPS = [["seed", 0], ["seed", 1], ["apply", 1], ["apply", 2], ["apply", 3]]


def _dither_history(ops, persistent, coeff=1.0):
    from pydrobert.speech import pre

    d = pre.Dither(coeff)
    outs = []
    for op in ops:
        if op[0] == "seed":
            np.random.seed(op[1])
            if not persistent:
                d = pre.Dither(coeff)      # reference: a fresh object after every (re)seed
        else:
            outs.append(np.array(d.apply(np.zeros(op[1])), copy=True))
    return outs


def _dither_history_point(prefix):
    """every history of depth <= DEPTH over {seed(0), seed(1), apply(1|2|3 samples)} that starts with
    this prefix, on ONE Dither object: after numpy.random.seed(s) the noise must be what a fresh
    object produces after the same seed and the same calls (reproducible under numpy.random.seed)"""
    depth = 6 - len(prefix)
    viol = []
    evals = nt = 0
    for tail in itertools.chain.from_iterable(itertools.product(DH_OPS, repeat=k)
                                              for k in range(0, depth + 1)):
        ops = [list(o) for o in prefix] + [list(o) for o in tail]
        napply = sum(1 for o in ops if o[0] == "apply")
        if ops[-1][0] != "apply":
            continue
        evals += 1
        r = computers.call(_dither_history, ops, True)
        ref = _dither_history(ops, False)
        reseeded = any(o[0] == "seed" for o in ops[2:])
        nt += int(reseeded and napply >= 2)
        case = dict(kind="dither_history", ops=ops)
        if r[0] != "ok":
            viol.append(core.violation(dict(proc="Dither", what="exception", exc=r[1], history=True),
                                       "%r raised %s: %s" % (ops, r[1], r[2]), case))
        elif not all(_same(a, b) for a, b in zip(r[1], ref)):
            k = [i for i, (a, b) in enumerate(zip(r[1], ref)) if not _same(a, b)][0]
            viol.append(core.violation(
                dict(proc="Dither", what="not_reproducible", history=True, object_reused=True),
                "history %r on one Dither object: apply #%d returned %r, a fresh object after the same "
                "numpy.random.seed and calls returns %r" % (ops, k, r[1][k].tolist(), ref[k].tolist()),
                case))
        if len(viol) >= 5:
            break
    return core.result(viol, evals=evals, nontrivial_count=nt, obs=[len(viol) == 0, prefix[-1]],
                       sample=dict(prefix=prefix, depth=6))


def _dither_history_replay(case):
    ops = case["ops"]
    r = computers.call(_dither_history, ops, True)
    ref = _dither_history(ops, False)
    if r[0] != "ok":
        return core.result([core.violation(dict(proc="Dither", what="exception", exc=r[1], history=True),
                                           str(r), case)])
    if not all(_same(a, b) for a, b in zip(r[1], ref)):
        return core.result([core.violation(
            dict(proc="Dither", what="not_reproducible", history=True, object_reused=True),
            "%r vs %r" % ([a.tolist() for a in r[1]], [b.tolist() for b in ref]), case)])
    return core.result([])


# ---------------------------------------------------------------- held results, attribute changes, rails

OH_OPS = [["apply", "x", False], ["apply", "y", False], ["apply", "x", True], ["set", 0.5], ["set", 0.97],
          ["apply_prev", False]]


def _object_history(pt, seed):
    """sequences of calls on ONE Preemphasize / Dither object: apply to signal x or y (same shape,
    different data), apply to the PREVIOUS RESULT with in_place=False, re-assign the documented public
    attribute `coeff`.  Every returned array is held to the end.  Oracle per call: a fresh object with
    the current coeff on the same input (Dither: numpy re-seeded identically before both).  At the end
    every held result must still be bit-identical to its copy taken on return, results of
    in_place=False calls must not share memory with each other or with their inputs, and inputs of
    in_place=False calls must be unchanged."""
    from pydrobert.speech import pre

    proc, dtype, n, ops = pt
    cls = {"Preemphasize": pre.Preemphasize, "Dither": pre.Dither}[proc]
    coeff = 0.97 if proc == "Preemphasize" else 1.0
    obj = cls(coeff)
    data = {"x": _values(seed, n, dtype), "y": _values(seed, n, dtype, offset=3)}
    held = []  # (result array, copy at return, input array, input copy before, in_place)
    viol = []
    prev = None
    case = dict(kind="object_history", proc=proc, dtype=dtype, n=n, ops=ops)

    def bad(what, detail, **more):
        viol.append(core.violation(dict(proc=proc, what=what, history=True, **more), detail, case))

    for step, op in enumerate(ops):
        if op[0] == "set":
            obj.coeff = coeff = op[1]
            continue
        if op[0] == "apply_prev":
            if prev is None:
                continue
            inp, in_place = prev, False
        else:
            inp, in_place = np.array(data[op[1]], copy=True), op[2]
        before = inp.copy()
        np.random.seed(1234 + step)
        r = computers.call(lambda: obj.apply(inp, in_place=in_place))
        np.random.seed(1234 + step)
        ref_r = computers.call(lambda: cls(coeff).apply(before.copy(), in_place=False))
        if r[0] != "ok" or ref_r[0] != "ok":
            if r[:2] != ref_r[:2]:
                bad("exception", "step %d %r: %s vs fresh %s" % (step, op, r[1:], ref_r[1:]))
            break
        if not _same(r[1], ref_r[1]):
            bad("values_vs_fresh", "history %r: call #%d returned %r..., a fresh %s(%r) returns %r..." % (
                ops, step, r[1][:4].tolist(), proc, coeff, ref_r[1][:4].tolist()),
                after_coeff_change=any(o[0] == "set" for o in ops[:step]))
            break
        if not in_place and not np.array_equal(inp, before):
            bad("input_modified", "history %r: call #%d (in_place=False) modified its input" % (ops, step),
                input_was_earlier_result=(op[0] == "apply_prev"))
            break
        held.append((r[1], r[1].copy(), inp, in_place))
        prev = r[1]
    else:
        for i, (res, cp, inp, ip) in enumerate(held):
            if res.tobytes() != cp.tobytes():
                bad("held_result_changed", "history %r: the array returned by apply #%d was overwritten by a "
                    "later call on the same object" % (ops, i))
                break
            for j, (res2, _, inp2, ip2) in enumerate(held):
                if j > i and not ip and not ip2 and res.size and np.shares_memory(res, res2):
                    bad("results_share_memory", "history %r: results of apply #%d and #%d share memory" % (
                        ops, i, j))
                    break
    return core.result(viol, obs=[proc, dtype, len(viol) == 0], sample=case)


def _object_history_points(tier):
    depth = 3 if tier == "quick" else 4
    pts = []
    for proc in ("Preemphasize", "Dither"):
        for dtype in ("float64", "float32", "int16"):
            for n in (5,) if tier == "quick" else (5, 64):
                for seq in itertools.product(OH_OPS, repeat=depth):
                    if not any(o[0].startswith("apply") for o in seq):
                        continue
                    pts.append((proc, dtype, n, [list(o) for o in seq]))
    return pts


TWO_OPS = [["apply", "A"], ["apply", "B"], ["set", "A", 0.5], ["set", "B", 0.25], ["new", "C", 0.0],
           ["apply", "C"]]


def _two_objects(pt, seed):
    """SEVERAL live objects of one class with different coefficients: A and B are constructed first (in
    that order), then every sequence over {apply A, apply B, A.coeff := 0.5, B.coeff := 0.25, construct
    C(0.0), apply C}.  Oracle per apply: the reference computed from the coefficient THAT object was
    last given (Preemphasize: the float64 recurrence; Dither: x + normal(0, coeff) drawn by the harness
    under the same numpy seed) - never another instance of the class, so state shared between instances
    cannot hide in the oracle."""
    from pydrobert.speech import pre

    proc, dtype, ca, cb, ops = pt
    cls = {"Preemphasize": pre.Preemphasize, "Dither": pre.Dither}[proc]
    objs = {"A": cls(ca)}
    objs["B"] = cls(cb)
    coeffs = {"A": ca, "B": cb}
    vals = _values(seed, 6, dtype)
    case = dict(kind="two_objects", proc=proc, dtype=dtype, ca=ca, cb=cb, ops=ops)
    viol = []
    applies = 0
    for step, op in enumerate(ops):
        if op[0] == "new":
            objs[op[1]] = cls(op[2])
            coeffs[op[1]] = op[2]
            continue
        if op[0] == "set":
            objs[op[1]].coeff = op[2]
            coeffs[op[1]] = op[2]
            continue
        if op[1] not in objs:
            continue
        c = coeffs[op[1]]
        applies += 1
        np.random.seed(77 + step)
        r = computers.call(lambda: objs[op[1]].apply(np.array(vals, copy=True)))
        if proc == "Preemphasize":
            want = _pre_ref(vals, c, dtype)
            ok = r[0] == "ok" and _same(r[1], want)
        else:
            np.random.seed(77 + step)
            noise = np.random.normal(0, c, vals.shape) if c else np.zeros(vals.shape)
            total = vals.astype(np.float64) + noise
            if np.dtype(dtype).kind == "i":
                want = np.trunc(total).astype(dtype)
                ok = r[0] == "ok" and _same(r[1], want)
            else:
                want = total.astype(dtype)
                ok = (r[0] == "ok" and r[1].dtype == want.dtype and r[1].shape == want.shape and bool(np.all(
                    np.abs(r[1].astype(np.float64) - total) <= 8 * np.spacing(np.abs(total)) + (
                        0 if dtype == "float64" else np.spacing(np.abs(want)).astype(np.float64)))))
        if not ok:
            viol.append(core.violation(
                dict(proc=proc, what="values_other_instance_alive", several_instances=True,
                     coeff_of_other_differs=True),
                "objects %s(%r) and %s(%r) alive, ops %r: step %d apply on %s (its coeff is %r) returned %s, "
                "reference %r" % (proc, ca, proc, cb, ops, step, op[1], c,
                                  r[1].tolist() if r[0] == "ok" else r[1:], want.tolist()), case))
            break
    return core.result(viol, nontrivial=applies > 0, obs=[proc, dtype, applies, len(viol) == 0], sample=case)


def _two_objects_points(tier):
    depth = 3 if tier == "quick" else 4
    pts = []
    for proc in ("Preemphasize", "Dither"):
        for dtype in ("float64", "int16"):
            for ca, cb in ((0.97, 0.5), (0.5, 0.97), (1.0, 0.0), (0.0, 3.0)):
                for seq in itertools.product(TWO_OPS, repeat=depth):
                    if not any(o[0] == "apply" for o in seq):
                        continue
                    pts.append((proc, dtype, ca, cb, [list(o) for o in seq]))
    return pts


RAILS = {"int16": [-32768, -32767, -1, 0, 1, 32766, 32767], "int32": [-2 ** 31, -2 ** 31 + 1, 0, 2 ** 31 - 1],
         "int8": [-128, -127, 0, 126, 127], "int64": [-2 ** 63, -2 ** 62, -2 ** 53, 0, 2 ** 53, 2 ** 62],
         "uint8": [0, 1, 127, 128, 254, 255], "uint16": [0, 1, 32767, 32768, 65535],
         "uint32": [0, 1, 2 ** 31, 2 ** 32 - 1],
         # float64-representable values only (the working precision is float64 by definition)
         "uint64": [0, 1, 2 ** 53, 2 ** 62, 2 ** 63, 2 ** 63 + 2048, 2 ** 64 - 2048]}


ROUTES = ("copy", "deepcopy", "pickle", "pickle_after_set", "deepcopy_after_set")


def _routes_point(pt, seed):
    """pre-processors that TRAVEL: copy.copy / copy.deepcopy / pickle round trip of an object with a
    non-default coefficient (given to the constructor, or assigned to the public attribute afterwards);
    the copy must apply ITS coefficient (closed-form oracle), and so must the original afterwards"""
    import copy
    import pickle
    from pydrobert.speech import pre

    proc, dtype, coeff, route = pt
    cls = {"Preemphasize": pre.Preemphasize, "Dither": pre.Dither}[proc]
    case = dict(kind="routes", proc=proc, dtype=dtype, coeff=coeff, route=route)
    if route.endswith("_after_set"):
        obj = cls()
        obj.coeff = coeff
    else:
        obj = cls(coeff)
    fn = {"copy": copy.copy, "deepcopy": copy.deepcopy,
          "pickle": lambda o: pickle.loads(pickle.dumps(o))}[route.split("_")[0]]
    r = computers.call(fn, obj)
    if r[0] != "ok":
        return core.result([core.violation(dict(proc=proc, what="exception", route=route, exc=r[1]),
                                           "%s of %s(%r) raised %s: %s" % (route, proc, coeff, r[1], r[2]), case)])
    vals = _values(seed, 6, dtype)
    viol = []
    for who, o in (("copy", r[1]), ("original", obj)):
        np.random.seed(99)
        g = computers.call(lambda: o.apply(np.array(vals, copy=True)))
        if proc == "Preemphasize":
            want = _pre_ref(vals, coeff, dtype)
            ok = g[0] == "ok" and _same(g[1], want)
        else:
            np.random.seed(99)
            noise = np.random.normal(0, coeff, vals.shape) if coeff else np.zeros(vals.shape)
            total = vals.astype(np.float64) + noise
            want = np.trunc(total).astype(dtype) if np.dtype(dtype).kind == "i" else total.astype(dtype)
            ok = g[0] == "ok" and g[1].dtype == want.dtype and g[1].shape == want.shape and bool(np.all(
                np.abs(g[1].astype(np.float64) - want.astype(np.float64)) <= (
                    0 if np.dtype(dtype).kind == "i" else 8 * np.spacing(np.abs(total)))))
        if not ok:
            viol.append(core.violation(
                dict(proc=proc, what="values_after_transport", route=route, who=who),
                "%s(%r) via %s: apply on the %s returned %s, reference for coeff %r is %r" % (
                    proc, coeff, route, who, g[1].tolist() if g[0] == "ok" else g[1:], coeff, want.tolist()),
                case))
            break
    return core.result(viol, obs=[proc, route, len(viol) == 0], sample=case)


TIE_COEFFS = (0.7, 0.07, 0.94, 0.97, 0.95, 0.9, 0.3, 0.1, 0.01, 0.99, 0.6, -0.7, 1.1, 0.007)


def _tie_sweep_point(pt):
    """EVERY int16 value as the previous sample (x ascending by 1, descending by 1, and by 7 mod 2^16):
    y[i] = trunc(float64(x[i]) - coeff * float64(x[i-1])) exactly - the products coeff*x that are whole
    numbers on paper land a few ulps beside the integer in float64, and the truncating cast must see
    exactly that float64 value (the property: computed in float64 and cast back)"""
    from pydrobert.speech import pre

    coeff, order, dtype, in_place = pt
    info = np.iinfo(dtype)
    n = int(info.max) - int(info.min) + 1
    base = np.arange(int(info.min), int(info.max) + 1, dtype=np.int64)
    if order == "descending":
        base = base[::-1]
    elif order == "step7":
        base = (np.arange(n, dtype=np.int64) * 7) % n + int(info.min)
    x = base.astype(dtype)
    x64 = x.astype(np.float64)
    y = x64.copy()
    y[1:] = x64[1:] - coeff * x64[:-1]
    inside = (y > float(info.min) - 1) & (y < float(info.max) + 1)
    want = np.trunc(y[inside]).astype(dtype)
    case = dict(kind="tie_sweep", coeff=coeff, order=order, dtype=dtype, in_place=in_place)
    r = computers.call(lambda: pre.Preemphasize(coeff).apply(np.array(x, copy=True), in_place=in_place))
    if r[0] != "ok":
        return core.result([core.violation(dict(proc="Preemphasize", what="exception", exc=r[1], sweep=True),
                                           str(r[1:]), case)])
    got = r[1]
    viol = []
    if got.dtype != np.dtype(dtype) or got.shape != x.shape or not np.array_equal(got[inside], want):
        k = int(np.flatnonzero(got[inside] != want)[0]) if got.shape == x.shape else -1
        viol.append(core.violation(
            dict(proc="Preemphasize", what="values", sweep=True, dtype_kind="i"),
            "coeff %r, %s sweep of every %s value: x[i]=%r x[i-1]=%r: float64 gives %r, trunc %r, got %r "
            "(%d samples differ)" % (coeff, order, dtype, x[inside][k].item(),
                                     x64[np.flatnonzero(inside)[k] - 1], float(y[inside][k]), want[k].item(),
                                     got[inside][k].item(), int(np.sum(got[inside] != want))), case))
    return core.result(viol, obs=[coeff, len(viol) == 0], evals=n, nontrivial_count=n, sample=case)





def _rails_point(pt):
    """integer signals AT the rails of their dtype: coeff 0 is the identity everywhere; with noise the
    result is cast(float64(x) + noise) wherever that sum is representable (elsewhere the property is
    silent and nothing is demanded)"""
    from pydrobert.speech import pre

    dtype, s, coeff = pt
    x = np.array(RAILS[dtype] * 3, dtype=dtype)
    case = dict(kind="rails", dtype=dtype, numpy_seed=s, coeff=coeff)
    viol = []
    np.random.seed(s)
    with np.errstate(invalid="ignore"):
        import warnings
        with warnings.catch_warnings():
            warnings.simplefilter("ignore", RuntimeWarning)  # out-of-range sums are outside the domain
            r = computers.call(lambda: pre.Dither(coeff).apply(x.copy()))
    np.random.seed(s)
    noise = np.random.normal(0, coeff, x.shape) if coeff else np.zeros(x.shape)
    if r[0] != "ok":
        return core.result([core.violation(dict(proc="Dither", what="exception", rails=True, exc=r[1]),
                                           str(r), case)])
    total = x.astype(np.float64) + noise
    info = np.iinfo(dtype)
    inside = (total > info.min - 1) & (total < info.max + 1)
    want = np.array([int(v) for v in np.trunc(total[inside])], dtype=dtype)  # Python ints: exact for uint64 too
    if r[1].dtype != np.dtype(dtype) or not np.array_equal(r[1][inside], want):
        k = int(np.flatnonzero(r[1][inside] != want)[0]) if r[1].dtype == np.dtype(dtype) else -1
        viol.append(core.violation(
            dict(proc="Dither", what="values", rails=True, zero_coeff=(coeff == 0)),
            "%s samples at the dtype rails, coeff %r: sample %r + noise %r gave %r, trunc(x+noise) = %r" % (
                dtype, coeff, x[inside][k].item(), float(noise[inside][k]), r[1][inside][k].item(),
                want[k].item()), case))
    return core.result(viol, obs=[dtype, coeff == 0, len(viol) == 0], sample=case)


# ---------------------------------------------------------------- sub-checks


def subchecks(tier, seed):
    nseeds = 32 if tier == "quick" else 128
    pre_pts = list(itertools.product(DTYPES, COEFFS if tier == "quick" else COEFFS + (1.0, -0.97, 1e-3)))
    dith_pts = [(s, d) for s in range(nseeds) for d in DTYPES]
    indep = [(s, c) for s in range(nseeds) for c in (0.0, 0.5, 1.0, 3.0)]
    stats = [(s, c) for s in range(8 if tier == "quick" else 32) for c in (0.5, 1.0, 3.0)]
    long_n = LONG_N if tier == "quick" else LONG_N + [262143, 262144, 262145, 1048575, 1048576, 1048577]
    long_pts = [(d, ip, n) for d in ("float64", "float32", "int16") for ip in (False, True) for n in long_n]
    hist_pts = [[["seed", s], op] for s in (0, 1) for op in DH_OPS]
    rails = [(d, sd, c) for d in RAILS for sd in range(8 if tier == "quick" else 32) for c in (0.0, 0.25, 1.0)]
    return [
        core.SubCheck(
            "object_histories", _object_history_points(tier), lambda p: _object_history(p, seed),
            "EVERY sequence of 3 (thorough 4) operations on one Preemphasize / Dither object over "
            "{apply(x), apply(y), apply(x, in_place), apply(previous result), coeff := 0.5, coeff := 0.97} x "
            "{float64, float32, int16}: each call vs a fresh object with the current coeff; held results "
            "unchanged at the end; no memory shared between results; inputs of in_place=False calls untouched",
            axes=dict(ops=OH_OPS, proc=["Preemphasize", "Dither"], dtype=["float64", "float32", "int16"]),
            replay=lambda c: _object_history((c["proc"], c["dtype"], c["n"], c["ops"]), seed), kind="explore"),
        core.SubCheck(
            "two_objects", _two_objects_points(tier), lambda p: _two_objects(p, seed),
            "two (then three) live objects of one class with DIFFERENT coefficients: every sequence of 3 "
            "(thorough 4) operations over {apply A, apply B, A.coeff := .5, B.coeff := .25, construct C(0), "
            "apply C} x coefficient pairs x {float64, int16}: each apply vs the reference for the coefficient "
            "that very object was given (no second instance in the oracle); non-trivial = an apply happened",
            axes=dict(ops=TWO_OPS, proc=["Preemphasize", "Dither"], dtype=["float64", "int16"],
                      coeff_pairs=[[0.97, 0.5], [0.5, 0.97], [1.0, 0.0], [0.0, 3.0]]),
            replay=lambda c: _two_objects((c["proc"], c["dtype"], c["ca"], c["cb"], c["ops"]), seed),
            kind="explore"),
        core.SubCheck(
            "routes", [(p, d, c, rt) for p in ("Preemphasize", "Dither") for d in ("float64", "int16")
                       for c in (0.0, 0.5, 2.0) for rt in ROUTES], lambda p: _routes_point(p, seed),
            "objects with a non-default coefficient after copy.copy / deepcopy / pickle round trip (coefficient "
            "from the constructor or assigned afterwards): copy and original vs the closed form",
            replay=lambda c: _routes_point((c["proc"], c["dtype"], c["coeff"], c["route"]), seed)),
        core.SubCheck(
            "preemphasize_tie_sweep",
            [(c, o, "int16", ip) for c in TIE_COEFFS for o in ("ascending", "descending", "step7")
             for ip in (False, True)] + [(c, "ascending", d, False) for c in TIE_COEFFS[:4] for d in ("int8", "uint8", "uint16")],
            _tie_sweep_point,
            "Preemphasize over EVERY value of int16 (also int8/uint8/uint16) as previous sample x 14 "
            "coefficients whose products are whole on paper x 3 orders x in_place: exact trunc of the float64 "
            "value; non-trivial = always",
            axes=dict(coeff=list(TIE_COEFFS), order=["ascending", "descending", "step7"]),
            replay=lambda c: _tie_sweep_point((c["coeff"], c["order"], c["dtype"], c["in_place"]))),
        core.SubCheck(
            "dither_rails", rails, _rails_point,
            "integer signals (signed and unsigned, 8..64 bit) at the minimum / maximum of their dtype x numpy seed x coeff {0, .25, 1}: "
            "coeff 0 is the identity, otherwise trunc(x + noise) wherever the sum is representable",
            replay=lambda c: _rails_point((c["dtype"], c["numpy_seed"], c["coeff"]))),
        core.SubCheck(
            "preemphasize_long", long_pts, lambda p: _pre_long_point(p, seed),
            "Preemphasize(0.97) on signals whose lengths straddle powers of two up to 2^17+1 (thorough "
            "2^20+1) x {float64,float32,int16} x in_place: every sample equals the float64 recurrence on "
            "the ORIGINAL samples cast back; non-trivial = always (N >= 255)",
            axes=dict(N=long_n, dtype=["float64", "float32", "int16"], in_place=[False, True]),
            replay=lambda c: _pre_long_replay(c, seed)),
        core.SubCheck(
            "dither_history", hist_pts, _dither_history_point,
            "ALL histories of depth <= 6 over {numpy.random.seed(0), seed(1), apply(1|2|3 samples)} on ONE "
            "Dither object (grouped by their first two operations): every apply must return what a fresh "
            "object returns after the same seeds and calls; non-trivial = the object is re-seeded after "
            "having drawn noise",
            axes=dict(ops=DH_OPS, depth=6), replay=_dither_history_replay, kind="explore"),
        core.SubCheck(
            "preemphasize", pre_pts, lambda p: _pre_point(p, seed),
            "Preemphasize(coeff).apply over dtype x coeff (points) x N 0..6 x in_place x layout "
            "(contiguous / every-other-sample view / negative-stride view / read-only): result equals "
            "the float64 recurrence cast to the input dtype exactly, dtype and shape kept, input "
            "untouched unless in_place, nothing written outside a view; non-trivial = N >= 2",
            axes=dict(dtype=DTYPES, coeff=sorted(set(c for _, c in pre_pts)), N=list(range(7)),
                      in_place=[False, True], layout=LAYOUTS),
            replay=lambda c: _pre_replay(c, seed)),
        core.SubCheck(
            "dither_algebra", dith_pts, lambda p: _dither_point(p, seed),
            "Dither over numpy seed x dtype (points) x N 0..6 x coeff {0,.5,1,3,600,2^-15,1e-7,1e-17} x in_place x "
            "layout: same seed => same result (also in_place vs not), noise on zeros = coeff * "
            "unit noise, coeff 0 identity, integers get trunc(x+noise), floats get x+noise up to the "
            "rounding of the sum/cast, input untouched unless in_place; non-trivial = N >= 1 and coeff != 0",
            axes=dict(numpy_seed=[0, nseeds - 1], dtype=DTYPES, N=list(range(7)),
                      coeff=[0.0, 0.5, 1.0, 3.0, 600.0, 1.0 / 32768, 1e-7, 1e-17], in_place=[False, True], layout=LAYOUTS),
            replay=lambda c: _dither_replay(c, seed)),
        core.SubCheck(
            "dither_independence", indep, lambda p: _indep_point(p, seed),
            "apply(x) - x for two different 64-sample float64 signals (|x| ~ 1 and ~ 600) under the "
            "same numpy seed agree to 8 ulp of max|x|; non-trivial = the noise is non-zero",
            replay=lambda c: _dither_replay(c, seed)),
        core.SubCheck(
            "dither_moments", stats, _stats_point,
            "fixed-seed n = 2e5 draws: |mean| <= 6 coeff/sqrt(n), |std - coeff| <= 6 coeff/sqrt(2n)",
            replay=lambda c: _dither_replay(c, seed)),
    ]
