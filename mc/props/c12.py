"""C12 - uncompressed NIST SPHERE audio decodes exactly (engine L + truncation enumeration).

Files are produced by an independent writer (mc/refs/sphere.py) and decoded by the real
read_signal(..., force_as="sph") from a path and from a stream.  Enumerated completely:

  lattice       coding x channels 1..7 x sample counts on both sides of each of the first four
                16384-byte read boundaries (frame sizes 1..7, 2..14 bytes; files of 1..5 reads) x
                header (field layouts; sizes on, next to and between multiples of 1024) x requested
                dtype x access path
  wide_frames   channel counts at which ONE frame is as large as / larger than the 16384-byte read
                (4096 .. 32769 channels, every coding, a few samples), complete and truncated
  header_sizes  field layout x EVERY header size 1024..3100 (thorough ..5200) and sizes around
                4096, 5120, 8192, 16384 ... x coding x channels x access path on 1300-sample files
  g711_tables   all 256 codes of both tables (independent ITU-T expansion, mc/refs/g711.py)
  truncation    every byte length of the data section of small files (mono and multi-channel)
                plus lengths around each of the three read boundaries of four-read files
  header_faults every prefix shorter than 1024 bytes, wrong magic, header size < 1024
  file_objects  complete / truncated / faulty files through every kind of binary file object (regular,
                unbuffered, fdopen, TemporaryFile, SpooledTemporaryFile, pipe, gzip, mmap, objects with no
                `name` or a `name` of any type)

The shorten-compressed path (copy_shortened_samples) belongs to C13 and is not touched here.
"""
import io
import os
import shutil
import tempfile
import warnings

import numpy as np

from .. import core, sig
from ..refs import g711
from ..refs import sphere as sph

LEVEL = "exploration"
ASSUMPTIONS = [
    "sample values are an alphabet: one seeded generic int16 sequence per file (first entries "
    "forced to 32767, -32768, 0, -1, 1) for PCM, seeded codes for G.711 plus, exhaustively, all "
    "256 codes of each table; the structure (coding, channels, counts, header layout and size, "
    "dtype, access path, truncation length) is what is enumerated",
    "the reference SPHERE writer mc/refs/sphere.py (cross-checked against libsndfile's NIST "
    "reader in its selftest) and the G.711 expansion mc/refs/g711.py (from the Recommendation's "
    "segment/interval definition, cross-checked against the encoder's decision values) are trusted",
    "a declared header size that is not a multiple of 1024 is well-formed: the property says 'any "
    "header size' (>= 1024), the size line is what locates the samples, and libsndfile's NIST "
    "reader decodes the reference writer's 1025/1500/2047/2049/4000-byte headers identically "
    "(selftest); a size smaller than the layout's own fields is not a header and is skipped",
    "short_reads: raw streams whose read(n) may return fewer than n bytes before the end (deterministic "
    "io.RawIOBase wrappers, caps per call); the header is delivered in reads the reader does not have to retry",
    "other sub-checks - streams: read(n) returns n bytes unless at end of file (io.BytesIO in the other sub-checks; file_objects: "
    "the 21 kinds of mc/refs/sphere.py STREAM_KINDS, all of which have that read(); a pipe is read through a "
    "BufferedReader, which blocks until n bytes or end of file)",
    "sample_count = 0 and PCM with a requested 1-byte dtype are outside the property and skipped",
    "wide_frames: 'any channel count' is probed at the channel counts that put ONE frame on and next to "
    "1/2, 1, 2, 3 and 4 times the reader's 16384-byte read (4096 .. 32769 channels), 1..5 samples each",
]

READ = 16384
DTYPES = (None, "int16", "uint8", "int8", "float32")
ACCESS = ("stream", "path")


# ------------------------------------------------------------------ data


def _pcm_values(seed, n, offset=0):
    x = sig.signal(seed, n, offset=offset)
    # wrapped, not clipped: sig.signal has a slow ramp and a clipped run would hide rotations
    v = (np.round(x * 6000.0).astype(np.int64) + 32768) % 65536 - 32768
    ext = np.array([32767, -32768, 0, -1, 1], dtype=np.int64)
    k = min(n, len(ext))
    v[:k] = ext[:k]
    return v


def _codes(seed, n, offset=0):
    x = sig.signal(seed, n, offset=offset)
    return (np.floor(np.abs(x) * 4096.0).astype(np.int64) + np.arange(n)) % 256


def _stored(coding, channels, count, seed, offset=0):
    n = count * channels
    v = _pcm_values(seed, n, offset) if coding.startswith("pcm") else _codes(seed, n, offset)
    if not coding.startswith("pcm") and bytes(v[:4].tolist()) == b"ajkg":
        raise core.HarnessError("seeded codes start with the shorten magic; that is C13's domain")
    return v if channels == 1 else v.reshape(count, channels)


def _expected(coding, stored, dtype):
    """what the property promises, or None when the combination is outside it"""
    one_byte = dtype is not None and np.dtype(dtype).itemsize == 1
    if coding.startswith("pcm"):
        if one_byte:
            return None
        out = stored.astype(np.int16)
    elif one_byte:
        return stored.astype(np.uint8).astype(dtype)     # the raw codes
    else:
        out = g711.expand(coding, stored)
    return out if dtype is None else out.astype(dtype)


# ------------------------------------------------------------------ calling the implementation


def _read(data, access, dtype, tmpdir):
    """-> ("ok", array, [warning messages]) | ("exc", exception, [warnings])"""
    from pydrobert.speech import util

    with warnings.catch_warnings(record=True) as w:
        warnings.simplefilter("always")
        try:
            if access == "stream":
                out = util.read_signal(io.BytesIO(data), dtype=dtype, force_as="sph")
            elif access == "path":
                p = os.path.join(tmpdir, "x.sph")
                with open(p, "wb") as f:
                    f.write(data)
                out = util.read_signal(p, dtype=dtype)
            elif access.startswith("obj:") and access[4:] in sph.STREAM_KINDS + sph.SHORT_READ_KINDS:
                # every kind of binary file object (sub-check file_objects)
                with sph.open_stream(access[4:], data, tmpdir) as f:
                    out = util.read_signal(f, dtype=dtype, force_as="sph")
            else:
                raise core.HarnessError("access %r" % (access,))
            r = ("ok", out)
        except core.HarnessError:
            raise
        except Exception as e:   # the oracle decides
            r = ("exc", e)
    return r + ([str(m.message) for m in w],)


def _clean(msg):
    """exception text without run-specific parts (temp dir names, object addresses)"""
    import re

    msg = re.sub(r"/[^\s'\"]*verif-[A-Za-z0-9_]+", "<tmp>", str(msg))
    return re.sub(r"0x[0-9a-fA-F]+", "0x..", msg)[:300]


class _Tmp:
    def __enter__(self):
        self.d = tempfile.mkdtemp(prefix="verif-")
        return self.d

    def __exit__(self, *a):
        shutil.rmtree(self.d, ignore_errors=True)


_NAME_CLASS = {}


def _acc_tags(access):
    """{} for the BytesIO / path accesses of the other sub-checks; for a file object of sub-check file_objects:
    what its `name` attribute is (absent, str, bytes, int, NoneType, PathLike) and whether it is a pipe"""
    if not access.startswith("obj:"):
        return {}
    kind = access[4:]
    if kind not in _NAME_CLASS:
        with _Tmp() as tmp:
            with sph.open_stream(kind, b"x", tmp) as f:
                _NAME_CLASS[kind] = sph.name_class(f)
    if kind in sph.SHORT_READ_KINDS:
        return dict(file_object=True, name_attr=_NAME_CLASS[kind], pipe=False, short_reads=True)
    return dict(file_object=True, name_attr=_NAME_CLASS[kind], pipe=(kind == "pipe"))


def _base_tags(coding, channels):
    fs = channels * sph.bytes_per_sample(coding)
    return dict(coding=coding, mono=(channels == 1), channels_divide_16384=(READ % fs == 0))


def _hdr_tags(size):
    return dict(header_multiple_of_1024=(size % 1024 == 0))


def _read_bucket(byte_offset):
    """which 16384-byte read of the data section a byte belongs to: 1, 2 or '3+'"""
    k = byte_offset // READ + 1
    return k if k < 3 else "3+"


def _compare(got, want, coding, channels, tags, header_count=None):
    """-> (what, detail[, extra tags]) or None.  Classification is structural:
    partial_frame_lost  = everything before the first 16384-byte read boundary is right, the first
                          wrong/missing sample is at or after the frame that straddles it, and the
                          frame size does not divide 16384
    truncated_mono_tail = (truncation only) mono, the result has the header's sample count instead
                          of the number of samples present, the samples present are right
    truncated_tail      = the same for a multi-channel file"""
    if not isinstance(got, np.ndarray):
        return "type", "returned %r" % type(got).__name__
    fs = channels * sph.bytes_per_sample(coding)
    g, w = got.reshape(-1), want.reshape(-1)
    n = min(len(g), len(w))
    neq = np.flatnonzero(g[:n] != w[:n])
    first = int(neq[0]) if len(neq) else (n if len(g) != len(w) else None)
    if (header_count is not None and got.shape[:1] == (header_count,)
            and want.shape[0] < header_count and first is not None and first >= len(w)):
        return ("truncated_mono_tail" if channels == 1 else "truncated_tail",
                "%d samples present, header promises %d: returned shape %r (the tail beyond the "
                "data is whatever np.empty held), expected shape %r" % (
                    len(w), header_count, got.shape, want.shape))
    if first is not None or got.shape != want.shape:
        boundary = (READ // fs) * channels
        if READ % fs and first is not None and first >= boundary:
            what = "partial_frame_lost"
        elif got.shape != want.shape:
            what = "shape"
        else:
            what = "samples"
        at = None if first is None else (first // channels, first % channels)
        extra = {} if first is None else dict(
            first_bad_in_read=_read_bucket(first * sph.bytes_per_sample(coding)))
        return what, "shape %r, expected %r; first wrong (sample, channel) = %r: got %r expected %r " \
            "[frame of %d bytes, first read boundary inside sample %d]" % (
                got.shape, want.shape, at,
                g[first:first + 3].tolist() if first is not None else None,
                w[first:first + 3].tolist() if first is not None else None, fs, READ // fs), extra
    if got.dtype != want.dtype:
        return "dtype", "dtype %s, expected %s" % (got.dtype, want.dtype)
    return None


# ------------------------------------------------------------------ lattice


THOROUGH = False


def _kmax():
    return 6 if THOROUGH else 4


def _counts(coding, channels):
    """sample counts on both sides of each of the first _kmax() read boundaries: with f = frame
    bytes and q = 16384 // f, the counts k*q-1, k*q, k*q+1 and, where f does not divide 16384,
    also floor(k*16384/f) - 1, .., + 1 (the last whole frame of read k and the frame that
    straddles into read k+1), for k = 1..4 (thorough: 6); plus 1 and 2"""
    fs = channels * sph.bytes_per_sample(coding)
    q = READ // fs
    out = {1, 2}
    for k in range(1, _kmax() + 1):
        for base in (k * q, (k * READ) // fs):
            out.update((base - 1, base, base + 1))
    if THOROUGH:
        out.add(9 * q + 2)
    return sorted(out)


def _nreads(coding, channels, count):
    return -(-count * channels * sph.bytes_per_sample(coding) // READ)


def _extra(c):
    return c[2] if len(c) > 2 else {}


def _lattice_case(case, seed, tmpdir, cache=None):
    coding, ch, variant = case["coding"], case["channels"], case["header"]
    count, dtype, access = case["count"], case["dtype"], case["access"]
    cache = {} if cache is None else cache
    key = (coding, ch, count)
    if key not in cache:
        stored = _stored(coding, ch, count, seed)
        cache[key] = (stored, sph.encode_samples(coding, stored))
    stored, body = cache[key]
    if key + (dtype,) not in cache:
        cache[key + (dtype,)] = _expected(coding, stored, dtype)
    want = cache[key + (dtype,)]
    if want is None:
        return None, "skipped"
    head = sph.header_variant(variant, coding, ch, count)
    r = _read(head + body, access, dtype, tmpdir)
    tags = dict(_base_tags(coding, ch), sub="lattice", **_hdr_tags(len(head)), **_acc_tags(access))
    if r[0] == "exc":
        return core.violation(dict(tags, what="exception", exc=type(r[1]).__name__),
                              "well-formed file raised %s: %s" % (type(r[1]).__name__, _clean(r[1])),
                              dict(case, kind="lattice")), "exc"
    c = _compare(r[1], want, coding, ch, tags)
    if c is not None:
        return core.violation(dict(tags, what=c[0], **_extra(c)),
                              "%s %dch %d samples (%d reads) header=%s (%d bytes) dtype=%s %s: %s%s" % (
                                  coding, ch, count, _nreads(coding, ch, count), variant, len(head),
                                  dtype, access, c[1], "; warnings %r" % r[2] if r[2] else ""),
                              dict(case, kind="lattice")), c[0]
    return None, "ok"


def _lattice(pt, seed):
    coding, ch, count = pt
    viol, obs, evals, nontriv, skipped = [], set(), 0, 0, 0
    cache = {}
    reads = _nreads(coding, ch, count)
    with _Tmp() as tmp:
        for variant in sph.HEADER_VARIANTS:
            for dtype in DTYPES:
                for access in ACCESS:
                    case = dict(coding=coding, channels=ch, header=variant, count=count,
                                dtype=dtype, access=access)
                    v, o = _lattice_case(case, seed, tmp, cache)
                    if o == "skipped":
                        skipped += 1
                        continue
                    evals += 1
                    nontriv += int(reads > 1)         # the decode spans more than one read
                    obs.add((o, reads, dtype))
                    if v is not None:
                        viol.append(v)
    return core.result(viol, evals=evals, nontrivial_count=nontriv, skipped=skipped,
                       obs=sorted(map(str, obs)),
                       sample=dict(coding=coding, channels=ch, count=count, reads=reads,
                                   inner="x %d headers x 5 dtypes x {stream,path}" % len(sph.HEADER_VARIANTS)))


# ------------------------------------------------------------------ frames as large as / larger than a read


# "any channel count": ONE frame (channels x bytes per sample) may be as large as, or larger than, the
# reader's 16384-byte read.  Channel counts that put the frame size on and next to READ/2, READ, 2*READ,
# 3*READ and 4*READ for the 1-byte and the 2-byte codings alike (frame bytes = channels resp. 2*channels)
WIDE_CHANNELS = (4096, 4097, 8191, 8192, 8193, 16383, 16384, 16385, 24577, 32768, 32769)
WIDE_COUNTS = (1, 2, 3, 5)
WIDE_HEADERS = ("h1024", "h1500", "extra2048")


def _frame_vs_read(fs):
    return "below" if fs < READ else "equal" if fs == READ else "above"


def _wide_cuts(fs, count):
    """data-section lengths (bytes) of truncated wide-frame files: nothing, less than one read, less
    than one frame, one frame +-1, and one byte short of the whole file"""
    out = {0, 1, READ - 1, READ, READ + 1, fs - 1, fs, fs + 1, (count - 1) * fs, (count - 1) * fs + fs // 2,
           count * fs - 1}
    return sorted(x for x in out if 0 <= x < count * fs)


def _wide_case(case, seed, tmpdir, cache=None):
    """one complete (data_bytes None) or truncated wide-frame file"""
    coding, ch, variant = case["coding"], case["channels"], case["header"]
    count, dtype, access, nbytes = case["count"], case["dtype"], case["access"], case["data_bytes"]
    cache = {} if cache is None else cache
    key = (coding, ch, count)
    if key not in cache:
        stored = _stored(coding, ch, count, seed)
        cache[key] = (stored, sph.encode_samples(coding, stored))
    stored, body = cache[key]
    fs = ch * sph.bytes_per_sample(coding)
    if nbytes is None:
        present = count
    else:
        if not 0 <= nbytes < count * fs:
            raise core.HarnessError("not a truncation: %r" % (case,))
        present = nbytes // fs
        body = body[:nbytes]
    if (key, present, dtype) not in cache:
        cache[(key, present, dtype)] = _expected(coding, stored[:present], dtype)
    want = cache[(key, present, dtype)]
    if want is None:
        return [], "skipped"
    head = sph.header_variant(variant, coding, ch, count)
    r = _read(head + body, access, dtype, tmpdir)
    tags = dict(coding=coding, sub="wide_frames", frame_vs_read=_frame_vs_read(fs),
                truncated=(nbytes is not None), **_hdr_tags(len(head)))
    case = dict(case, kind="wide_frames")
    where = "%s %d channels (one frame = %d bytes = %.4f reads of 16384) x %d samples, header=%s, %s, " \
        "dtype=%s, %s" % (coding, ch, fs, fs / float(READ), count, variant,
                          "complete" if nbytes is None else "data section cut to %d of %d bytes (%d whole "
                          "samples)" % (nbytes, count * fs, present), dtype, access)
    if r[0] == "exc":
        return [core.violation(dict(tags, what="exception", exc=type(r[1]).__name__),
                               "%s: raised %s: %s" % (where, type(r[1]).__name__, _clean(r[1])), case)], "exc"
    viol = []
    if nbytes is not None and not r[2]:
        viol.append(core.violation(dict(tags, what="truncated_no_warning"), "%s: no warning issued" % where, case))
    c = _compare(r[1], want, coding, ch, tags)
    if c is not None:
        what = c[0]
        if what == "partial_frame_lost":         # that class is about frames SMALLER than a read
            what = "shape" if r[1].shape != want.shape else "samples"
        viol.append(core.violation(dict(tags, what=what), "%s: %s%s" % (
            where, c[1], "; warnings %r" % r[2] if r[2] else ""), case))
    return viol, ("ok" if not viol else "viol")


def _wide(pt, seed):
    coding, ch, count = pt
    fs = ch * sph.bytes_per_sample(coding)
    viol, obs, evals, nontriv, skipped = [], set(), 0, 0, 0
    cache = {}
    with _Tmp() as tmp:
        for nbytes in [None] + _wide_cuts(fs, count):
            for variant in (WIDE_HEADERS if nbytes is None else WIDE_HEADERS[:1]):
                for dtype in (DTYPES if nbytes is None else (None, "uint8")):
                    for access in ACCESS:
                        v, o = _wide_case(dict(coding=coding, channels=ch, header=variant, count=count,
                                               dtype=dtype, access=access, data_bytes=nbytes), seed, tmp, cache)
                        if o == "skipped":
                            skipped += 1
                            continue
                        evals += 1
                        nontriv += int(fs >= READ)
                        obs.add((o, _frame_vs_read(fs), nbytes is None, dtype))
                        viol += v
    return core.result(viol, evals=evals, nontrivial_count=nontriv, skipped=skipped, obs=sorted(map(str, obs)),
                       sample=dict(coding=coding, channels=ch, count=count, frame_bytes=fs,
                                   cuts=_wide_cuts(fs, count), headers=list(WIDE_HEADERS)))


# ------------------------------------------------------------------ every header size


HS_COUNT = 1300          # 1300 .. 7800 data bytes: more than a 1024-byte block in every file


def _hs_channels():
    return (1, 2, 3, 7) if THOROUGH else (1, 3)


def _hs_dense():
    """every header size from 1024 to here (across the 2048 and 3072 block borders; thorough: also
    4096 and 5120)"""
    return 5200 if THOROUGH else 3100


def _header_sizes():
    """every size 1024.._hs_dense(), then sizes on and next to further multiples of 1024 and some
    in between, up to 99999"""
    out = list(range(1024, _hs_dense() + 1))
    for m in (3072, 4096, 5120, 8192, 16384, 32768):
        out += [m - 1, m, m + 1]
    out += [2560, 4000, 10000, 17408, 20000, 65536, 99999]
    return sorted(set(out))


def _hs_case(case, seed, tmpdir, cache=None):
    layout, size, coding, ch, access = (case[k] for k in ("layout", "size", "coding", "channels", "access"))
    cache = {} if cache is None else cache
    key = (coding, ch)
    if key not in cache:
        stored = _stored(coding, ch, HS_COUNT, seed)
        cache[key] = (sph.encode_samples(coding, stored), _expected(coding, stored, None))
    body, want = cache[key]
    if size < sph.layout_min_size(layout, coding, ch, HS_COUNT):
        return None, "skipped"             # the fields do not fit: not a header of that size
    head = sph.header_layout(layout, size, coding, ch, HS_COUNT)
    r = _read(head + body, access, None, tmpdir)
    tags = dict(sub="header_sizes", layout=layout, **_hdr_tags(size))
    case = dict(case, kind="header_sizes")
    where = "%s %dch %d samples, %s header of %d bytes, %s" % (coding, ch, HS_COUNT, layout, size, access)
    if r[0] == "exc":
        return core.violation(dict(tags, what="exception", exc=type(r[1]).__name__),
                              "%s: raised %s: %s" % (where, type(r[1]).__name__, _clean(r[1])), case), "exc"
    c = _compare(r[1], want, coding, ch, tags)
    if c is not None:
        return core.violation(dict(tags, what=c[0]), "%s: %s%s" % (
            where, c[1], "; warnings %r" % r[2] if r[2] else ""), case), c[0]
    return None, "ok"


def _hs(pt, seed):
    layout, coding, ch, sizes = pt
    viol, obs, evals, skipped, nontriv = [], set(), 0, 0, 0
    cache = {}
    with _Tmp() as tmp:
        for size in sizes:
            for access in ACCESS:
                v, o = _hs_case(dict(layout=layout, size=size, coding=coding, channels=ch,
                                     access=access), seed, tmp, cache)
                if o == "skipped":
                    skipped += 1
                    continue
                evals += 1
                nontriv += int(size > 1024)           # there is header beyond the first block
                obs.add((o, size % 1024 == 0, size > 1024))
                if v is not None:
                    viol.append(v)
    return core.result(viol, evals=evals, nontrivial_count=nontriv, skipped=skipped,
                       obs=sorted(map(str, obs)),
                       sample=dict(layout=layout, coding=coding, channels=ch,
                                   sizes="%d..%d (%d values)" % (sizes[0], sizes[-1], len(sizes))))


# ------------------------------------------------------------------ all 256 codes


def _g711_case(case, tmpdir):
    coding, ch, order, dtype, access = (case[k] for k in ("coding", "channels", "order", "dtype", "access"))
    codes = np.arange(256) if order == "up" else np.arange(255, -1, -1)
    stored = codes if ch == 1 else codes.reshape(256 // ch, ch)
    want = _expected(coding, stored, dtype)
    data = sph.write_bytes(coding, stored, "h1024")
    r = _read(data, access, dtype, tmpdir)
    tags = dict(coding=coding, sub="g711_tables")
    if r[0] == "exc":
        return [core.violation(dict(tags, what="exception", exc=type(r[1]).__name__),
                               "raised %s: %s" % (type(r[1]).__name__, _clean(r[1])), dict(case, kind="g711"))]
    got = r[1]
    if not isinstance(got, np.ndarray) or got.shape != want.shape:
        return [core.violation(dict(tags, what="shape"), "shape %r expected %r" % (
            getattr(got, "shape", None), want.shape), dict(case, kind="g711"))]
    bad = np.flatnonzero(got.reshape(-1) != want.reshape(-1))
    if len(bad):
        c = codes[bad]
        raw = dtype is not None and np.dtype(dtype).itemsize == 1
        return [core.violation(
            dict(tags, what="g711_code", raw_requested=raw),
            "%d of 256 codes decode wrongly, e.g. code 0x%02X -> %r, ITU-T G.711 %s gives %r" % (
                len(bad), int(c[0]), got.reshape(-1)[bad[0]].item(), coding,
                want.reshape(-1)[bad[0]].item()), dict(case, kind="g711"))]
    if got.dtype != want.dtype:
        return [core.violation(dict(tags, what="dtype"), "dtype %s expected %s" % (got.dtype, want.dtype),
                               dict(case, kind="g711"))]
    return []


def _g711(pt, seed):
    coding, ch, order = pt
    viol, evals = [], 0
    with _Tmp() as tmp:
        for dtype in DTYPES:
            for access in ACCESS:
                viol += _g711_case(dict(coding=coding, channels=ch, order=order, dtype=dtype,
                                        access=access), tmp)
                evals += 256
    return core.result(viol, evals=evals, nontrivial_count=evals, obs=(coding, ch, order, len(viol)),
                       sample=dict(coding=coding, channels=ch, order=order, codes="0..255"))


# ------------------------------------------------------------------ truncation


def _trunc_case(case, seed, tmpdir, cache=None):
    coding, ch, variant = case["coding"], case["channels"], case["header"]
    count, nbytes, access, dtype = case["count"], case["data_bytes"], case["access"], case["dtype"]
    cache = {} if cache is None else cache
    key = (coding, ch, variant, count)
    if key not in cache:
        st = _stored(coding, ch, count, seed)
        cache[key] = (st, sph.header_variant(variant, coding, ch, count) + sph.encode_samples(coding, st))
    stored, full = cache[key]
    hdr = len(full) - count * ch * sph.bytes_per_sample(coding)
    fs = ch * sph.bytes_per_sample(coding)
    if not 0 <= nbytes < count * fs:
        raise core.HarnessError("not a truncation: %r" % (case,))
    present = nbytes // fs
    want = _expected(coding, stored[:present], dtype)
    r = _read(full[:hdr + nbytes], access, dtype, tmpdir)
    tags = dict(_base_tags(coding, ch), sub="truncation", **_hdr_tags(hdr), **_acc_tags(access))
    case = dict(case, kind="truncation")
    where = "%s %dch header=%s promises %d samples, data section cut to %d of %d bytes (%d whole " \
        "samples) %s" % (coding, ch, variant, count, nbytes, count * fs, present, access)
    if r[0] == "exc":
        return [core.violation(dict(tags, what="truncated_exception", exc=type(r[1]).__name__),
                               "%s: raised %s: %s" % (where, type(r[1]).__name__, _clean(r[1])), case)], "exc"
    viol = []
    if not r[2]:
        viol.append(core.violation(dict(tags, what="truncated_no_warning"),
                                   "%s: no warning issued" % where, case))
    c = _compare(r[1], want, coding, ch, tags, header_count=count)
    if c is not None:
        what = c[0] if c[0] in ("truncated_mono_tail", "truncated_tail", "partial_frame_lost") \
            else "truncated_" + c[0]
        viol.append(core.violation(dict(tags, what=what, **_extra(c)), "%s: %s" % (where, c[1]), case))
    return viol, ("ok" if not viol else "viol")


def _trunc(pt, seed):
    coding, ch, variant, count, lengths = pt
    fs = ch * sph.bytes_per_sample(coding)
    if lengths == "all":
        lengths = list(range(count * fs))
    viol, obs, evals = [], set(), 0
    cache = {}
    with _Tmp() as tmp:
        for nbytes in lengths:
            for access in ACCESS:
                for dtype in (None,) if coding.startswith("pcm") else (None, "uint8"):
                    v, o = _trunc_case(dict(coding=coding, channels=ch, header=variant, count=count,
                                            data_bytes=nbytes, access=access, dtype=dtype), seed, tmp, cache)
                    evals += 1
                    viol += v
                    obs.add((o, nbytes // fs == 0, nbytes % fs == 0, min(nbytes // READ, 3)))
    return core.result(viol, evals=evals, nontrivial_count=evals, obs=sorted(map(str, obs)),
                       sample=dict(coding=coding, channels=ch, header=variant, count=count,
                                   data_bytes=lengths if len(lengths) < 12 else "0..%d" % (count * fs - 1)))


# ------------------------------------------------------------------ header faults


def _fault_bytes(case, seed):
    """-> (bytes, expect) with expect in {"ioerror", "ok"}"""
    kind = case["fault"]
    coding, ch, count = case.get("coding", "pcm01"), case.get("channels", 2), 6
    stored = _stored(coding, ch, count, seed)
    body = sph.encode_samples(coding, stored)
    fields = sph.header_fields(coding, ch, count)
    if kind == "control":
        return sph.build_header(fields, case["size"]) + body, "ok"
    if kind == "prefix":
        full = sph.build_header(fields, case["size"]) + body
        return full[:case["length"]], "ioerror"
    if kind == "magic":
        return sph.build_header(fields, 1024, magic=bytes.fromhex(case["magic"])) + body, "ioerror"
    if kind == "size":
        return sph.build_header(fields, 1024, size_text=case["text"].encode()) + body, "ioerror"
    if kind == "foreign":
        return bytes.fromhex(case["head"]) + b"\0" * case["pad"], "ioerror"
    raise core.HarnessError("fault %r" % (kind,))


def _fault_case(case, seed, tmpdir):
    data, expect = _fault_bytes(case, seed)
    r = _read(data, case["access"], None, tmpdir)
    tags = dict(sub="header_faults", fault=case["fault"], **_acc_tags(case["access"]))
    case = dict(case, kind="fault")
    if expect == "ok":
        if r[0] != "ok":
            raise core.HarnessError("control file rejected: %r" % (r[1],))
        return [], "ok"
    if r[0] == "ok":
        return [core.violation(dict(tags, what="header_fault_accepted"),
                               "%r: %d bytes starting %r decoded to an array of shape %r instead of "
                               "raising IOError" % (case, len(data), data[:20], getattr(r[1], "shape", None)),
                               case)], "accepted"
    if not isinstance(r[1], IOError):
        return [core.violation(dict(tags, what="header_fault_wrong_exception", exc=type(r[1]).__name__),
                               "%r: raised %s (%s) instead of IOError" % (
                                   case, type(r[1]).__name__, _clean(r[1])), case)], type(r[1]).__name__
    return [], "IOError"


def _faults(pt, seed):
    viol, obs = [], set()
    with _Tmp() as tmp:
        for case in pt["cases"]:
            for access in ACCESS:
                v, o = _fault_case(dict(case, access=access), seed, tmp)
                viol += v
                obs.add(o)
    n = 2 * len(pt["cases"])
    return core.result(viol, evals=n, nontrivial_count=n, obs=sorted(obs), sample=pt["cases"][0])


def _fault_points():
    cases = [dict(fault="control", size=n) for n in (1024, 1025, 1500, 2048, 4000)]
    for size in (1024, 1500, 2048):
        for length in range(0, 1024):
            cases.append(dict(fault="prefix", size=size, length=length))
    magic = b"NIST_1A"
    for i in range(len(magic)):
        for sub in (magic[i] ^ 0x20, magic[i] + 1, 0x00):
            m = magic[:i] + bytes([sub]) + magic[i + 1:]
            cases.append(dict(fault="magic", magic=m.hex()))
    for m in (b"NIST_1B", b"RIFF\x24\x08\x00", b"ajkg\x02\xfb\xb1", b"       ", b"\nNIST_1"):
        cases.append(dict(fault="magic", magic=m.hex()))
    for text in ("      0", "      1", "    512", "   1023", "  -1024", "1023   ", "0001000"):
        cases.append(dict(fault="size", text=text))
    for head in (b"RIFF\x00\x10\x00\x00WAVEfmt ", b"fLaC\x00\x00\x00\x22", b"\x93NUMPY\x01\x00", b"PK\x03\x04",
                 b"\x89HDF\r\n\x1a\n", b"FORM\x00\x00\x10\x00AIFF", b""):
        cases.append(dict(fault="foreign", head=head.hex(), pad=4096))
    return [dict(cases=cases[i:i + 64]) for i in range(0, len(cases), 64)]



# ------------------------------------------------------------------ every kind of binary file object


FO_DTYPES = (None, "float32", "uint8")
FO_HEADERS = ("h1024", "h1500")
FO_FAULTS = (dict(fault="prefix", size=1024, length=0),
             dict(fault="prefix", size=1024, length=100), dict(fault="prefix", size=2048, length=1023),
             dict(fault="magic", magic=b"NIST_1B".hex()), dict(fault="size", text="    512"),
             dict(fault="foreign", head=b"RIFF\x00\x10\x00\x00WAVEfmt ".hex(), pad=4096))


def _fo_counts(coding, ch):
    fs = ch * sph.bytes_per_sample(coding)
    return (5, READ // fs + 2)            # one read; two reads (a frame straddles them when fs does not divide)


def _file_objects(pt, seed):
    """pt = (kind of file object, coding): complete files, truncated files and header faults read through
    that kind of object with the oracles of lattice / truncation / header_faults"""
    kind, coding = pt
    access = "obj:" + kind
    viol, obs, evals, skipped = [], set(), 0, 0
    cache = {}
    with _Tmp() as tmp:
        for ch in (1, 2, 3):
            fs = ch * sph.bytes_per_sample(coding)
            for count in _fo_counts(coding, ch):
                for variant in FO_HEADERS:
                    for dtype in FO_DTYPES:
                        v, o = _lattice_case(dict(coding=coding, channels=ch, header=variant, count=count,
                                                  dtype=dtype, access=access), seed, tmp, cache)
                        if o == "skipped":
                            skipped += 1
                            continue
                        evals += 1
                        obs.add(("complete", o, dtype))
                        if v is not None:
                            viol.append(v)
                for nbytes in sorted(set((0, fs + 1, count * fs - 1, (count - 1) * fs))):
                    v, o = _trunc_case(dict(coding=coding, channels=ch, header="h1024", count=count,
                                            data_bytes=nbytes, access=access, dtype=None), seed, tmp)
                    evals += 1
                    obs.add(("truncated", o))
                    viol += v
        for case in FO_FAULTS:
            v, o = _fault_case(dict(case, coding=coding, access=access), seed, tmp)
            evals += 1
            obs.add(("fault", o))
            viol += v
    return core.result(viol, evals=evals, nontrivial_count=evals, skipped=skipped, obs=sorted(map(str, obs)),
                       sample=dict(file_object=kind, coding=coding,
                                   inner="channels 1..3 x {5 samples, two reads} x {complete: 2 headers x 3 dtypes; "
                                         "data section cut at 4 lengths} + 6 header faults"))


# ------------------------------------------------------------------ raw streams that return short reads
#
# A raw (unbuffered) stream may return fewer bytes than requested before its end (io.RawIOBase: sockets, pipes,
# wrappers with a per-call cap); the END of a stream is the empty read.  A complete file delivered that way is a
# well-formed file and decodes to its samples.  The reader under test asks for the 1024-byte block and for the
# rest of the header in one read each and does not retry THOSE (no property covers the header of a raw stream):
# the kinds "short_<cap>" cap every read at >= 1024 bytes and are used with 1024- / 1500-byte headers, the kinds
# "short_after_header_*" deliver the header in full and cap every read of the data section (caps 1, 7, 1024, and
# a cap that varies per call).

SR_DTYPES = (None, "float32", "uint8")


def _sr_counts(coding, ch, kind):
    """sample counts: files longer than one 16 KiB read, on and next to multiples of the read size"""
    fs = ch * sph.bytes_per_sample(coding)
    q = READ // fs
    if min(sph.short_read_caps(kind)) < 1024 and len(sph.short_read_caps(kind)) == 1:
        return (q + 1, (2 * READ) // fs + 1)          # one Python-level read per 1 / 7 bytes: two files
    return sorted({5, q - 1, q, q + 1, 2 * q - 1, 2 * q, 2 * q + 1, (2 * READ) // fs + 1, 3 * q + 3})


def _short_reads(pt, seed):
    kind, coding = pt
    access = "obj:" + kind
    viol, obs, evals, nontriv, skipped = [], set(), 0, 0, 0
    cache = {}
    with _Tmp() as tmp:
        for ch in (1, 2, 3):
            fs = ch * sph.bytes_per_sample(coding)
            counts = _sr_counts(coding, ch, kind)
            for count in counts:
                for variant in FO_HEADERS:
                    for dtype in SR_DTYPES:
                        v, o = _lattice_case(dict(coding=coding, channels=ch, header=variant, count=count,
                                                  dtype=dtype, access=access), seed, tmp, cache)
                        if o == "skipped":
                            skipped += 1
                            continue
                        evals += 1
                        nontriv += int(count * fs > min(sph.short_read_caps(kind)))
                        obs.add(("complete", o, dtype, _nreads(coding, ch, count)))
                        if v is not None:
                            viol.append(v)
            count = counts[-1]
            for nbytes in sorted(set((fs + 1, READ + 1, count * fs - 1, (count - 1) * fs))):
                v, o = _trunc_case(dict(coding=coding, channels=ch, header="h1024", count=count,
                                        data_bytes=nbytes, access=access, dtype=None), seed, tmp)
                evals += 1
                nontriv += 1
                obs.add(("truncated", o))
                viol += v
    return core.result(viol, evals=evals, nontrivial_count=nontriv, skipped=skipped, obs=sorted(map(str, obs)),
                       sample=dict(file_object=kind, coding=coding, caps=list(sph.short_read_caps(kind))))


# ------------------------------------------------------------------ call histories, results held

# Files of the history alphabet.  Several share the number of values (count x channels = 12), the
# result dtype, the coding, the header size or the channel layout pairwise and differ in the rest,
# so that any state keyed by a subset of these (an output buffer per size / dtype, a table per
# coding, a header cache ...) is hit by some pair.  name -> (coding, channels, sample count, header
# variant, content offset, bytes of the data section present (None = all of them))
HIST_FILES = {
    "p1a": ("pcm01", 1, 12, "h1024", 11, None),
    "p1b": ("pcm01", 1, 12, "h1024", 12, None),           # = p1a but for the sample values
    "p2": ("pcm01", 2, 6, "h1024", 13, None),             # same number of values, two channels
    "p1s": ("pcm10", 1, 12, "h1024", 14, None),           # other byte order
    "p1h": ("pcm01", 1, 12, "h2048", 15, None),           # other header size
    "p1n": ("pcm01", 1, 13, "h1024", 16, None),           # other size
    "p1t": ("pcm01", 1, 12, "h1024", 17, 15),             # truncated: 7 whole samples and one byte
    "u1a": ("ulaw", 1, 12, "h1024", 18, None),
    "u1b": ("ulaw", 1, 12, "h1024", 19, None),
    "a1": ("alaw", 1, 12, "h1024", 20, None),
    "u3": ("ulaw", 3, 4, "h1024", 21, None),
    "m3a": ("pcm01", 3, READ // 6 + 2, "h1024", 22, None),  # two reads, a frame straddles them
    "m3b": ("pcm01", 3, READ // 6 + 2, "h1024", 23, None),
}
HIST_DTYPES = (None, "float32", "uint8")
# alphabets of calls (file, requested dtype, access): Cartesian products; validity: 16-bit PCM with
# a 1-byte dtype is outside the property
HIST_ALPHABETS = {
    "full": (tuple(HIST_FILES), HIST_DTYPES, ACCESS),
    "stream": (tuple(HIST_FILES), (None, "float32"), ("stream",)),
}
HIST_PLAN = {"quick": (("full", 2), ("stream", 3)), "thorough": (("full", 3),)}


def _hist_calls(alphabet):
    files, dtypes, accesses = HIST_ALPHABETS[alphabet]
    out = []
    for f in files:
        for dt in dtypes:
            if HIST_FILES[f][0].startswith("pcm") and dt is not None and np.dtype(dt).itemsize == 1:
                continue
            for a in accesses:
                out.append((f, dt, a))
    return out


_HIST_CACHE = {}


def _hist_file(name, seed):
    """-> dict(data=bytes, want={dtype: array}, truncated=bool, values=int, coding, channels)"""
    key = (name, seed)
    if key not in _HIST_CACHE:
        coding, ch, count, variant, off, present = HIST_FILES[name]
        stored = _stored(coding, ch, count, seed, offset=off)
        body = sph.encode_samples(coding, stored)
        fs = ch * sph.bytes_per_sample(coding)
        n = count
        if present is not None:
            if not 0 <= present < len(body):
                raise core.HarnessError("not a truncation: %r" % (name,))
            body, n = body[:present], present // fs
        want = {}
        for dt in HIST_DTYPES:
            w = _expected(coding, stored[:n], dt)
            if w is not None:
                want[dt] = w
        _HIST_CACHE[key] = dict(data=sph.header_variant(variant, coding, ch, count) + body, want=want,
                                truncated=present is not None, count=count, coding=coding, channels=ch)
    return _HIST_CACHE[key]


def _lib_state():
    """module-level data of pydrobert.speech.config and ._sphere that no read may change: numbers,
    strings, sets, tuples and arrays (the G.711 tables).  dicts / lists are left out: a cache may
    grow; whether it may be *visible* is what the held results decide."""
    import hashlib

    from pydrobert.speech import _sphere, config

    out = {}
    for mod in (config, _sphere):
        for name, v in vars(mod).items():
            if name.startswith("__"):
                continue
            if isinstance(v, np.ndarray):
                out[mod.__name__ + "." + name] = hashlib.sha1(
                    repr((v.dtype.str, v.shape)).encode() + np.ascontiguousarray(v).tobytes()).hexdigest()
            elif isinstance(v, (set, frozenset)):
                out[mod.__name__ + "." + name] = repr(sorted(map(repr, v)))
            elif isinstance(v, (bool, int, float, str, bytes, tuple)):
                out[mod.__name__ + "." + name] = repr(v)
    return out


def _relation(calls, files, i, j):
    """structural relation of calls i < j of a history (tags of a history violation)"""
    (fi, di, _), (fj, dj, _) = calls[i], calls[j]
    wi, wj = files[fi]["want"][di], files[fj]["want"][dj]
    return dict(same_file=(fi == fj), same_value_count=(wi.size == wj.size),
                same_result_dtype=(wi.dtype == wj.dtype), same_coding=(files[fi]["coding"] == files[fj]["coding"]))


def _scribble(a):
    """the caller owns a returned array: overwrite it with values no file holds"""
    if not isinstance(a, np.ndarray) or not a.flags.writeable or not a.size:
        return False
    a[...] = 21 if a.dtype.kind in "iu" else 21.5
    return True


def _history_child(calls, files, tmpdir):
    """runs in a forked child (state 'just imported').  -> dict(viol=[[tags, detail]], obs=[...])"""
    viol, obs = [], []
    state0 = _lib_state()
    held = []            # (returned object, copy taken when it was returned, judged correct then)

    def read(j, phase):
        fname, dtype, access = calls[j]
        f = files[fname]
        data = f["data"]
        from pydrobert.speech import util

        with warnings.catch_warnings(record=True) as w:
            warnings.simplefilter("always")
            try:
                if access == "stream":
                    out = util.read_signal(io.BytesIO(data), dtype=dtype, force_as="sph")
                else:
                    out = util.read_signal(os.path.join(tmpdir, fname + ".sph"), dtype=dtype)
                r = ("ok", out)
            except Exception as e:
                r = ("exc", e)
        want = f["want"][dtype]
        tags = dict(sub="histories", phase=phase, first_call=(j == 0), truncated=f["truncated"])
        where = "call %d of %r" % (j + 1, [list(c) for c in calls])
        if r[0] == "exc":
            viol.append([dict(tags, what="call_differs", aspect="exception", exc=type(r[1]).__name__),
                         "%s raised %s: %s" % (where, type(r[1]).__name__, _clean(r[1]))])
            return None, False
        c = _compare(r[1], want, f["coding"], f["channels"], tags,
                     header_count=f["count"] if f["truncated"] else None)
        if c is not None:
            viol.append([dict(tags, what="call_differs", aspect=c[0]),
                         "%s (%s): %s" % (where, "after every array returned so far was overwritten by the "
                                          "caller and the sequence repeated" if phase == "repeat" else
                                          "results held", c[1])])
        elif f["truncated"] and not w:
            viol.append([dict(tags, what="call_differs", aspect="no_warning"),
                         "%s: truncated file, no warning issued" % where])
        return r[1], c is None

    for phase in ("first", "repeat"):
        if phase == "repeat":
            if viol or not any([_scribble(h[0]) for h in held]):
                break               # a history that already failed is not repeated
            held = []
        for j in range(len(calls)):
            got, good = read(j, phase)
            obs.append("ok" if good else "differs")
            held.append((got, None if not isinstance(got, np.ndarray) else got.copy(), good))
            for i in range(j):
                a, cp, ok = held[i]
                if ok and cp is not None and not (a.shape == cp.shape and np.array_equal(a, cp)):
                    held[i] = (a, cp, False)        # reported once
                    viol.append([dict(_relation(calls, files, i, j), sub="histories", phase=phase,
                                      what="held_result_overwritten"),
                                 "the array returned by call %d of %r (held by the caller) changed while "
                                 "call %d ran: %d of %d values differ from what was returned" % (
                                     i + 1, [list(c) for c in calls], j + 1,
                                     int(np.sum(a.reshape(-1) != cp.reshape(-1))) if a.shape == cp.shape else -1,
                                     cp.size)])
            now = _lib_state()
            changed = sorted(k for k in state0 if now.get(k) != state0[k])
            if changed:
                viol.append([dict(sub="histories", what="module_state_changed", names=changed),
                             "after call %d of %r: module-level %r changed" % (
                                 j + 1, [list(c) for c in calls], changed)])
                state0 = now
        for i in range(len(held)):
            for j in range(i + 1, len(held)):
                a, b = held[i][0], held[j][0]
                if isinstance(a, np.ndarray) and isinstance(b, np.ndarray) and a.size and b.size \
                        and np.shares_memory(a, b):
                    viol.append([dict(_relation(calls, files, i, j), sub="histories", phase=phase,
                                      what="results_share_memory"),
                                 "the arrays returned by calls %d and %d of %r share memory" % (
                                     i + 1, j + 1, [list(c) for c in calls])])
    return dict(viol=viol, obs=obs)


def _hist_seqs(alphabet, depth, first):
    """every sequence of 1..depth calls over the alphabet that starts with call number `first`"""
    import itertools

    calls = [list(c) for c in _hist_calls(alphabet)]
    return [[calls[first]] + [calls[k] for k in rest]
            for n in range(depth) for rest in itertools.product(range(len(calls)), repeat=n)]


def _hist_setup(seed, tmpdir):
    """files of the alphabet on disk; -> child(seq) for mc.crash.explore_histories.  The parent imports
    the library and never calls it."""
    from pydrobert.speech import _sphere, config, util  # noqa: F401

    files = {f: _hist_file(f, seed) for f in HIST_FILES}
    for f in files:
        with open(os.path.join(tmpdir, f + ".sph"), "wb") as g:
            g.write(files[f]["data"])

    def child(seq):
        calls = [tuple(c) for c in seq]
        for f, dt, _ in calls:
            if dt not in files[f]["want"]:
                raise core.HarnessError("call outside the property: %r" % ((f, dt),))
        return _history_child(calls, files, tmpdir)

    return child


def _histories(pt, seed):
    """pt = (alphabet, depth, index of the first call): every history of 1..depth calls that starts
    with that call; one forked child per point (see mc.crash.explore_histories)"""
    from .. import crash

    alphabet, depth, first = pt
    seqs = _hist_seqs(alphabet, depth, first)
    with _Tmp() as tmp:
        viol, results, forks = crash.explore_histories(
            seqs, _hist_setup(seed, tmp), dict(alphabet=alphabet, depth=depth, first=first))
    obs = sorted(set(",".join(r["obs"]) for r in results))
    return core.result(viol, evals=len(seqs), nontrivial_count=sum(len(s) > 1 for s in seqs),
                       obs=[seqs[0][0][0]] + obs, impl_calls=forks,
                       sample=dict(alphabet=alphabet, depth=depth, first_call=seqs[0][0],
                                   inner="every continuation of 0..%d further calls" % (depth - 1)))


def _replay_history(case, seed, tmp):
    from .. import crash

    return crash.replay_history(case, lambda c: _hist_seqs(c["alphabet"], c["depth"], c["first"]),
                                _hist_setup(seed, tmp))


# ------------------------------------------------------------------ replay / registration


def _replay(case, seed):
    with _Tmp() as tmp:
        k = case.get("kind")
        c = {a: b for a, b in case.items() if a != "kind"}
        if k == "lattice":
            v, _ = _lattice_case(c, seed, tmp)
            return core.result([v] if v is not None else [])
        if k == "wide_frames":
            return core.result(_wide_case(c, seed, tmp)[0])
        if k == "header_sizes":
            v, _ = _hs_case(c, seed, tmp)
            return core.result([v] if v is not None else [])
        if k == "g711":
            return core.result(_g711_case(c, tmp))
        if k == "truncation":
            return core.result(_trunc_case(c, seed, tmp)[0])
        if k == "fault":
            return core.result(_fault_case(c, seed, tmp)[0])
        if k in ("history", "history_run"):
            return core.result(_replay_history(case, seed, tmp))
    raise core.HarnessError("cannot replay %r" % (case,))


def _boundary_lengths(fs, count, kmax):
    """data-section lengths (bytes) around each of the first kmax read boundaries: the boundary
    itself +-1, one frame before it, and +-1 around the ends of the last whole frame before it,
    of the frame that straddles it and of the frame after"""
    out = {1, count * fs - 1}
    for k in range(1, kmax + 1):
        b = k * READ
        m = b // fs
        out.update((b - fs, b - 1, b, b + 1, m * fs - 1, m * fs, m * fs + 1,
                    (m + 1) * fs - 1, (m + 1) * fs, (m + 1) * fs + 1, (m + 2) * fs))
    return sorted(x for x in out if 0 <= x < count * fs)


def subchecks(tier, seed):
    global THOROUGH
    thorough = THOROUGH = tier == "thorough"
    chans = list(range(1, 8)) + (list(range(8, 17)) if thorough else [])
    lat = [(c, ch, n) for c in sph.CODINGS for ch in chans for n in _counts(c, ch)]
    count_axis = "1, 2, k*q-1..k*q+1 and floor(k*16384/frame)-1..+1 for k=1..%d, q=16384//frame bytes%s" % (
        _kmax(), ", 9q+2" if thorough else "")
    sizes = _header_sizes()
    step = 90
    hs = [(lay, c, ch, sizes[i:i + step]) for lay in sph.LAYOUTS for c in sph.CODINGS for ch in _hs_channels()
          for i in range(0, len(sizes), step)]
    g = [(c, ch, o) for c in ("ulaw", "alaw") for ch in (1, 2, 4) for o in ("up", "down")]
    tr = []
    small_headers = ("h1024", "h1500", "h2048") + (("extra2048", "h2049") if thorough else ())
    for c in sph.CODINGS:
        for ch, count in ((1, 9), (2, 5), (3, 5)) + (((4, 4), (5, 3), (6, 3), (7, 3)) if thorough else ()):
            for v in small_headers:
                tr.append((c, ch, v, count, "all"))
        # four-read files cut around each of the three read boundaries (every channel count; the
        # frame that straddles a boundary is whole in the file but split between two reads)
        for ch in chans:
            fs = ch * sph.bytes_per_sample(c)
            count = 3 * (READ // fs) + 3
            tr.append((c, ch, "h1024", count, _boundary_lengths(fs, count, 3)))
    hist = [(alph, depth, i) for alph, depth in HIST_PLAN[tier] for i in range(len(_hist_calls(alph)))]
    wide = [(c, ch, n) for c in sph.CODINGS for ch in WIDE_CHANNELS for n in WIDE_COUNTS]
    return [
        # first in the list: its children must start from the state "just imported" also when
        # every sub-check runs in one process (VERIF_NPROC=1)
        core.SubCheck(
            "histories", hist, lambda p: _histories(p, seed),
            "call histories in ONE interpreter, every result HELD by the caller: alphabet of calls = file "
            "{%s} x requested dtype {None,float32,uint8} x {stream,path} (16-bit PCM with a 1-byte dtype is "
            "outside the property); %s; the histories of a point run one after the other in one forked child (state at its start: 'just imported'), the first violation of every signature is confirmed by running its history alone in a fresh child; "
            "after every call: the result equals the stored samples (truncated file: the whole samples "
            "present + a warning), every array returned earlier still equals what it was when returned, "
            "the module-level data of config / _sphere (numbers, sets, G.711 tables) is unchanged; after "
            "the last call no two returned arrays share memory; then the caller overwrites every "
            "returned array and the whole sequence is repeated with the same demands; non-trivial = more "
            "than one call" % (
                ", ".join("%s=%s %dch %d samples %s%s" % ((k,) + v[:4] + (" truncated" if v[5] else "",))
                          for k, v in HIST_FILES.items()),
                "; ".join("every sequence of 1..%d calls over the %s alphabet (%d calls)" % (
                    d, a, len(_hist_calls(a))) for a, d in HIST_PLAN[tier])),
            axes=dict(files={k: list(v) for k, v in HIST_FILES.items()}, dtypes=list(HIST_DTYPES),
                      alphabets={a: [list(x) for x in HIST_ALPHABETS[a]] for a, _ in HIST_PLAN[tier]},
                      depth={a: d for a, d in HIST_PLAN[tier]}),
            replay=lambda case: _replay(case, seed), kind="histories"),
        core.SubCheck(
            "lattice", lat, lambda p: _lattice(p, seed),
            "own-writer files decoded by read_signal(force_as='sph'); per point (coding, channels, "
            "sample count in {%s}) the inner loop is header {%s} x requested dtype "
            "{None,int16,uint8,int8,float32} x {stream,path} (PCM with a 1-byte dtype is outside the "
            "property: skipped); exact values, shape (n,) / (n,channels) and dtype; non-trivial = "
            "more than one 16384-byte read (the files span 1..%d reads)" % (
                count_axis, ",".join(sph.HEADER_VARIANTS), _kmax() + 1),
            axes=dict(coding=list(sph.CODINGS), channels=chans, count=count_axis,
                      header=list(sph.HEADER_VARIANTS), dtype=list(DTYPES), access=list(ACCESS)),
            replay=lambda case: _replay(case, seed)),
        core.SubCheck(
            "wide_frames", wide, lambda p: _wide(p, seed),
            "files in which ONE frame is as large as or larger than the reader's 16384-byte read: per point "
            "(coding, channels in %r, i.e. frames of 0.25 .. 4 reads on and next to READ/2, READ, 2*READ, "
            "3*READ, 4*READ bytes, sample count in %r) the inner loop is {complete file: header %r x requested dtype "
            "{None,int16,uint8,int8,float32} x {stream,path}; data section cut to 0, 1, 16383..16385, one "
            "frame -1/+0/+1, all but the last frame, the last frame halved, the whole file less one byte: "
            "dtype {None,uint8} x {stream,path}} (PCM with a 1-byte dtype is outside the property: skipped): "
            "exact values, shape (n, channels) and dtype; truncated => a warning and exactly the whole samples "
            "present; non-trivial = frame >= 16384 bytes" % (list(WIDE_CHANNELS), list(WIDE_COUNTS),
                                                             list(WIDE_HEADERS)),
            axes=dict(coding=list(sph.CODINGS), channels=list(WIDE_CHANNELS), count=list(WIDE_COUNTS),
                      header=list(WIDE_HEADERS), dtype=list(DTYPES), access=list(ACCESS),
                      data_bytes="complete / 0, 1, 16383..16385, frame-1..frame+1, (n-1) frames, (n-1)+1/2 "
                                 "frames, all-1"),
            replay=lambda case: _replay(case, seed)),
        core.SubCheck(
            "header_sizes", hs, lambda p: _hs(p, seed),
            "field layout {plain, extra optional fields, mandatory fields reversed, all mandatory "
            "fields beyond byte 1024} x every declared header size 1024..%d and %d sizes on, next to "
            "and between further multiples of 1024 up to 99999 (sizes smaller than the layout's fields "
            "are not headers: skipped) x coding x channels %r x {stream,path} on %d-sample files: "
            "exact samples and shape; non-trivial = header larger than the first 1024-byte block" % (
                _hs_dense(), len([x for x in sizes if x > _hs_dense()]), list(_hs_channels()), HS_COUNT),
            axes=dict(layout=list(sph.LAYOUTS),
                      size="1024..%d + %r" % (_hs_dense(), [x for x in sizes if x > _hs_dense()]),
                      coding=list(sph.CODINGS), channels=list(_hs_channels()), access=list(ACCESS)),
            replay=lambda case: _replay(case, seed)),
        core.SubCheck(
            "g711_tables", g, lambda p: _g711(p, seed),
            "all 256 codes of the mu-law and A-law tables (ascending and descending, 1/2/4 channels, "
            "5 requested dtypes, stream and path) against the ITU-T G.711 segment/interval definition; "
            "1-byte dtype => the raw codes",
            axes=dict(coding=["ulaw", "alaw"], channels=[1, 2, 4], order=["up", "down"],
                      dtype=list(DTYPES), access=list(ACCESS), code="0..255"),
            replay=lambda case: _replay(case, seed)),
        core.SubCheck(
            "truncation", tr, lambda p: _trunc(p, seed),
            "every byte length 0..full-1 of the data section of small files (mono 9 samples, 2ch and "
            "3ch 5 samples, thorough also 4..7ch; 4 codings; 1024/1500/2048-byte headers) and lengths "
            "around each of the three read boundaries (boundary +-1, ends of the frames before, across "
            "and after it +-1) of (3q+3)-sample files for every channel count: a warning is issued and "
            "exactly the whole samples present come back",
            axes=dict(coding=list(sph.CODINGS), channels_small=[1, 2, 3], channels_four_reads=chans,
                      header=list(small_headers), data_bytes="every length / around 16384, 32768, 49152",
                      access=list(ACCESS)),
            replay=lambda case: _replay(case, seed), kind="fault_enumeration"),
        core.SubCheck(
            "header_faults", _fault_points(), lambda p: _faults(p, seed),
            "every prefix of 0..1023 bytes of a valid 1024-, 1500- and 2048-byte-header file, 26 wrong "
            "magics, 7 header-size fields below 1024, 7 foreign containers => IOError; intact files "
            "with 1024/1025/1500/2048/4000-byte headers are positive controls",
            axes=dict(fault=["prefix 0..1023", "magic", "size<1024", "foreign"], access=list(ACCESS)),
            replay=lambda case: _replay(case, seed), kind="fault_enumeration"),
        core.SubCheck(
            "file_objects", [(k, c) for k in sph.STREAM_KINDS for c in sph.CODINGS],
            lambda p: _file_objects(p, seed),
            "read_signal(f, force_as='sph') through EVERY kind of binary file object %r (mc/refs/sphere.py: "
            "what the standard library hands out - regular, unbuffered, descriptor-based, temporary, spooled "
            "(rolled over or not), a pipe fed by a thread, buffered BytesIO, gzip, mmap - and minimal objects with "
            "no `name` / a `name` that is None, an int, bytes, a PathLike, '', '<stdin>', 'some/dir/') x coding; "
            "inner loop channels 1..3 x {5 samples, two 16384-byte reads} x {complete file: headers %r x dtype "
            "{None,float32,uint8} (oracle of lattice); data section cut to 0, one frame + 1, all but one frame, all "
            "but one byte (oracle of truncation: warning + the whole samples present)} and 6 header faults "
            "(=> IOError); every evaluation is non-trivial" % (list(sph.STREAM_KINDS), list(FO_HEADERS)),
            axes=dict(file_object=list(sph.STREAM_KINDS), coding=list(sph.CODINGS), channels=[1, 2, 3],
                      count=["5", "16384//frame + 2"], header=list(FO_HEADERS), dtype=list(FO_DTYPES),
                      faults=[dict(f) for f in FO_FAULTS]),
            replay=lambda case: _replay(case, seed)),
        core.SubCheck(
            "short_reads", [(k, c) for k in sph.SHORT_READ_KINDS for c in sph.CODINGS],
            lambda p: _short_reads(p, seed),
            "read_signal(f, force_as='sph') through raw streams whose read(n) returns FEWER than n bytes before "
            "the end of the stream (mc/refs/sphere.py short_read_stream, an io.RawIOBase; kinds %r: every read "
            "capped at 1024 / 4096 / 5000 / 16383 bytes, or the header delivered in full and every read of the data "
            "section capped at 1 / 7 / 1024 bytes / a cap that varies per call %r) x coding; inner loop channels "
            "1..3 x sample counts {5, q-1..q+1, 2q-1..2q+1, floor(32768/frame)+1, 3q+3} with q = 16384 // frame "
            "bytes (caps 1 and 7: q+1 and floor(32768/frame)+1) x {complete file: headers %r x dtype "
            "{None,float32,uint8} (oracle of lattice); the longest file with its data section cut to one frame + "
            "1, 16385, all but one frame, all but one byte (oracle of truncation)}; non-trivial = the data section "
            "is longer than the smallest cap" % (list(sph.SHORT_READ_KINDS), list(sph.SHORT_READ_VARYING),
                                                 list(FO_HEADERS)),
            axes=dict(file_object=list(sph.SHORT_READ_KINDS), coding=list(sph.CODINGS), channels=[1, 2, 3],
                      header=list(FO_HEADERS), dtype=list(SR_DTYPES), varying_caps=list(sph.SHORT_READ_VARYING),
                      not_enumerated="short reads inside the header (the reader does not retry them; no property "
                                     "covers it); OS-level sockets / pipes (their read sizes depend on timing)"),
            replay=lambda case: _replay(case, seed)),
    ]
