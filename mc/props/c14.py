"""C14 - PyTorch modules compute what their NumPy counterparts compute (engine L).

Differential lattice: every point builds the real NumPy object from a JSON-able
configuration, derives the PyTorch module from it with the library's own factory
(`from_stft_frame_computer`, `from_preemphasize`, ...), feeds both the same sample
values and compares shape and values.  The oracle is the NumPy counterpart itself
(whose agreement with its definition is C02/C03/C15/C16/C18's business).

Domain (property text): STFT signals with N >= frame_length (shape and values) and
N < frame_length//2+1 (both empty, same column count).  frame_length//2+1 <= N <
frame_length is outside the lattice: the property claims nothing there.

torch is imported lazily inside the point functions (the pool forks first) and every
worker runs torch.set_num_threads(1).
"""
import itertools

import numpy as np

from .. import cfg, computers, core, sig

LEVEL = "exploration"
ASSUMPTIONS = [
    "the NumPy counterparts (STFTFrameComputer.compute_full, SIFrameComputer.compute_full, "
    "Preemphasize.apply, PostProcessor.apply) are the oracle; their own correctness is "
    "C02/C03/C15/C16/C18",
    "torch (fft, jit, RNG) and numpy are trusted; sample values are one generic signal per length "
    "(mc/sig.py) plus an all-zero signal (log floor); float32 points feed both sides the same "
    "float32 values",
    "configurations in which a filter of the bank has no DFT bin at all (empty truncated response; "
    "tiny Fbank at DFT size 2, i.e. L=2 only) are outside the lattice: PyTorchSTFTFrameComputer documents that "
    "it refuses empty filters (ValueError), the NumPy coefficient there is constantly the floor",
    "dither moments are a deterministic fixed-seed computation with a 6-standard-error band "
    "(DESIGN section 4), not a distributional proof",
]

BANKS = ["fbank", "tri_an", "gabor", "gammatone"]
STYLES = (("causal", False), ("centered", False), ("centered", True))
FLAGS = list(itertools.product((True, False), (False, True), (False, True)))  # log, power, energy
PRECS = ("float64", "float32")
MAX_VIOL_PER_POINT = 60

_T = {}


def _torch():
    """lazy import, once per (forked) worker"""
    if "torch" not in _T:
        import warnings

        import torch

        torch.set_num_threads(1)
        warnings.filterwarnings("ignore", category=FutureWarning)
        warnings.filterwarnings("ignore", category=DeprecationWarning)
        try:
            warnings.filterwarnings("ignore", category=torch.jit.TracerWarning)
        except AttributeError:
            pass
        _T["torch"] = torch
    return _T["torch"]


def _npdt(prec):
    return np.float32 if prec == "float32" else np.float64


def _tdt(prec):
    torch = _torch()
    return torch.float32 if prec == "float32" else torch.float64


def _signal(seed, N, prec, variant="generic", offset=0):
    if variant == "zeros":
        return np.zeros(N, dtype=_npdt(prec))
    return sig.signal(seed, N, offset=offset).astype(_npdt(prec))


def _tensor(x, variant):
    """variant "strided": the same samples handed over as a NON-CONTIGUOUS view (every second element
    of a larger tensor, storage offset 1) - a perfectly good 1-D signal tensor"""
    torch = _torch()
    if variant != "strided":
        return torch.tensor(x)
    big = np.empty(2 * len(x) + 1, dtype=x.dtype)
    big[:] = 777.0
    big[1::2] = x
    return torch.tensor(big)[1::2]


def _tol(prec):
    return (1e-9, 1e-12) if prec == "float64" else (2e-4, 1e-5)


def _close(got, want, prec, use_log):
    """elementwise verdict; got/want float64 arrays of one shape.
    linear outputs: |d| <= atol + rtol*|want|.  log outputs: absolute tolerance in the log
    domain (|d| <= rtol*(1+|want|), as c02.py), or agreement of the pre-log values within
    (rtol, atol) - a coefficient that is small by cancellation has a large *relative* error
    at working precision without anything being wrong."""
    rt, at = _tol(prec)
    g = np.asarray(got, dtype=np.float64)
    w = np.asarray(want, dtype=np.float64)
    with np.errstate(all="ignore"):
        d = np.abs(g - w)
        if use_log:
            ok = d <= rt + rt * np.abs(w)
            ok |= np.abs(np.exp(g) - np.exp(w)) <= at + rt * np.exp(w)
        else:
            ok = d <= at + rt * np.abs(w)
    return ok


def _to_np(t):
    return t.detach().cpu().numpy()


def _call_nograd(fn, *a):
    torch = _torch()
    with torch.no_grad():
        return computers.call(fn, *a)


# ------------------------------------------------------------------ STFT lattice


def _stft_tags(bank, c):
    return dict(module="stft", bank=type(bank).__name__, real=bool(bank.is_real),
                include_energy=bool(c["energy"]))


def _stft_build(c, prec):
    torch = _torch()
    from pydrobert.speech.torch import PyTorchSTFTFrameComputer

    comp = cfg.make_computer(c)
    if prec == "float64":
        r = computers.call(PyTorchSTFTFrameComputer.from_stft_frame_computer, comp,
                           torch.cdouble, torch.double)
    else:
        r = computers.call(PyTorchSTFTFrameComputer.from_stft_frame_computer, comp)
    return comp, r


def _stft_functional(mod, xt, c):
    """the functional form with the module's parameters but dft_size left to its default
    (documented: first power of two at or beyond the frame length == pad_to_nearest_power_of_two)"""
    from pydrobert.speech.torch import pytorch_stft_frame_computer

    return pytorch_stft_frame_computer(
        xt, list(mod.filters), list(mod.offsets), mod.frame_length, mod.frame_shift,
        mod.centered, mod.window, None, mod.use_log, mod.use_power, mod.include_energy,
        mod.kaldi_shift, mod.is_real)


def _has_empty_filter(comp):
    """a filter of the bank has no DFT bin at this DFT size (degenerate configuration: the NumPy
    coefficient is constantly the floor); the torch constructor documents that it refuses it"""
    D = getattr(comp, "_dft_size", None)
    if D is None:
        return any(len(t) == 0 for t in getattr(comp, "_truncated_filts", []))
    return any(len(comp.bank.get_truncated_response(i, D)[1]) == 0
               for i in range(comp.bank.num_filts))


def _stft_compare(comp, built, c, N, prec, seed, variant, functional=False):
    """one (configuration, length) case -> (violations, kind of observation).
    functional=True: the functional form with dft_size=None is compared with the *module*
    (padded configurations only), so that a defect of the shared code is reported once."""
    torch = _torch()
    bank = comp.bank
    L = c["L"]
    tags = _stft_tags(bank, c)
    case = dict(config=c, N=N, precision=prec, signal=variant, functional=bool(functional))
    if L // 2 + 1 <= N < L:
        raise core.HarnessError("length %d is outside the property's domain for L=%d" % (N, L))
    if built[0] != "ok":
        if built[1] == "ValueError" and "is empty" in built[2] and _has_empty_filter(comp):
            return [], "skipped_empty_filter"
        return [core.violation(dict(tags, what="exception", stage="construct", exc=built[1],
                                    precision=prec),
                               "from_stft_frame_computer raised %s: %s" % (built[1], built[2]),
                               case)], "exc"
    mod = built[1]
    x = _signal(seed, N, prec, variant)
    xt = _tensor(x, variant)
    if variant == "strided":
        tags = dict(tags, noncontiguous_input=True)
    if functional:
        rn = _call_nograd(mod, xt)
        if rn[0] != "ok":
            return [], "module_exc"  # reported by the module comparison
        want = _to_np(rn[1])
        rt = _call_nograd(_stft_functional, mod, xt, c)
        names = ("functional form (dft_size=None)", "module")
    else:
        rn = computers.call(comp.compute_full, sig.ro(x))
        if rn[0] != "ok":
            return [], "numpy_exc"  # the NumPy side failing is C01/C02's business
        want = np.asarray(rn[1])
        rt = _call_nograd(mod, xt)
        names = ("module", "NumPy compute_full")
    if rt[0] != "ok":
        return [core.violation(
            dict(tags, what="exception", stage="functional" if functional else "forward",
                 exc=rt[1], precision=prec),
            "N=%d L=%d S=%d: torch %s raised %s: %s; %s returned shape %r" % (
                N, L, c["S"], names[0], rt[1], rt[2], names[1], tuple(want.shape)), case)], "exc"
    got = _to_np(rt[1])
    if tuple(got.shape) != tuple(want.shape):
        if functional:
            what = "functional_differs"
        elif got.ndim == 2 and got.shape[0] == 0 and want.shape[0] == 0:
            what = "empty_columns"
        else:
            what = "shape"
        return [core.violation(
            dict(tags, what=what),
            "N=%d L=%d S=%d: torch %s shape %r, %s shape %r" % (
                N, L, c["S"], names[0], tuple(got.shape), names[1], tuple(want.shape)), case)], "shape"
    if want.shape[0] == 0:
        return [], "empty"
    ok = _close(got, want, prec, c["log"])
    if not np.all(ok):
        bad = np.argwhere(~ok)
        first = tuple(int(i) for i in bad[0])
        cols = set(int(b[1]) for b in bad)
        only_energy = bool(c["energy"] and cols == {0})
        vt = dict(tags, what="functional_differs") if functional else \
            dict(tags, what="values", energy_column=only_energy, precision=prec)
        return [core.violation(
            vt,
            "N=%d L=%d S=%d D=%s style=%s kaldi=%s log=%s power=%s: %d of %d entries differ, "
            "max|diff|=%.3g, first at frame/coeff %s (torch %s %r, %s %r)" % (
                N, L, c["S"], getattr(comp, "_dft_size", "?"), c["style"], c["kaldi"], c["log"],
                c["power"], len(bad), ok.size,
                float(np.nanmax(np.abs(got.astype(np.float64) - want.astype(np.float64)))),
                list(first), names[0], float(got[first]), names[1], float(want[first])),
            case)], "values"
    return [], "frames"


def _stft_lengths(L, S):
    # N < L//2+1 (empty on both sides) and N >= L; L//2+1 <= N < L is outside the lattice
    extra = {n for n in (S - S // 2 - 1, S - S // 2, S, 2 * S) if n >= L} if S > L else set()
    return sorted(set(n for n in (0, 1, L // 2) if n < L // 2 + 1) | {L, L + 1, 2 * L + 1, 3 * L + S} | extra)


def _stft_eval(pt, seed):
    bankname, L, S, pad, (style, kaldi), window, prec = pt
    viol = []
    evals = nontriv = skipped = 0
    obs = set()
    for use_log, use_power, energy in FLAGS:
        c = dict(kind="stft", bank=bankname, L=L, S=S, style=style, kaldi=kaldi, window=window,
                 pad=pad, log=use_log, power=use_power, energy=energy)
        try:
            comp, built = _stft_build(c, prec)
        except AssertionError as e:
            raise core.HarnessError(str(e))
        except Exception as e:  # the NumPy computer cannot be built: nothing to compare
            return core.result(nontrivial=False, obs="unconstructible:" + type(e).__name__,
                               skipped=True)
        for N in _stft_lengths(L, S):
            for variant in ("generic", "zeros", "strided") if N == L else (
                    ("generic", "strided") if N == 3 * L + S else ("generic",)):
                v, kind = _stft_compare(comp, built, c, N, prec, seed, variant)
                viol.extend(v)
                obs.add((kind, use_log, use_power, energy))
                if kind.startswith("skipped") or kind == "numpy_exc":
                    skipped += 1
                    continue
                evals += 1
                if kind in ("frames", "values"):
                    nontriv += 1
        if pad and built[0] == "ok":
            evals += 1
            v, kind = _stft_compare(comp, built, c, 2 * L + 1, prec, seed, "generic", functional=True)
            viol.extend(v)
            obs.add(("functional:" + kind, use_log, use_power, energy))
        if len(viol) > MAX_VIOL_PER_POINT:
            break
    return core.result(viol, evals=evals, nontrivial_count=nontriv, skipped=skipped,
                       obs=[bankname, prec] + sorted(map(str, obs)),
                       sample=dict(bank=bankname, L=L, S=S, pad=pad, style=style, kaldi=kaldi,
                                   window=window, precision=prec, lengths=_stft_lengths(L, S),
                                   inner="8 flag combinations x lengths (+zero signal at N=L)"))


def _stft_replay(case, seed):
    c = case["config"]
    comp, built = _stft_build(c, case["precision"])
    v, _ = _stft_compare(comp, built, c, case["N"], case["precision"], seed, case["signal"],
                         functional=case.get("functional", False))
    return core.result(v)


# ------------------------------------------------------------------ TorchScript


def _ts_modes(tier):
    return ("script", "trace")


def _ts_compile(mod, mode, example, check_trace=True):
    torch = _torch()
    if mode == "script":
        return computers.call(torch.jit.script, mod)
    return computers.call(lambda: torch.jit.trace(mod, (example,), check_trace=check_trace))


def _ts_same(a, b, prec):
    if tuple(a.shape) != tuple(b.shape):
        return False, "shape %r vs eager %r" % (tuple(a.shape), tuple(b.shape))
    rt = 1e-10 if prec == "float64" else 1e-5
    a = a.astype(np.float64)
    b = b.astype(np.float64)
    with np.errstate(all="ignore"):
        ok = np.abs(a - b) <= rt * (1e-3 + np.abs(b))
    if not np.all(ok):
        return False, "max|diff|=%.3g" % float(np.nanmax(np.abs(a - b)))
    return True, ""


def _ts_eval(pt, seed):
    """pt: dict(module=..., ...).  eager module vs torch.jit.script / torch.jit.trace of it."""
    torch = _torch()
    module = pt["module"]
    prec = pt["precision"]
    viol = []
    evals = nontriv = 0
    obs = set()
    if module == "stft":
        c = pt["config"]
        comp, built = _stft_build(c, prec)
        if built[0] != "ok":
            return core.result(nontrivial=False, obs="construct_exc", skipped=True)  # stft lattice reports it
        eager = built[1]
        bank = comp.bank
        tags = dict(module="stft", bank=type(bank).__name__, real=bool(bank.is_real),
                    include_energy=bool(c["energy"]), precision=prec)
        inputs = [_signal(seed, N, prec) for N in _stft_lengths(c["L"], c["S"])]
        seeded = False
        check_trace = True
    elif module == "preemph":
        from pydrobert.speech.pre import Preemphasize
        from pydrobert.speech.torch import PyTorchPreemphasize

        eager = PyTorchPreemphasize.from_preemphasize(Preemphasize(pt["coeff"]))
        tags = dict(module="preemph", precision=prec)
        inputs = [_signal(seed, N, prec) for N in (0, 1, 2, 5, 9)]
        seeded = False
        check_trace = True
    elif module == "dither":
        from pydrobert.speech.pre import Dither
        from pydrobert.speech.torch import PyTorchDither

        eager = PyTorchDither.from_dither(Dither(pt["coeff"]))
        tags = dict(module="dither", precision=prec)
        inputs = [_signal(seed, N, prec) for N in (0, 1, 5, 64)]
        seeded = True
        check_trace = False
    else:
        raise core.HarnessError("unknown module %r" % module)
    # tracing example: one sample, and (parameter-free modules) possibly of ANOTHER dtype than the
    # signals the traced module is then applied to - nothing of the example may be baked into the graph
    example = torch.empty(1, dtype=_tdt(pt.get("example_precision", prec)))
    if "example_precision" in pt:
        tags["example_dtype_differs"] = pt["example_precision"] != prec
    for mode in pt["modes"]:
        rc = _ts_compile(eager, mode, example, check_trace)
        case = dict(pt, mode=mode)
        if rc[0] != "ok":
            viol.append(core.violation(
                dict(tags, what="exception", stage=mode + "_compile", exc=rc[1]),
                "torch.jit.%s of the module raised %s: %s" % (mode, rc[1], rc[2]), case))
            continue
        compiled = rc[1]
        for x in inputs:
            xt = torch.tensor(x)
            if seeded:
                torch.manual_seed(1234 + len(x))
            re_ = _call_nograd(eager, xt)
            if re_[0] != "ok":
                obs.add("eager_exc")
                continue  # eager failing is the lattice's business
            want = _to_np(re_[1])
            # twice: the second call of a scripted module runs the specialised graph
            for rep in (0, 1):
                evals += 1
                if seeded:
                    torch.manual_seed(1234 + len(x))
                rj = _call_nograd(compiled, xt)
                if rj[0] != "ok":
                    viol.append(core.violation(
                        dict(tags, what="exception", stage=mode + "_call", exc=rj[1]),
                        "N=%d: %s module raised %s: %s; eager returned shape %r" % (
                            len(x), mode, rj[1], rj[2], tuple(want.shape)), dict(case, N=len(x))))
                    break
                got = _to_np(rj[1])
                same, why = _ts_same(got, want, prec)
                if not same:
                    viol.append(core.violation(
                        dict(tags, what=mode + "_differs"),
                        "N=%d call %d: %s module differs from eager: %s" % (len(x), rep, mode, why),
                        dict(case, N=len(x))))
                    break
                if want.size:
                    nontriv += 1
                obs.add((mode, want.shape[0] > 0))
    return core.result(viol, evals=evals, nontrivial_count=nontriv,
                       obs=[module, prec] + sorted(map(str, obs)), sample=pt)


def _ts_replay(case, seed):
    pt = {k: v for k, v in case.items() if k not in ("mode", "N")}
    if "mode" in case:
        pt["modes"] = [case["mode"]]
    return _ts_eval(pt, seed)


def _ts_points(tier):
    pts = []
    combos = list(itertools.product(BANKS, STYLES))
    Ls = [5, 8, 7, 12, 3, 6, 9, 4, 11, 2, 10, 7]
    if tier == "quick":
        for i, (b, (style, kaldi)) in enumerate(combos):
            L = Ls[i]
            use_log, use_power, energy = FLAGS[(3 * i + 1) % 8]
            c = dict(kind="stft", bank=b, L=L, S=min(L, 1 + i % 3), style=style, kaldi=kaldi,
                     window="hamming", pad=bool(i % 2), log=use_log, power=use_power, energy=energy)
            pts.append(dict(module="stft", config=c, precision=PRECS[(i // 2) % 2],
                            modes=list(_ts_modes(tier))))
    else:
        i = 0
        for (b, (style, kaldi)), pad, prec, L in itertools.product(
                combos, (True, False), PRECS, (4, 7)):
            use_log, use_power, energy = FLAGS[i % 8]
            i += 1
            c = dict(kind="stft", bank=b, L=L, S=min(L, 1 + i % 3), style=style, kaldi=kaldi,
                     window="hamming" if i % 4 else None, pad=pad, log=use_log, power=use_power,
                     energy=energy)
            pts.append(dict(module="stft", config=c, precision=prec, modes=list(_ts_modes(tier))))
    for coeff in (0.97, 0.0, -1.5):
        for prec in PRECS:
            pts.append(dict(module="preemph", coeff=coeff, precision=prec, modes=["script", "trace"]))
            pts.append(dict(module="preemph", coeff=coeff, precision=prec, modes=["trace"],
                            example_precision=[q for q in PRECS if q != prec][0]))
    for coeff in (1.0, 0.25):
        for prec in PRECS:
            pts.append(dict(module="dither", coeff=coeff, precision=prec, modes=["script", "trace"]))
            pts.append(dict(module="dither", coeff=coeff, precision=prec, modes=["trace"],
                            example_precision=[q for q in PRECS if q != prec][0]))
    return pts


# ------------------------------------------------------------------ Preemphasize


def _pre_eval(pt, seed):
    coeff, prec, Ns = pt["coeff"], pt["precision"], pt["lengths"]
    torch = _torch()
    from pydrobert.speech.pre import Preemphasize
    from pydrobert.speech.torch import PyTorchPreemphasize, pytorch_preemphasize

    viol = []
    evals = nontriv = 0
    obs = set()
    ref_obj = Preemphasize(coeff)
    forms = {
        "from_preemphasize": lambda: PyTorchPreemphasize.from_preemphasize(Preemphasize(coeff)),
        "constructor": lambda: PyTorchPreemphasize(coeff),
        "functional": lambda: (lambda t: pytorch_preemphasize(t, coeff)),
    }
    rt, at = (1e-12, 1e-13) if prec == "float64" else (2e-6, 1e-6)
    tags = dict(module="preemph", precision=prec)
    for form in pt.get("forms", sorted(forms)):
        rb = computers.call(forms[form])
        if rb[0] != "ok":
            viol.append(core.violation(dict(tags, what="exception", stage="construct", exc=rb[1]),
                                       "%s(%r) raised %s: %s" % (form, coeff, rb[1], rb[2]),
                                       dict(pt, forms=[form])))
            continue
        fn = rb[1]
        for N in Ns:
            for variant in ("generic", "zeros") if N == 3 else ("generic",):
                evals += 1
                x = _signal(seed, N, prec, variant, offset=1)
                case = dict(pt, forms=[form], lengths=[N])
                rn = computers.call(ref_obj.apply, sig.ro(x))
                if rn[0] != "ok":
                    obs.add("numpy_exc")
                    continue
                want = np.asarray(rn[1])
                rg = _call_nograd(fn, torch.tensor(x))
                if rg[0] != "ok":
                    viol.append(core.violation(
                        dict(tags, what="exception", stage="forward", exc=rg[1]),
                        "%s coeff=%r N=%d raised %s: %s; Preemphasize.apply returned shape %r" % (
                            form, coeff, N, rg[1], rg[2], want.shape), case))
                    continue
                got = _to_np(rg[1])
                if tuple(got.shape) != tuple(want.shape):
                    viol.append(core.violation(
                        dict(tags, what="wrapper", aspect="shape"),
                        "%s coeff=%r N=%d: shape %r, Preemphasize.apply %r" % (
                            form, coeff, N, tuple(got.shape), tuple(want.shape)), case))
                    continue
                g, w = got.astype(np.float64), want.astype(np.float64)
                scale = np.abs(x.astype(np.float64))
                prev = np.concatenate([[0.0], scale[:-1]]) if N else scale
                ok = np.abs(g - w) <= at + rt * (scale + abs(coeff) * prev)
                if not np.all(ok):
                    i = int(np.argwhere(~ok)[0][0])
                    viol.append(core.violation(
                        dict(tags, what="wrapper", aspect="values", first_sample=bool(i == 0)),
                        "%s coeff=%r N=%d: sample %d is %r, Preemphasize.apply gives %r" % (
                            form, coeff, N, i, float(g[i]), float(w[i])), case))
                    continue
                if N > 1:
                    nontriv += 1
                obs.add((form, min(N, 2)))
    return core.result(viol, evals=evals, nontrivial_count=nontriv,
                       obs=[prec, float(np.sign(coeff))] + sorted(map(str, obs)), sample=pt)


# ------------------------------------------------------------------ post-processor wrapper


def _post_make(pc, F, seed):
    from pydrobert.speech import post

    d = dict(pc)
    name = d.pop("name")
    if name == "deltas":
        return post.Deltas(**d)
    if name == "stack":
        return post.Stack(**d)
    if name == "standardize":
        stats = d.pop("stats")
        s = post.Standardize(norm_var=d["norm_var"])
        if stats == "accumulated":
            s.accumulate(sig.signal(seed, 6 * F, offset=3).reshape(6, F))
        return s
    raise core.HarnessError("unknown post-processor %r" % name)


POST_SHAPES = [(1, 1), (1, 3), (2, 1), (2, 3), (3, 2), (5, 3), (7, 2), (0, 3), (2, 3, 2), (4, 1, 3)]


def _post_configs():
    out = []
    for nd, cc, cw, pm in itertools.product((0, 1, 2), (True, False), (1, 2), ("edge", "constant")):
        out.append(dict(name="deltas", num_deltas=nd, concatenate=cc, context_window=cw, pad_mode=pm))
    out.append(dict(name="deltas", num_deltas=1, target_axis=0, concatenate=True, context_window=2,
                    pad_mode="reflect"))
    out.append(dict(name="deltas", num_deltas=2, target_axis=0, concatenate=False, context_window=1,
                    pad_mode="wrap"))
    for nv, pm in itertools.product((1, 2, 3), (None, "edge", "constant")):
        out.append(dict(name="stack", num_vectors=nv, pad_mode=pm))
    out.append(dict(name="stack", num_vectors=2, time_axis=1, pad_mode="edge"))
    for nvar, stats in itertools.product((True, False), ("local", "accumulated")):
        out.append(dict(name="standardize", norm_var=nvar, stats=stats))
    return out


def _post_eval(pt, seed):
    torch = _torch()
    from pydrobert.speech.torch import PyTorchPostProcessorWrapper

    pc, prec = pt["post"], pt["precision"]
    viol = []
    evals = nontriv = 0
    obs = set()
    tags = dict(module="post", post=pc["name"], precision=prec)
    rt, at = (1e-12, 1e-13) if prec == "float64" else (2e-6, 1e-6)
    import warnings

    warnings.filterwarnings("ignore", category=UserWarning, module="pydrobert")
    for shape in pt.get("shapes", POST_SHAPES):
        shape = tuple(shape)
        evals += 1
        case = dict(pt, shapes=[list(shape)])
        F = shape[-1]
        try:
            ref_obj = _post_make(pc, F, seed)
            wrapped = _post_make(pc, F, seed)
        except core.HarnessError:
            raise
        except Exception as e:
            obs.add("unconstructible:" + type(e).__name__)
            continue
        n = int(np.prod(shape))
        x = sig.signal(seed, n, offset=5).astype(_npdt(prec)).reshape(shape)
        with np.errstate(all="ignore"):
            rn = computers.call(ref_obj.apply, sig.ro(x))
        if rn[0] != "ok":
            obs.add("numpy_exc:" + rn[1])  # apply itself refuses this input: nothing is claimed
            continue
        want = np.asarray(rn[1])
        rb = computers.call(PyTorchPostProcessorWrapper.from_postprocessor, wrapped)
        if rb[0] != "ok":
            viol.append(core.violation(dict(tags, what="exception", stage="construct", exc=rb[1]),
                                       "from_postprocessor raised %s: %s" % (rb[1], rb[2]), case))
            continue
        xt = torch.tensor(x)
        xt_before = xt.clone()
        with np.errstate(all="ignore"):
            rg = _call_nograd(rb[1], xt)
        # PostProcessor.apply leaves its input untouched (in_place defaults to False); so must the
        # wrapper: the caller's tensor is compared byte for byte, and a second call on the same
        # tensor must give the same result as the first
        if _to_np(xt).tobytes() != _to_np(xt_before).tobytes():
            viol.append(core.violation(
                dict(tags, what="wrapper", aspect="input_modified"),
                "%r on shape %r: the wrapper overwrote the caller's input tensor" % (pc, shape), case))
            continue
        if rg[0] == "ok":
            with np.errstate(all="ignore"):
                rg2 = _call_nograd(rb[1], xt)
            if rg2[0] != "ok" or _to_np(rg2[1]).tobytes() != _to_np(rg[1]).tobytes():
                viol.append(core.violation(
                    dict(tags, what="wrapper", aspect="second_call_differs"),
                    "%r on shape %r: calling the wrapper twice on the same tensor gives different results"
                    % (pc, shape), case))
                continue
        if rg[0] != "ok":
            viol.append(core.violation(
                dict(tags, what="exception", stage="forward", exc=rg[1]),
                "%r on shape %r raised %s: %s; apply returned shape %r" % (
                    pc, shape, rg[1], rg[2], want.shape), case))
            continue
        got = _to_np(rg[1])
        if tuple(got.shape) != tuple(want.shape):
            viol.append(core.violation(
                dict(tags, what="wrapper", aspect="shape"),
                "%r on shape %r: wrapper shape %r, apply shape %r" % (
                    pc, shape, tuple(got.shape), tuple(want.shape)), case))
            continue
        g, w = got.astype(np.float64), want.astype(np.float64)
        with np.errstate(all="ignore"):
            big = float(np.max(np.abs(w[np.isfinite(w)]))) if np.any(np.isfinite(w)) else 0.0
            ok = (np.abs(g - w) <= at + rt * (np.abs(w) + big)) | (np.isnan(g) & np.isnan(w)) | \
                 (np.isinf(w) & (g == w))
        if not np.all(ok):
            i = tuple(int(k) for k in np.argwhere(~ok)[0])
            viol.append(core.violation(
                dict(tags, what="wrapper", aspect="values"),
                "%r on shape %r: entry %s is %r, apply gives %r" % (pc, shape, list(i), float(g[i]),
                                                                   float(w[i])), case))
            continue
        if want.size:
            nontriv += 1
        obs.add((tuple(want.shape) != shape, bool(want.size)))
    return core.result(viol, evals=evals, nontrivial_count=nontriv,
                       obs=[pc["name"], prec] + sorted(map(str, obs)), sample=pt)


# ------------------------------------------------------------------ short-integration wrapper


def _si_lengths(c):
    from ..refs import si as siref

    bank = cfg.make_bank(c["bank"])
    M, _tr, _L, D = siref.geometry(bank, c["S"], c["style"], c["pad"])
    return sorted(set([0, 1, c["S"], max(M - 1, 0), M, M + c["S"], D + 1, 2 * D + 3]))


def _si_one(c, N, prec, seed, variant):
    torch = _torch()
    from pydrobert.speech.torch import PyTorchSIFrameComputer

    comp_ref = cfg.make_computer(c)
    comp_wrapped = cfg.make_computer(c)
    bank = comp_ref.bank
    tags = dict(module="si", bank=type(bank).__name__, precision=prec)
    case = dict(config=c, N=N, precision=prec, signal=variant)
    x = _signal(seed, N, prec, variant, offset=2)
    rn = computers.call(comp_ref.compute_full, sig.ro(x))
    rb = computers.call(PyTorchSIFrameComputer.from_si_frame_computer, comp_wrapped)
    if rb[0] != "ok":
        return [core.violation(dict(tags, what="exception", stage="construct", exc=rb[1]),
                               "from_si_frame_computer raised %s: %s" % (rb[1], rb[2]), case)], "exc"
    rg = _call_nograd(rb[1], torch.tensor(x))
    if rn[0] != "ok":
        # SIFrameComputer.compute_full itself fails (C03's business); report it only as an
        # observation, the wrapper cannot be compared
        return [], "numpy_exc:" + rn[1]
    want = np.asarray(rn[1])
    if rg[0] != "ok":
        return [core.violation(
            dict(tags, what="exception", stage="forward", exc=rg[1]),
            "N=%d S=%d %s: wrapper raised %s: %s; compute_full returned shape %r" % (
                N, c["S"], prec, rg[1], rg[2], want.shape), case)], "exc"
    got = _to_np(rg[1])
    if tuple(got.shape) != tuple(want.shape):
        what = "empty_columns" if (got.ndim == 2 and got.shape[0] == 0 and want.shape[0] == 0) \
            else "shape"
        return [core.violation(
            dict(tags, what="wrapper", aspect=what),
            "N=%d S=%d: wrapper shape %r, compute_full shape %r" % (
                N, c["S"], tuple(got.shape), tuple(want.shape)), case)], "shape"
    if want.shape[0] == 0:
        return [], "empty"
    ok = _close(got, want, prec, c["log"])
    if not np.all(ok):
        first = tuple(int(i) for i in np.argwhere(~ok)[0])
        return [core.violation(
            dict(tags, what="wrapper", aspect="values"),
            "N=%d S=%d log=%s power=%s: frame/coeff %s is %r, compute_full gives %r" % (
                N, c["S"], c["log"], c["power"], list(first), float(got[first]),
                float(want[first])), case)], "values"
    # the wrapped computer must be reusable (compute_full leaves no utterance state behind)
    rg2 = _call_nograd(rb[1], torch.tensor(x))
    if rg2[0] != "ok" or not np.array_equal(_to_np(rg2[1]), got, equal_nan=True):
        return [core.violation(
            dict(tags, what="wrapper", aspect="second_call"),
            "N=%d S=%d: a second call of the same module gives %s" % (
                N, c["S"], rg2[1] if rg2[0] != "ok" else "different values"), case)], "second"
    return [], "frames"


def _si_eval(pt, seed):
    bankname, S, style, pad, prec = pt
    probe = cfg.make_computer(dict(kind="si", bank=bankname, S=S, style=style, pad=pad,
                                   window="hamming"))
    if not cfg.si_domain_ok(probe):
        return core.result(nontrivial=False, obs="out_of_domain", skipped=True)
    viol = []
    evals = nontriv = 0
    obs = set()
    for use_log, use_power, energy in FLAGS:
        c = dict(kind="si", bank=bankname, S=S, style=style, pad=pad, window="hamming",
                 log=use_log, power=use_power, energy=energy)
        for N in _si_lengths(c):
            evals += 1
            v, kind = _si_one(c, N, prec, seed, "generic")
            viol.extend(v)
            obs.add((kind, use_log, use_power, energy))
            if kind == "frames":
                nontriv += 1
        if len(viol) > MAX_VIOL_PER_POINT:
            break
    return core.result(viol, evals=evals, nontrivial_count=nontriv,
                       obs=[bankname, style, prec] + sorted(map(str, obs)),
                       sample=dict(bank=bankname, S=S, style=style, pad=pad, precision=prec))


def _si_replay(case, seed):
    v, _ = _si_one(case["config"], case["N"], case["precision"], seed, case["signal"])
    return core.result(v)


# ------------------------------------------------------------------ dither


def _dither_eval(pt, seed):
    torch = _torch()
    from pydrobert.speech.pre import Dither
    from pydrobert.speech.torch import PyTorchDither, pytorch_dither

    kind, prec = pt["kind"], pt["precision"]
    tags = dict(module="dither", what="wrapper", aspect=kind, precision=prec)
    viol = []
    mseed = 1000 + int(seed)

    def run(coeff, xt, s=mseed, functional=False, mode=None):
        torch.manual_seed(s)
        if functional:
            return _call_nograd(lambda t: pytorch_dither(t, coeff), xt)
        rb = computers.call(lambda: PyTorchDither.from_dither(Dither(coeff)))
        if rb[0] != "ok":
            return rb
        mod = rb[1]
        if mode == "eval":
            mod = mod.eval()           # the standard call before inference: dither is not dropout
        elif mode == "train_false":
            mod = mod.train(False)
        elif mode == "eval_script":
            mod = torch.jit.script(mod.eval())
        elif mode == "deepcopy":
            import copy
            mod = copy.deepcopy(mod)
        elif mode == "state_dict":
            other = PyTorchDither.from_dither(Dither(coeff))
            other.load_state_dict(mod.state_dict())
            mod = other
        torch.manual_seed(s)
        return _call_nograd(mod, xt)

    def fail(detail, exc=None):
        t = dict(tags)
        if exc:
            t.update(what="exception", exc=exc)
        viol.append(core.violation(t, detail, pt))
        return core.result(viol, obs=kind + ":violation", sample=pt)

    shape = tuple(pt.get("shape", (7,)))
    n = int(np.prod(shape))
    if pt.get("zero_signal"):
        x = np.zeros(shape, dtype=_npdt(prec))
    else:
        x = sig.signal(seed, n, offset=4).astype(_npdt(prec)).reshape(shape)
    xt = torch.tensor(x)
    obs = kind
    nontrivial = n > 0

    if kind == "reproducible":
        coeff = pt["coeff"]
        a, b, f = run(coeff, xt), run(coeff, xt), run(coeff, xt, functional=True)
        for r in (a, b, f):
            if r[0] != "ok":
                return fail("coeff=%r shape=%r raised %s: %s" % (coeff, shape, r[1], r[2]), r[1])
        a, b, f = _to_np(a[1]), _to_np(b[1]), _to_np(f[1])
        if a.shape != shape or a.dtype != x.dtype:
            return fail("coeff=%r: output shape/dtype %r/%s for input %r/%s" % (
                coeff, a.shape, a.dtype, shape, x.dtype))
        if not np.array_equal(a, b):
            return fail("coeff=%r shape=%r: two calls after torch.manual_seed(%d) differ" % (
                coeff, shape, mseed))
        if not np.array_equal(a, f):
            return fail("coeff=%r shape=%r: module and pytorch_dither differ under the same seed" % (
                coeff, shape))
        other = run(coeff, xt, s=mseed + 1)
        changed = other[0] == "ok" and not np.array_equal(_to_np(other[1]), a)
        obs = (kind, bool(changed), bool(np.any(a != x)))
        nontrivial = bool(n and coeff > 0 and np.any(a != x))
    elif kind == "module_mode":
        coeff = pt["coeff"]
        a, b = run(coeff, xt), run(coeff, xt, mode=pt["mode"])
        for r in (a, b):
            if r[0] != "ok":
                return fail("coeff=%r mode=%s raised %s: %s" % (coeff, pt["mode"], r[1], r[2]), r[1])
        a, b = _to_np(a[1]), _to_np(b[1])
        if not np.array_equal(a, b):
            return fail("coeff=%r: the module after %s adds other noise than a fresh module under the same "
                        "seed (noise std %.3g vs %.3g)" % (coeff, pt["mode"], float(np.std(b - x)),
                                                           float(np.std(a - x))))
        nontrivial = bool(np.any(a != x))
    elif kind == "linear":
        sigma, c = pt["sigma"], pt["factor"]  # factor is a power of two: scaling is exact
        a, b = run(sigma, xt), run(c * sigma, xt)
        for r in (a, b):
            if r[0] != "ok":
                return fail("sigma=%r factor=%r raised %s: %s" % (sigma, c, r[1], r[2]), r[1])
        a, b = _to_np(a[1]), _to_np(b[1])
        if not np.array_equal(b, a * x.dtype.type(c)):
            i = tuple(int(k) for k in np.argwhere(b != a * x.dtype.type(c))[0])
            return fail("zero signal, same seed: noise(%r*%r)[%s]=%r but %r*noise(%r)=%r" % (
                c, sigma, list(i), float(b[i]), c, sigma, float(a[i] * c)))
        obs = (kind, bool(np.any(a != 0)))
        nontrivial = bool(np.any(a != 0))
    elif kind == "identity":
        r = run(0.0, xt)
        if r[0] != "ok":
            return fail("coeff=0 raised %s: %s" % (r[1], r[2]), r[1])
        a = _to_np(r[1])
        if not np.array_equal(a, x):
            return fail("coeff=0 shape=%r: output differs from the input" % (shape,))
    elif kind == "signal_independent":
        coeff = pt["coeff"]
        a, z = run(coeff, xt), run(coeff, torch.zeros_like(xt))
        for r in (a, z):
            if r[0] != "ok":
                return fail("coeff=%r raised %s: %s" % (coeff, r[1], r[2]), r[1])
        a, z = _to_np(a[1]).astype(np.float64), _to_np(z[1]).astype(np.float64)
        eps = 1e-14 if prec == "float64" else 1e-6
        ok = np.abs((a - x) - z) <= eps * (np.abs(x) + np.abs(z) + 1)
        if not np.all(ok):
            return fail("coeff=%r: noise added to a signal differs from the noise added to zeros "
                        "under the same seed (max %.3g)" % (coeff, float(np.max(np.abs(a - x - z)))))
        nontrivial = bool(np.any(z != 0))
    elif kind == "moments":
        sigma = pt["sigma"]
        r = run(sigma, xt)
        if r[0] != "ok":
            return fail("sigma=%r raised %s: %s" % (sigma, r[1], r[2]), r[1])
        noise = _to_np(r[1]).astype(np.float64) - x.astype(np.float64)
        mean, std = float(noise.mean()), float(noise.std(ddof=1))
        se_mean, se_std = sigma / np.sqrt(n), sigma / np.sqrt(2.0 * n)
        rounding = (0.0 if prec == "float64" else 1e-6) * (float(np.max(np.abs(x))) + sigma)
        if abs(mean) > 6 * se_mean + rounding:
            return fail("sigma=%r n=%d seed=%d: noise mean %.3g, 6 standard errors = %.3g" % (
                sigma, n, mseed, mean, 6 * se_mean))
        if abs(std - sigma) > 6 * se_std + rounding:
            t = dict(tags, aspect="moments_std")
            viol.append(core.violation(t, "sigma=%r n=%d seed=%d: noise std %.6g, requested %r, "
                                          "6 standard errors = %.3g" % (sigma, n, mseed, std, sigma,
                                                                        6 * se_std), pt))
            return core.result(viol, obs=kind + ":violation", sample=pt)
        obs = (kind, bool(std > 0))
        nontrivial = bool(std > 0)
    else:
        raise core.HarnessError("unknown dither point %r" % kind)
    return core.result(viol, nontrivial=nontrivial, obs=str(obs), sample=pt)


def _dither_points(tier):
    pts = []
    shapes = [[0], [1], [7], [3, 4]]
    for prec in PRECS:
        for coeff in (0.0, 0.3, 1.0, 2.5):
            for shape in shapes:
                pts.append(dict(kind="reproducible", coeff=coeff, shape=shape, precision=prec))
        for sigma in (1.0, 0.3, 2.5):
            for factor in (0.5, 2.0, 4.0):
                pts.append(dict(kind="linear", sigma=sigma, factor=factor, shape=[257],
                                zero_signal=True, precision=prec))
        for shape in shapes + [[1000]]:
            pts.append(dict(kind="identity", shape=shape, precision=prec))
        for mode in ("eval", "train_false", "eval_script", "deepcopy", "state_dict"):
            for coeff in (1.0, 0.3):
                pts.append(dict(kind="module_mode", mode=mode, coeff=coeff, shape=[257], precision=prec))
        for coeff in (0.3, 1.0, 2.5):
            pts.append(dict(kind="signal_independent", coeff=coeff, shape=[129], precision=prec))
        for sigma in (1.0, 0.3, 2.5) + ((0.01, 40.0) if tier == "thorough" else ()):
            for zero in (True, False):
                pts.append(dict(kind="moments", sigma=sigma, shape=[200000], zero_signal=zero,
                                precision=prec))
    return pts


# ------------------------------------------------------------------ environment


def _env_run(kind, fn, arg, seed):
    """run a point (or a replay) of another sub-check with torch's GLOBAL default dtype set to float64
    (a common user setting): modules built from NumPy objects must not pick their precision up from it"""
    torch = _torch()
    old = torch.get_default_dtype()
    torch.set_default_dtype(torch.float64)
    try:
        r = fn(arg, seed)
    finally:
        torch.set_default_dtype(old)
    for v in r.get("viol", []):
        v["tags"]["torch_default_dtype"] = "float64"
        v["case"] = dict(env_kind=kind, inner=v.get("case") or arg)
    return r


_ENV_FN = {}


def _env_eval(pt, seed):
    kind, arg = pt
    return _env_run(kind, _ENV_FN[kind][0], arg, seed)


def _env_replay(case, seed):
    kind = case["env_kind"]
    return _env_run(kind, _ENV_FN[kind][1], case["inner"], seed)


# ------------------------------------------------------------------ lattice definition


def subchecks(tier, seed):
    # import torch (single-threaded) and the library's torch module ONCE in the parent: every chunk
    # runs in a freshly forked child, which would otherwise pay the import again each time
    _torch()
    import pydrobert.speech.torch  # noqa: F401
    quick = tier == "quick"
    banks = list(BANKS) if quick else BANKS + ["tri", "gabor3", "gammatone_mc"]
    Ls = list(range(2, 13)) if quick else list(range(2, 18)) + [25, 32, 33]
    stft = []
    for b in banks:
        for L in Ls:
            for S in sorted(set(s for s in (1, 2, 3, L) if s <= L)):
                for pad in (True, False):
                    for st in STYLES:
                        for w in ("hamming", None):
                            for prec in PRECS:
                                stft.append((b, L, S, pad, st, w, prec))
            # frame shifts larger than the frame length (incl. lengths that yield no frame at all),
            # and kaldi_shift given together with the causal style
            if L in (2, 3, 4, 5, 8):
                for S in (L + 1, 2 * L + 1, 3 * L):
                    for st in STYLES + (("causal", True),):
                        for prec in PRECS:
                            stft.append((b, L, S, False, st, "hamming", prec))
            if L in (3, 4, 6, 7):
                for prec in PRECS:
                    stft.append((b, L, 2, True, ("causal", True), "hamming", prec))
    pre = []
    for coeff in (0.0, 0.97, 1.0, -0.5, 3.0):
        for prec in PRECS:
            pre.append(dict(coeff=coeff, precision=prec,
                            lengths=list(range(0, 6 if quick else 12))))
    post = [dict(post=pc, precision=prec) for pc in _post_configs() for prec in PRECS]
    si = []
    for b in (["gabor", "gammatone"] if quick else ["gabor", "gammatone", "gammatone_mc", "gabor3", "tri"]):
        for S in ((1, 2, 4) if quick else range(1, 7)):
            for style in ("causal", "centered"):
                for pad in ((True,) if quick else (True, False)):
                    for prec in PRECS:
                        si.append((b, S, style, pad, prec))
    _ENV_FN.update(stft=(_stft_eval, _stft_replay), preemph=(_pre_eval, _pre_eval), si=(_si_eval, _si_replay),
                   dither=(_dither_eval, _dither_eval), torchscript=(_ts_eval, _ts_replay),
                   post=(_post_eval, _post_eval))
    env = [("stft", q) for q in stft if q[1] in (5, 8) and q[2] in (2, q[1]) and q[5] == "hamming"] + \
          [("preemph", q) for q in pre] + [("si", q) for q in si if q[1] == 2] + \
          [("dither", q) for q in _dither_points(tier) if q["kind"] in ("reproducible", "identity")] + \
          [("torchscript", q) for q in _ts_points(tier) if q["module"] != "stft"] + \
          [("post", q) for q in post[:20]]
    return [
        core.SubCheck(
            "default_dtype", env, lambda p: _env_eval(p, seed),
            "the stft (L in {5,8}), preemph, si (S=2), dither, torchscript and post points once more with "
            "torch.set_default_dtype(torch.float64) in force while the modules are built and called (restored "
            "afterwards): same oracles",
            replay=lambda case: _env_replay(case, seed), chunk=4),
        core.SubCheck(
            "stft", stft, lambda p: _stft_eval(p, seed),
            "PyTorchSTFTFrameComputer.from_stft_frame_computer(c)(x) vs c.compute_full(x) at every "
            "lattice point; inner loop use_log x use_power x include_energy x N in {0,1,L//2} "
            "(both empty, same columns) U {L,L+1,2L+1,3L+S} (+zero signal at N=L; + the functional "
            "form with dft_size=None vs the module when padded); L//2+1 <= N < L and banks with an "
            "empty truncated filter are outside the property's domain (skipped); "
            "non-trivial = at least one frame compared in value",
            axes=dict(bank=banks, L=Ls, S="{1,2,3,L}", pad=[True, False],
                      style=["causal", "centered", "centered+kaldi"], window=["hamming", "default"],
                      precision=["float64 (filter_type=cdouble, window_type=double)",
                                 "float32 (defaults)"]),
            replay=lambda case: _stft_replay(case, seed)),
        core.SubCheck(
            "torchscript", _ts_points(tier), lambda p: _ts_eval(p, seed),
            "torch.jit.script / torch.jit.trace(example of length 1) of STFT, Preemphasize and Dither "
            "modules vs the eager module on the lattice lengths, each called twice (dither under one "
            "manual_seed); non-trivial = non-empty output compared",
            replay=lambda case: _ts_replay(case, seed), chunk=1),
        core.SubCheck(
            "preemph", pre, lambda p: _pre_eval(p, seed),
            "PyTorchPreemphasize (from_preemphasize, constructor, functional) vs Preemphasize.apply "
            "for every N in the length list x coefficient x precision; non-trivial = N >= 2",
            replay=lambda case: _pre_eval(case, seed), chunk=1),
        core.SubCheck(
            "post", post, lambda p: _post_eval(p, seed),
            "PyTorchPostProcessorWrapper vs PostProcessor.apply (separately built instance) for "
            "Deltas / Stack / Standardize configurations x shapes x precision; inputs that apply "
            "itself rejects are skipped; non-trivial = non-empty result",
            axes=dict(shapes=[list(s) for s in POST_SHAPES]),
            replay=lambda case: _post_eval(case, seed), chunk=2),
        core.SubCheck(
            "si", si, lambda p: _si_eval(p, seed),
            "PyTorchSIFrameComputer vs SIFrameComputer.compute_full (separately built instance), "
            "flags x N in {0,1,S,M-1,M,M+S,D+1,2D+3} x float32/float64, inside the C01/C03 shift "
            "domain; non-trivial = at least one frame compared",
            replay=lambda case: _si_replay(case, seed), chunk=1),
        core.SubCheck(
            "dither", _dither_points(tier), lambda p: _dither_eval(p, seed),
            "PyTorchDither: same manual_seed => identical (module == functional); "
            "noise(c*sigma) == c*noise(sigma) exactly for c a power of two on a zero signal; "
            "coeff 0 => identity; noise independent of the signal; the module after .eval() / .train(False) / scripted in eval mode / deep-copied / restored from its state_dict adds the same noise as a fresh module; mean/std of 2e5 samples within "
            "6 standard errors (fixed seed)",
            replay=lambda case: _dither_eval(case, seed), chunk=1),
    ]
