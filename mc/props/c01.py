"""C01 - chunked streaming equals whole-signal computation, for every chunking.

Engine E (DESIGN 3/C01): for each computer configuration the real object is
explored breadth-first over the alphabet {compute_chunk(x[n:n+k]) for EVERY k
in 0..Nmax-n, finalize}; states are (samples consumed, frames emitted,
canonical computer state).  Because histories that reach the same state are
merged, a closed search covers all 2^(Nmax-1) compositions (with interleaved
empty chunks) of every prefix length n <= Nmax with O(Nmax^2) real calls.
"""
import numpy as np

from .. import cfg, computers, core, explorer, sig

LEVEL = "model_checking"
ASSUMPTIONS = [
    "sample values are one generic signal per configuration (a function of VERIF_SEED and "
    "the absolute sample index); lengths, chunkings and configurations are enumerated",
    "states are merged by a canonical form whose dead-region masks are validated by NaN "
    "poisoning and by the unmerged all-compositions cross-check",
    "compute_full of a fresh instance is the reference (its own definition is C02/C03)",
]

WINDOWS = ["hamming", None]


def _tol(dtype):
    return (1e-9, 1e-12) if np.dtype(dtype) == np.float64 else (2e-4, 1e-5)


def _close(a, b, dtype):
    rt, at = _tol(dtype)
    a = np.asarray(a, dtype=np.float64)
    b = np.asarray(b, dtype=np.float64)
    return a.shape == b.shape and bool(np.all(np.abs(a - b) <= at + rt * np.abs(b)))


def _maxdiff(a, b):
    a = np.asarray(a, dtype=np.float64)
    b = np.asarray(b, dtype=np.float64)
    if a.shape != b.shape or a.size == 0:
        return None
    with np.errstate(invalid="ignore"):
        d = np.abs(a - b)
    return float(np.nanmax(d)) if not np.all(np.isnan(d)) else float("nan")


def nmax_for(c, comp):
    if c["kind"] == "stft":
        return c.get("Nmax") or 3 * comp.frame_length + 2 * comp.frame_shift + 3
    return c.get("Nmax") or 2 * comp._dft_size + comp.frame_shift + 3


def struct_tags(c, comp, n):
    """structural facts about (configuration, n): what known findings match on"""
    L, S = comp.frame_length, comp.frame_shift
    t = dict(kind=c["kind"], style=comp.frame_style)
    if c["kind"] == "stft":
        t["kaldi"] = bool(c.get("kaldi"))
        t["short"] = bool(n < L // 2 + 1)          # compute_full returns no frame
        # does compute_full's right padding reach beyond a retained remainder?
        nf = (n + S // 2) // S if n >= L // 2 + 1 else 0
        if comp.frame_style == "causal":
            pl = 0
        elif c.get("kaldi"):
            pl = L // 2 - S // 2
        else:
            pl = (L + 1) // 2 - 1
        pad_right = max(0, (nf - 1) * S - pl + L - n) if nf else 0
        t["pad_right_gt_0"] = bool(pad_right > 0)
    return t


class Ctx:
    """one configuration: real computer, signal, references"""

    def __init__(self, c, seed):
        self.c = c
        self.dtype = np.dtype(c.get("dtype", "float64"))
        self.comp0 = cfg.make_computer(c)
        computers.poison(self.comp0)  # np.empty buffers of a fresh instance are arbitrary
        self.in_domain = c["kind"] == "stft" and self.comp0.frame_shift <= self.comp0.frame_length \
            or c["kind"] == "si" and cfg.si_domain_ok(self.comp0)
        self.nmax = nmax_for(c, self.comp0)
        self.x = sig.signal(seed, self.nmax, self.dtype)
        self.x.setflags(write=False)
        self.ncoef = self.comp0.num_coeffs
        self.ref = []
        self.ref_exc = {}
        for n in range(self.nmax + 1):
            r = computers.call(computers.clone(self.comp0).compute_full, self.x[:n])
            if r[0] == "ok":
                self.ref.append(np.asarray(r[1]))
            else:
                self.ref.append(None)
                self.ref_exc[n] = r[1:]
        self.table = {}

    def tags(self, n, **kw):
        t = struct_tags(self.c, self.comp0, n)
        t.update(kw)
        return t

    def case(self, **kw):
        d = dict(config=self.c)
        d.update(kw)
        return d


class St:
    __slots__ = ("comp", "n", "f")

    def __init__(self, comp, n, f):
        self.comp, self.n, self.f = comp, n, f


def _check_rows(ctx, out, n2, f, op):
    """rows emitted by a transition that ends with n2 samples consumed"""
    viol = []
    ref = ctx.ref[n2]
    if not (isinstance(out, np.ndarray) and out.ndim == 2 and out.shape[1] == ctx.ncoef):
        return [core.violation(ctx.tags(n2, what="shape", op=op),
                               "%s returned %r, expected (*, %d)" % (
                                   op, getattr(out, "shape", type(out)), ctx.ncoef))], 0
    m = out.shape[0]
    if ref is None:
        return viol, m
    if op == "chunk" and f + m > ref.shape[0]:
        viol.append(core.violation(
            ctx.tags(n2, what="frame_count", op=op),
            "after %d samples the stream has emitted %d frames but compute_full(x[:%d]) has only %d"
            % (n2, f + m, n2, ref.shape[0])))
        return viol, m
    want = ref[f:f + m]
    if op == "chunk" and not _close(out, want, ctx.dtype):
        viol.append(core.violation(
            ctx.tags(n2, what="values", op=op),
            "frames %d..%d emitted by compute_chunk differ from compute_full(x[:%d]): max|diff|=%r"
            % (f, f + m - 1, n2, _maxdiff(out, want))))
    for i in range(m):
        first = ctx.table.get(f + i)
        if first is None:
            ctx.table[f + i] = np.array(out[i], copy=True)
        elif op == "chunk" and not _close(out[i], first, ctx.dtype):
            viol.append(core.violation(
                ctx.tags(n2, what="path_dependent_row", op=op),
                "frame %d differs between two chunkings: max|diff|=%r" % (
                    f + i, _maxdiff(out[i], first))))
    return viol, m


def _step(ctx, s, op):
    comp = computers.clone(s.comp)
    if op[0] == "chunk":
        k = op[1]
        r = computers.call(comp.compute_chunk, ctx.x[s.n:s.n + k])
        if r[0] != "ok":
            return None, [core.violation(
                ctx.tags(s.n + k, what="exception", op="chunk"),
                "compute_chunk(len %d) after %d samples raised %s: %s" % (k, s.n, r[1], r[2]))], \
                ("exc", r[1])
        viol, m = _check_rows(ctx, r[1], s.n + k, s.f, "chunk")
        computers.poison(comp)
        return St(comp, s.n + k, s.f + m), viol, ("chunk", m)
    # finalize
    r = computers.call(comp.finalize)
    if r[0] != "ok":
        return None, [core.violation(
            ctx.tags(s.n, what="exception", op="finalize"),
            "finalize after %d samples raised %s: %s" % (s.n, r[1], r[2]))], ("exc", r[1])
    out = r[1]
    ref = ctx.ref[s.n]
    if ref is None:
        return None, [core.violation(
            ctx.tags(s.n, what="reference_raises", op="full"),
            "compute_full(x[:%d]) raised %s: %s" % ((s.n,) + tuple(ctx.ref_exc[s.n])))], "refexc"
    viol = []
    if not (isinstance(out, np.ndarray) and out.ndim == 2 and out.shape[1] == ctx.ncoef):
        viol.append(core.violation(ctx.tags(s.n, what="shape", op="finalize"),
                                   "finalize returned %r" % (getattr(out, "shape", type(out)),)))
        return None, viol, "shape"
    m = out.shape[0]
    if s.f + m != ref.shape[0]:
        viol.append(core.violation(
            ctx.tags(s.n, what="frame_count", op="finalize"),
            "N=%d: chunks emitted %d frames + finalize %d = %d, compute_full gives %d" % (
                s.n, s.f, m, s.f + m, ref.shape[0])))
    else:
        if not _close(out, ref[s.f:], ctx.dtype):
            viol.append(core.violation(
                ctx.tags(s.n, what="values", op="finalize"),
                "N=%d: the %d frame(s) returned by finalize differ from compute_full: max|diff|=%r"
                % (s.n, m, _maxdiff(out, ref[s.f:]))))
        head = [ctx.table[i] for i in range(s.f) if i in ctx.table]
        if len(head) == s.f and s.f and not _close(np.array(head), ref[:s.f], ctx.dtype):
            viol.append(core.violation(
                ctx.tags(s.n, what="values", op="chunk"),
                "N=%d: earlier emitted frames differ from compute_full(x[:%d])" % (s.n, s.n)))
    return None, viol, ("fin", m)


def explore_config(c, seed, max_states=50000):
    ctx = Ctx(c, seed)
    if not ctx.in_domain:
        return core.result(nontrivial=False, skipped=True, obs="out_of_domain")
    dig0 = computers.static_digest(ctx.comp0)

    def init():
        comp = computers.clone(ctx.comp0)
        computers.poison(comp)
        return St(comp, 0, 0)

    def ops(s):
        for k in range(0, ctx.nmax - s.n + 1):
            yield ["chunk", k]
        yield ["finalize"]

    def key(s):
        return (s.n, s.f, computers.canon(s.comp))

    last = {}

    def step(s, op):
        s2, viol, obs = _step(ctx, s, op)
        if s2 is not None:
            last["comp"] = s2.comp
        return s2, viol, obs

    st = explorer.bfs(init, ops, step, key, max_states=max_states)
    viol = st.violations
    if "comp" in last and computers.static_digest(last["comp"]) != dig0:
        viol.append(core.violation(ctx.tags(0, what="config_mutated", op="chunk"),
                                   "filters/window of the computer changed during streaming"))
    for v in viol:
        v["case"] = dict(v.get("case") or {}, config=c)
    nframes = max((r.shape[0] for r in ctx.ref if r is not None), default=0)
    return core.result(
        viol, nontrivial=(nframes >= 2 and st.transitions > 10),
        obs=(len(st.observations), st.states), states=st.states, transitions=st.transitions,
        impl_calls=st.transitions + ctx.nmax + 1,
        capped=st.capped if (st.capped and not viol) else None,
        sample=dict(config=c, Nmax=ctx.nmax, states=st.states, transitions=st.transitions,
                    closed=st.closed, max_frames=nframes,
                    distinct_observations=len(st.observations)))


def replay_ops(case, seed):
    """re-execute one operation list on a fresh real computer (no explorer)"""
    c = case["config"]
    ctx = Ctx(c, seed)
    s = St(computers.clone(ctx.comp0), 0, 0)
    computers.poison(s.comp)
    viol = []
    for op in case["ops"]:
        s2, v, _ = _step(ctx, s, op)
        viol.extend(v)
        if s2 is None:
            break
        s = s2
    for v in viol:
        v["case"] = case
    return core.result(viol)


# ------------------------------------------------- frame_by_frame_calculation


def fbf_config(c, seed):
    from pydrobert.speech.compute import frame_by_frame_calculation

    ctx = Ctx(c, seed)
    if not ctx.in_domain:
        return core.result(nontrivial=False, skipped=True, obs="out_of_domain")
    viol = []
    evals = 0
    nmax = min(ctx.nmax, c.get("fbf_nmax", ctx.nmax))
    for n in range(nmax + 1):
        for cs in range(1, n + 2):
            evals += 1
            comp = computers.clone(ctx.comp0)
            r = computers.call(frame_by_frame_calculation, comp, ctx.x[:n], cs)
            ref = ctx.ref[n]
            if ref is None:
                continue
            if r[0] != "ok":
                viol.append(core.violation(
                    ctx.tags(n, what="exception", op="fbf"),
                    "frame_by_frame_calculation(N=%d, chunk_size=%d) raised %s: %s" % (
                        n, cs, r[1], r[2]), ctx.case(N=n, chunk_size=cs)))
            elif r[1].shape != ref.shape:
                viol.append(core.violation(
                    ctx.tags(n, what="frame_count", op="fbf"),
                    "frame_by_frame_calculation(N=%d, chunk_size=%d) shape %r, compute_full %r" % (
                        n, cs, r[1].shape, ref.shape), ctx.case(N=n, chunk_size=cs)))
            elif not _close(r[1], ref, ctx.dtype):
                viol.append(core.violation(
                    ctx.tags(n, what="values", op="fbf"),
                    "frame_by_frame_calculation(N=%d, chunk_size=%d) differs: max|diff|=%r" % (
                        n, cs, _maxdiff(r[1], ref)), ctx.case(N=n, chunk_size=cs)))
            if len(viol) > 50:
                break
    return core.result(viol, evals=evals, nontrivial_count=evals,
                       obs=len(viol), sample=dict(config=c, Nmax=nmax, calls=evals))


def fbf_replay(case, seed):
    from pydrobert.speech.compute import frame_by_frame_calculation

    c = case["config"]
    ctx = Ctx(dict(c, Nmax=max(case["N"], 1)), seed)
    n, cs = case["N"], case["chunk_size"]
    r = computers.call(frame_by_frame_calculation, computers.clone(ctx.comp0), ctx.x[:n], cs)
    ref = ctx.ref[n]
    viol = []
    if r[0] != "ok":
        viol.append(core.violation(ctx.tags(n, what="exception", op="fbf"), "%s: %s" % r[1:], case))
    elif r[1].shape != ref.shape:
        viol.append(core.violation(ctx.tags(n, what="frame_count", op="fbf"),
                                   "shape %r vs %r" % (r[1].shape, ref.shape), case))
    elif not _close(r[1], ref, ctx.dtype):
        viol.append(core.violation(ctx.tags(n, what="values", op="fbf"),
                                   "max|diff|=%r" % _maxdiff(r[1], ref), case))
    return core.result(viol)


# ------------------------------------------------- unmerged cross-check


def compositions_config(c, seed):
    """every composition of every n <= Ncomp into positive chunk lengths, explored as a
    tree of snapshots WITHOUT state merging; an empty chunk is interleaved at the start,
    the middle and the end of each path."""
    ncomp = c["Ncomp"]
    ctx = Ctx(dict(c, Nmax=ncomp), seed)
    if not ctx.in_domain:
        return core.result(nontrivial=False, skipped=True, obs="out_of_domain")
    viol = []
    stats = dict(leaves=0, calls=0)

    def finish(comp, n, rows, path):
        comp = computers.clone(comp)
        r = computers.call(comp.finalize)
        stats["calls"] += 1
        stats["leaves"] += 1
        ref = ctx.ref[n]
        if ref is None:
            return
        if r[0] != "ok":
            viol.append(core.violation(ctx.tags(n, what="exception", op="finalize"),
                                       "%s: %s" % r[1:], ctx.case(chunks=path)))
            return
        got = np.concatenate(rows + [r[1]]) if rows or True else r[1]
        if got.shape != ref.shape:
            viol.append(core.violation(
                ctx.tags(n, what="frame_count", op="finalize"),
                "chunks %r: %d frames, compute_full %d" % (path, got.shape[0], ref.shape[0]),
                ctx.case(chunks=path)))
        elif not _close(got, ref, ctx.dtype):
            viol.append(core.violation(
                ctx.tags(n, what="values", op="finalize"),
                "chunks %r: max|diff|=%r" % (path, _maxdiff(got, ref)), ctx.case(chunks=path)))

    def rec(comp, n, rows, path):
        if len(viol) > 30:
            return
        finish(comp, n, rows, path)
        for k in range(1, ncomp - n + 1):
            c2 = computers.clone(comp)
            r = computers.call(c2.compute_chunk, ctx.x[n:n + k])
            stats["calls"] += 1
            if r[0] != "ok":
                viol.append(core.violation(ctx.tags(n + k, what="exception", op="chunk"),
                                           "%s: %s" % r[1:], ctx.case(chunks=path + [k])))
                continue
            rec(c2, n + k, rows + [r[1]], path + [k])

    empty = np.zeros((0, ctx.ncoef), dtype=ctx.dtype)
    comp = computers.clone(ctx.comp0)
    rec(comp, 0, [empty], [])
    # the same with an empty first chunk (starts the utterance with no data)
    comp = computers.clone(ctx.comp0)
    r = computers.call(comp.compute_chunk, ctx.x[0:0])
    if r[0] == "ok":
        rec(comp, 0, [r[1]], [0])
    else:
        viol.append(core.violation(ctx.tags(0, what="exception", op="chunk"),
                                   "%s: %s" % r[1:], ctx.case(chunks=[0])))
    return core.result(viol, evals=stats["leaves"], nontrivial_count=stats["leaves"],
                       impl_calls=stats["calls"], obs=len(viol),
                       sample=dict(config=c, compositions=stats["leaves"], calls=stats["calls"]))


def compositions_replay(case, seed):
    c = case["config"]
    chunks = case["chunks"]
    n = sum(chunks)
    ctx = Ctx(dict(c, Nmax=max(n, 1)), seed)
    comp = computers.clone(ctx.comp0)
    rows = [np.zeros((0, ctx.ncoef), dtype=ctx.dtype)]
    pos = 0
    viol = []
    for k in chunks:
        r = computers.call(comp.compute_chunk, ctx.x[pos:pos + k])
        pos += k
        if r[0] != "ok":
            return core.result([core.violation(ctx.tags(pos, what="exception", op="chunk"),
                                               "%s: %s" % r[1:], case)])
        rows.append(r[1])
    r = computers.call(comp.finalize)
    ref = ctx.ref[n]
    if r[0] != "ok":
        viol.append(core.violation(ctx.tags(n, what="exception", op="finalize"), "%s: %s" % r[1:], case))
    else:
        got = np.concatenate(rows + [r[1]])
        if got.shape != ref.shape:
            viol.append(core.violation(ctx.tags(n, what="frame_count", op="finalize"),
                                       "%r vs %r" % (got.shape, ref.shape), case))
        elif not _close(got, ref, ctx.dtype):
            viol.append(core.violation(ctx.tags(n, what="values", op="finalize"),
                                       "max|diff|=%r" % _maxdiff(got, ref), case))
    return core.result(viol)


# ------------------------------------------------- held outputs (no snapshots)


def _compositions(n):
    if n == 0:
        yield []
        return
    for first in range(1, n + 1):
        for rest in _compositions(n - first):
            yield [first] + rest


def held_config(c, seed):
    """The property read literally, with real aliasing semantics: for every composition of every
    n <= Nh the chunks are fed to ONE live computer (no deep copies), every returned array is HELD
    until finalize has returned, and only then concatenated and compared with compute_full.  An
    output that aliases an internal buffer which a later call overwrites is caught here."""
    nh = c["Nh"]
    ctx = Ctx(dict(c, Nmax=nh), seed)
    if not ctx.in_domain:
        return core.result(nontrivial=False, skipped=True, obs="out_of_domain")
    viol = []
    evals = 0
    for n in range(nh + 1):
        ref = ctx.ref[n]
        if ref is None:
            continue
        for comp_ in _compositions(n):
            for lead in ([], [0]):
                chunks = lead + comp_
                evals += 1
                comp = computers.clone(ctx.comp0)
                held = []
                pos = 0
                bad = None
                for k in chunks:
                    r = computers.call(comp.compute_chunk, ctx.x[pos:pos + k])
                    pos += k
                    if r[0] != "ok":
                        bad = r
                        break
                    held.append(r[1])
                if bad is None:
                    r = computers.call(comp.finalize)
                    if r[0] != "ok":
                        bad = r
                if bad is not None:
                    viol.append(core.violation(ctx.tags(n, what="exception", op="held"),
                                               "%s: %s" % bad[1:], ctx.case(chunks=chunks, held=True)))
                    continue
                got = np.concatenate(held + [r[1]]) if held else r[1]
                if got.shape != ref.shape:
                    viol.append(core.violation(
                        ctx.tags(n, what="frame_count", op="held"),
                        "chunks %r: %r vs compute_full %r" % (chunks, got.shape, ref.shape),
                        ctx.case(chunks=chunks, held=True)))
                elif not _close(got, ref, ctx.dtype):
                    viol.append(core.violation(
                        ctx.tags(n, what="values", op="held"),
                        "chunks %r (outputs held until after finalize): max|diff|=%r" % (
                            chunks, _maxdiff(got, ref)), ctx.case(chunks=chunks, held=True)))
                if len(viol) > 20:
                    return core.result(viol, evals=evals, nontrivial_count=evals, obs=len(viol))
    return core.result(viol, evals=evals, nontrivial_count=evals, obs=len(viol),
                       sample=dict(config=c, Nh=nh, sequences=evals))


def held_replay(case, seed):
    c = case["config"]
    chunks = case["chunks"]
    n = sum(chunks)
    ctx = Ctx(dict(c, Nmax=max(n, 1)), seed)
    comp = computers.clone(ctx.comp0)
    held, pos = [], 0
    for k in chunks:
        r = computers.call(comp.compute_chunk, ctx.x[pos:pos + k])
        pos += k
        if r[0] != "ok":
            return core.result([core.violation(ctx.tags(n, what="exception", op="held"), str(r), case)])
        held.append(r[1])
    r = computers.call(comp.finalize)
    if r[0] != "ok":
        return core.result([core.violation(ctx.tags(n, what="exception", op="held"), str(r), case)])
    got = np.concatenate(held + [r[1]]) if held else r[1]
    ref = ctx.ref[n]
    if got.shape != ref.shape:
        return core.result([core.violation(ctx.tags(n, what="frame_count", op="held"),
                                           "%r vs %r" % (got.shape, ref.shape), case)])
    if not _close(got, ref, ctx.dtype):
        return core.result([core.violation(ctx.tags(n, what="values", op="held"),
                                           "max|diff|=%r" % _maxdiff(got, ref), case)])
    return core.result([])


# ------------------------------------------------- two live instances, all interleavings


def _interleavings(na, nb):
    """all sequences over {'A','B'} with na A's and nb B's"""
    if na == 0:
        yield "B" * nb
        return
    if nb == 0:
        yield "A" * na
        return
    for rest in _interleavings(na - 1, nb):
        yield "A" + rest
    for rest in _interleavings(na, nb - 1):
        yield "B" + rest


def interleaved_config(pt, seed):
    """Two LIVE computers (no snapshots) with configurations ca and cb stream two different signals;
    the compute_chunk / finalize calls of the two streams are interleaved in EVERY possible order
    (a schedule enumeration), for every pair of chunkings from a small set.  Each stream must equal
    compute_full of its own signal: one instance's output may not depend on what another instance is
    doing (shared buffers at module/class scope, caches keyed too coarsely)."""
    ca, cb = pt
    ctxa = Ctx(dict(ca, Nmax=ca["Ni"]), seed)
    ctxb = Ctx(dict(cb, Nmax=cb["Ni"]), seed + 1)
    if not (ctxa.in_domain and ctxb.in_domain):
        return core.result(nontrivial=False, skipped=True, obs="out_of_domain")
    na, nb = ca["Ni"], cb["Ni"]

    def chunkings(n, L, S):
        out = [[n], [1] * n]
        out.append([S] * (n // S) + ([n % S] if n % S else []))
        if n > L + 1:
            out.append([L + 1, n - L - 1])
        out.append([0, n // 2, 0, n - n // 2])
        uniq = []
        for c in out:
            if c not in uniq and len(c) <= 6:
                uniq.append(c)
        return uniq

    viol = []
    evals = 0
    for cha in chunkings(na, ctxa.comp0.frame_length, ctxa.comp0.frame_shift):
        for chb in chunkings(nb, ctxb.comp0.frame_length, ctxb.comp0.frame_shift):
            opsa = [("chunk", k) for k in cha] + [("fin",)]
            opsb = [("chunk", k) for k in chb] + [("fin",)]
            for sched in _interleavings(len(opsa), len(opsb)):
                evals += 1
                A = cfg.make_computer(ca)   # fresh live pair per schedule, built like a user would
                B = cfg.make_computer(cb)
                st = {"A": [A, ctxa, iter(opsa), 0, []], "B": [B, ctxb, iter(opsb), 0, []]}
                bad = None
                for who in sched:
                    comp, ctx, it, pos, outs = st[who]
                    op = next(it)
                    if op[0] == "chunk":
                        r = computers.call(comp.compute_chunk, ctx.x[pos:pos + op[1]])
                        st[who][3] = pos + op[1]
                    else:
                        r = computers.call(comp.finalize)
                    if r[0] != "ok":
                        bad = (who, r)
                        break
                    outs.append(r[1])
                case = dict(pair=[ca, cb], chunks_a=cha, chunks_b=chb, schedule=sched)
                tags0 = dict(kind=ca["kind"], what="interleaved", same_L=bool(
                    ctxa.comp0.frame_length == ctxb.comp0.frame_length), same_config=bool(ca == cb))
                if bad is not None:
                    viol.append(core.violation(dict(tags0, aspect="exception", exc=bad[1][1]),
                                               "schedule %s: stream %s raised %s: %s" % (
                                                   sched, bad[0], bad[1][1], bad[1][2]), case))
                    continue
                for who, ctx, n in (("A", ctxa, na), ("B", ctxb, nb)):
                    got = np.concatenate(st[who][4])
                    ref = ctx.ref[n]
                    if ref is None:
                        continue
                    if got.shape != ref.shape or not _close(got, ref, ctx.dtype):
                        viol.append(core.violation(
                            dict(tags0, aspect="values" if got.shape == ref.shape else "frame_count"),
                            "two live computers, schedule %s, chunks A=%r B=%r: stream %s differs from "
                            "compute_full of its own signal (max|diff|=%r)" % (
                                sched, cha, chb, who, _maxdiff(got, ref)), case))
                        break
                if len(viol) > 10:
                    return core.result(viol, evals=evals, nontrivial_count=evals, obs=len(viol))
    return core.result(viol, evals=evals, nontrivial_count=evals, obs=len(viol),
                       sample=dict(A=ca, B=cb, schedules=evals))


def interleaved_replay(case, seed):
    ca, cb = case["pair"]
    ctxa = Ctx(dict(ca, Nmax=ca["Ni"]), seed)
    ctxb = Ctx(dict(cb, Nmax=cb["Ni"]), seed + 1)
    A, B = cfg.make_computer(ca), cfg.make_computer(cb)
    opsa = [("chunk", k) for k in case["chunks_a"]] + [("fin",)]
    opsb = [("chunk", k) for k in case["chunks_b"]] + [("fin",)]
    st = {"A": [A, ctxa, iter(opsa), 0, []], "B": [B, ctxb, iter(opsb), 0, []]}
    tags0 = dict(kind=ca["kind"], what="interleaved", same_L=bool(
        ctxa.comp0.frame_length == ctxb.comp0.frame_length), same_config=bool(ca == cb))
    for who in case["schedule"]:
        comp, ctx, it, pos, outs = st[who]
        op = next(it)
        if op[0] == "chunk":
            r = computers.call(comp.compute_chunk, ctx.x[pos:pos + op[1]])
            st[who][3] = pos + op[1]
        else:
            r = computers.call(comp.finalize)
        if r[0] != "ok":
            return core.result([core.violation(dict(tags0, aspect="exception", exc=r[1]), str(r), case)])
        outs.append(r[1])
    for who, ctx, n in (("A", ctxa, ca["Ni"]), ("B", ctxb, cb["Ni"])):
        got = np.concatenate(st[who][4])
        ref = ctx.ref[n]
        if got.shape != ref.shape or not _close(got, ref, ctx.dtype):
            return core.result([core.violation(
                dict(tags0, aspect="values" if got.shape == ref.shape else "frame_count"),
                "stream %s differs" % who, case)])
    return core.result([])


# ------------------------------------------------- chunk representations and object transport

FORMS = ("bigendian", "strided", "negstride", "reused_buffer", "deepcopy_each", "pickle_each", "pickle_at",
         "deepcopy_at", "refused_at", "fpstrict", "spelled_int", "spelled_npbool")


def _chunk_form(form, x, buf):
    """the array object handed to compute_chunk for samples x (values always those of x)"""
    k = len(x)
    if form == "bigendian":
        return x.astype(x.dtype.newbyteorder(">"))
    if form == "strided":
        base = np.full(2 * k + 1, 777.0, dtype=x.dtype)
        base[1::2] = x
        return base[1::2]
    if form == "negstride":
        return np.array(x[::-1], copy=True)[::-1]
    if form == "reused_buffer":
        buf[:k] = x           # the caller's one pre-allocated buffer, refilled for every chunk
        return buf[:k]
    return x


def _transport_run(ctx, chunks, form, at):
    import copy
    import pickle

    if form.startswith("spelled_"):
        # the same configuration with its flags given as 0/1 or numpy bools
        comp = cfg.make_computer(dict(ctx.c, spelling=form[8:]))
        computers.poison(comp)
    else:
        comp = computers.clone(ctx.comp0)
    buf = np.zeros(max(chunks + [1]), dtype=ctx.dtype)
    held, pos = [], 0
    if form == "fpstrict":
        # every call made with numpy's floating-point error state set to 'raise' by the caller
        with np.errstate(all="raise"):
            for k in chunks:
                r = computers.call(comp.compute_chunk, ctx.x[pos:pos + k])
                pos += k
                if r[0] != "ok":
                    return r, None
                held.append(r[1])
            r = computers.call(comp.finalize)
        if r[0] != "ok":
            return r, None
        return ("ok",), (np.concatenate(held + [r[1]]) if held else r[1])
    for j, k in enumerate(chunks + [None]):
        if form in ("deepcopy_each", "pickle_each") or (form in ("pickle_at", "deepcopy_at") and j == at):
            r = computers.call((lambda o: pickle.loads(pickle.dumps(o))) if form.startswith("pickle")
                               else copy.deepcopy, comp)
            if r[0] != "ok":
                return r, None
            comp = r[1]
        if form == "refused_at" and j == at:
            # a chunk the computer documents it refuses (integer samples); the caller catches the error
            # and carries on with the stream.  (If it is accepted the case is outside the property.)
            rr = computers.call(comp.compute_chunk, np.arange(3, dtype=np.int16))
            if rr[0] == "ok":
                return ("skip",), None
        if k is None:
            break
        r = computers.call(comp.compute_chunk, _chunk_form(form, ctx.x[pos:pos + k], buf))
        pos += k
        if r[0] != "ok":
            return r, None
        held.append(r[1])
        if form == "reused_buffer":
            buf[:] = 1e6      # the caller overwrites its buffer after the call returned
    r = computers.call(comp.finalize)
    if r[0] != "ok":
        return r, None
    return ("ok",), (np.concatenate(held + [r[1]]) if held else r[1])


def _transport_one(ctx, n, chunks, form, at):
    ref = ctx.ref[n]
    case = ctx.case(chunks=chunks, form=form, at=at)
    st, got = _transport_run(ctx, chunks, form, at)
    route = ("object" if "copy" in form or "pickle" in form else "refusal" if form == "refused_at" else
             "environment" if form == "fpstrict" else "spelling" if form.startswith("spelled_") else "chunk")
    if st[0] == "skip":
        return None
    if st[0] != "ok":
        return core.violation(ctx.tags(n, what="exception", op="transport", form=form, route=route),
                              "chunks %r as %s: %s: %s" % (chunks, form, st[1], st[2]), case)
    if got.shape != ref.shape:
        return core.violation(ctx.tags(n, what="frame_count", op="transport", form=form, route=route),
                              "chunks %r as %s: %r vs compute_full %r" % (chunks, form, got.shape, ref.shape),
                              case)
    if not _close(got, ref, ctx.dtype):
        return core.violation(ctx.tags(n, what="values", op="transport", form=form, route=route),
                              "chunks %r as %s%s: max|diff|=%r" % (
                                  chunks, form, "" if at is None else " before call #%d" % at,
                                  _maxdiff(got, ref)), case)
    return None


def transport_config(c, seed):
    """every composition of n in {Nt-1, Nt} streamed through ONE live computer while (a) every chunk is
    handed over in another representation - non-native byte order, every-other-sample view, negative
    stride, the caller's single buffer that is overwritten after each call - or (b) the computer object
    itself is transported between calls: copy.deepcopy / pickle round trip before EVERY call, and before
    exactly ONE call for every position (incl. before finalize), or (c) a chunk that the computer refuses
    (integer samples) is offered before exactly one call.  Oracle: compute_full of the samples."""
    nt = c["Nt"]
    ctx = Ctx(dict(c, Nmax=nt), seed)
    if not ctx.in_domain:
        return core.result(nontrivial=False, skipped=True, obs="out_of_domain")
    viol = []
    evals = 0
    for n in (nt - 1, nt):
        if ctx.ref[n] is None:
            continue
        for chunks in _compositions(n):
            for form in c.get("forms", FORMS):
                ats = range(len(chunks) + 1) if form.endswith("_at") else (None,)
                for at in ats:
                    evals += 1
                    v = _transport_one(ctx, n, chunks, form, at)
                    if v is not None:
                        viol.append(v)
                        if len(viol) > 20:
                            return core.result(viol, evals=evals, nontrivial_count=evals, obs=len(viol))
    return core.result(viol, evals=evals, nontrivial_count=evals, obs=len(viol),
                       sample=dict(config=c, Nt=nt, runs=evals))


def transport_replay(case, seed):
    c = case["config"]
    chunks = case["chunks"]
    n = sum(chunks)
    ctx = Ctx(dict(c, Nmax=max(n, 1)), seed)
    v = _transport_one(ctx, n, chunks, case["form"], case.get("at"))
    return core.result([v] if v is not None else [])


# ------------------------------------------------- lattices


def stft_configs(tier):
    out = []
    ls = [(L, S) for L in range(1, 9) for S in range(1, L + 1)] + [(25, 10)]
    if tier == "thorough":
        ls += [(L, S) for L in range(9, 13) for S in (1, 2, 3, L // 2, L - 1, L)]
        ls = sorted(set(ls))
    for L, S in ls:
        for style, kaldi in (("causal", False), ("centered", False), ("centered", True)):
            for window in WINDOWS:
                for pad in (True, False):
                    out.append(dict(kind="stft", bank="tri", L=L, S=S, style=style, kaldi=kaldi,
                                    window=window, pad=pad, energy=True, log=True))
    # option interactions and defaults: kaldi_shift together with the causal style (documented to
    # matter for centered frames only), frame_style=None (resolved from the bank: tri -> centered,
    # gammatone -> causal) with and without kaldi_shift, default window
    for L, S in [(4, 1), (5, 2), (6, 3), (8, 8)]:
        for bank in ("tri", "gammatone"):
            for style, kaldi in (("causal", True), (None, False), (None, True)):
                for window in WINDOWS:
                    out.append(dict(kind="stft", bank=bank, L=L, S=S, style=style, kaldi=kaldi,
                                    window=window, pad=True, energy=True, log=True))
    # complex bank / no energy / float32 on a sub-lattice
    for L, S in [(5, 2), (6, 2), (7, 3), (8, 8), (4, 1)]:
        for style, kaldi in (("causal", False), ("centered", False), ("centered", True)):
            out.append(dict(kind="stft", bank="gabor", L=L, S=S, style=style, kaldi=kaldi,
                            window="hamming", pad=True, energy=False, log=False, power=True))
            out.append(dict(kind="stft", bank="tri", L=L, S=S, style=style, kaldi=kaldi,
                            window="hamming", pad=False, energy=True, log=True, dtype="float32"))
    if tier == "thorough":
        # realistic geometry: 8 kHz 25 ms / 10 ms and 16 kHz
        for rate, L, S, nmax in ((8000, 200, 80, 700), (16000, 400, 160, 1000)):
            for style, kaldi in (("causal", False), ("centered", False), ("centered", True)):
                out.append(dict(kind="stft", L=L, S=S, style=style, kaldi=kaldi, window="hamming",
                                pad=True, energy=True, log=True, Nmax=nmax,
                                bank={"name": "fbank", "num_filts": 3, "sampling_rate": rate}))
    return out


def si_configs(tier):
    out = []
    shifts = range(1, 7)
    for bank in ("gabor", "gammatone", "gammatone_mc"):
        for S in shifts:
            for style in ("causal", "centered"):
                for pad in (True, False):
                    for window in WINDOWS:
                        out.append(dict(kind="si", bank=bank, S=S, style=style, pad=pad,
                                        window=window, energy=True, log=True))
    out.append(dict(kind="si", bank="gabor3", S=3, style="centered", pad=True, window="hamming",
                    energy=False, log=False, power=True))
    if tier == "thorough":
        for S in (7, 8, 9, 12):
            for bank in ("gabor3", "gammatone"):
                for style in ("causal", "centered"):
                    out.append(dict(kind="si", bank=bank, S=S, style=style, pad=True,
                                    window="hamming", energy=True, log=True))
        # default-ish Gabor bank at 1 kHz (more filters, longer supports)
        out.append(dict(kind="si", S=10, style="centered", pad=True, window="hamming",
                        energy=True, log=True, Nmax=300,
                        bank={"name": "gabor", "scaling_function": "mel", "num_filts": 5,
                              "low_hz": 20.0, "sampling_rate": 1000}))
        out.append(dict(kind="si", S=5, style="centered", pad=True, window="hamming",
                        energy=False, log=True, Nmax=300, bank="tri"))
    return out


def subchecks(tier, seed):
    stft = stft_configs(tier)
    si = si_configs(tier)
    ncomp = 9 if tier == "quick" else 12
    comp_cfgs = [dict(c, Ncomp=ncomp) for c in stft
                 if c["bank"] == "tri" and c.get("dtype") is None and c["L"] in (3, 4, 5)
                 and c["window"] == "hamming" and c["pad"] and c["S"] in (1, 2, c["L"])]
    comp_cfgs += [dict(c, Ncomp=ncomp + 2) for c in si
                  if c["bank"] in ("gabor", "gammatone") and c["S"] in (2, 3) and c["pad"]
                  and c["window"] == "hamming"]
    fbf_cfgs = [dict(c, fbf_nmax=24 if tier == "quick" else 40) for c in stft
                if c["L"] <= 8 and c["window"] == "hamming" and c["pad"]] + \
               [dict(c, fbf_nmax=24 if tier == "quick" else 40) for c in si
                if c["window"] == "hamming" and c["pad"]]
    nh = 8 if tier == "quick" else 11
    held_cfgs = [dict(c, Nh=nh) for c in stft
                 if c["bank"] == "tri" and c.get("dtype") is None and c["L"] in (2, 3, 4, 5)
                 and c["window"] == "hamming" and c["pad"]] + \
                [dict(c, Nh=nh + 2) for c in si
                 if c["bank"] in ("gabor", "gammatone") and c["S"] in (2, 3) and c["pad"]
                 and c["window"] == "hamming"]
    ntr = 7 if tier == "quick" else 10
    tr_cfgs = [dict(c, Nt=ntr + (2 if c["kind"] == "si" else 0), forms=list(fg)) for c in held_cfgs
               if c["kind"] == "si" or c["L"] in (3, 4)
               for fg in (FORMS[:4], FORMS[4:6], FORMS[6:7], FORMS[7:8], FORMS[8:9], FORMS[9:])]
    il_alpha = [dict(kind="stft", bank="tri", L=5, S=2, style="causal", kaldi=False, window="hamming",
                     pad=True, energy=True, log=True, Ni=12),
                dict(kind="stft", bank="tri", L=5, S=3, style="centered", kaldi=False, window="hamming",
                     pad=False, energy=True, log=True, Ni=11),
                dict(kind="stft", bank="gabor", L=6, S=2, style="centered", kaldi=True, window=None,
                     pad=True, energy=False, log=True, Ni=13),
                dict(kind="si", bank="gabor", S=2, style="centered", pad=True, window="hamming",
                     energy=True, log=True, Ni=40),
                dict(kind="si", bank="gammatone", S=3, style="causal", pad=True, window=None,
                     energy=True, log=True, Ni=41)]
    il_pts = [(a, b) for a in il_alpha for b in il_alpha]
    axes_stft = dict(L_S="all 1<=S<=L<=8 plus (25,10)" + (", L 9..12, 8k/16k geometry" if tier == "thorough" else ""),
                     style=["causal", "centered", "centered+kaldi_shift"], window=WINDOWS,
                     pad=[True, False], chunk_len="every k in 0..Nmax-n from every state",
                     Nmax="3L+2S+3")
    return [
        core.SubCheck(
            "stft_bfs", stft, lambda c: explore_config(c, seed),
            "BFS over all chunk lengths from every reachable state of a real STFT computer; "
            "non-trivial = compute_full yields >=2 frames and >10 transitions explored",
            axes=axes_stft, replay=lambda case: replay_ops(case, seed), chunk=4, kind="explore"),
        core.SubCheck(
            "si_bfs", si, lambda c: explore_config(c, seed),
            "BFS over all chunk lengths from every reachable state of a real SI computer "
            "(in-domain shifts only); Nmax = 2*DFT+S+3",
            axes=dict(bank=["gabor", "gammatone", "gammatone_mc", "gabor3"], S="1..6",
                      style=["causal", "centered"], pad=[True, False], window=WINDOWS),
            replay=lambda case: replay_ops(case, seed), chunk=1, kind="explore"),
        core.SubCheck(
            "fbf", fbf_cfgs, lambda c: fbf_config(c, seed),
            "frame_by_frame_calculation for every N<=Nmax and EVERY chunk_size 1..N+1 vs compute_full",
            replay=lambda case: fbf_replay(case, seed), chunk=2),
        core.SubCheck(
            "interleaved_instances", il_pts, lambda p: interleaved_config(p, seed),
            "schedule enumeration: for every ordered pair of configurations (incl. identical ones) two "
            "live computers stream different signals; EVERY interleaving of their compute_chunk/finalize "
            "calls, for every pair of chunkings from {whole, single samples, shift-sized, L+1 split, with "
            "empty chunks}, must leave each stream equal to compute_full of its own signal",
            replay=lambda case: interleaved_replay(case, seed), chunk=1, kind="explore"),
        core.SubCheck(
            "held_outputs", held_cfgs, lambda c: held_config(c, seed),
            "every composition of every n<=Nh fed to ONE live computer with all returned arrays held "
            "until after finalize, then concatenated (real aliasing semantics, no snapshots)",
            replay=lambda case: held_replay(case, seed), chunk=1, kind="explore"),
        core.SubCheck(
            "transport", tr_cfgs, lambda c: transport_config(c, seed),
            "every composition of n in {Nt-1, Nt} through one live computer x {chunks in non-native byte "
            "order / as every-other-sample view / negative stride / in the caller's single buffer that is "
            "overwritten after every call; computer deep-copied or pickled and restored before every call; "
            "before exactly one call, every position incl. finalize; a refused integer chunk (error caught by the "
            "caller) before exactly one call, every position; every call under np.errstate(all='raise'); constructor "
            "flags spelled 0/1 / numpy.bool_} vs compute_full",
            axes=dict(forms=list(FORMS), Nt=ntr), replay=lambda case: transport_replay(case, seed), chunk=1,
            kind="explore"),
        core.SubCheck(
            "compositions", comp_cfgs, lambda c: compositions_config(c, seed),
            "unmerged cross-check: every composition of every n<=Ncomp (2^Ncomp paths per "
            "configuration, no state merging), finalize compared with compute_full",
            replay=lambda case: compositions_replay(case, seed), chunk=1, kind="explore"),
    ]
