"""C07 - impulse and frequency responses agree, within the advertised supports (engine L).

Domain (as the property states it): the zero-phase banks (triangular, Fbank, Gabor - every flag
combination) and gammatone banks of order >= 3 without L2 scaling; buffers of at least the
temporal support and at least 2 x rate / bandwidth samples.  For every such bank of the C05
lattice, every filter and the widths {W0, W0+1, 2 W0, 4 W0 - 1}:

  ifft          |ifft(get_frequency_response) - get_impulse_response| <= 2 eps
  real_dtype    the impulse response is a real array iff is_real
  support_time  |impulse| < 2 eps outside `supports` (modulo the buffer)
  support_freq  |frequency response| < 2.5 eps outside `supports_hz` (modulo the rate, mirrored
                for real banks)
  support_zero / support_start   zero-phase supports contain sample 0; causal gammatone
                supports start at sample 0

Besides the C05 design lattice the bank lattice contains boundary banks: odd sampling rates with
the default and the floor(rate/2) top edge, and triangular / Fbank banks with the top edge on every
boundary the constructors know (floor(rate/2), rate/2, rate/2 + 0.5, rate/2 + 1).

`supports_threshold` repeats the sweep on banks built after the documented package constant
EFFECTIVE_SUPPORT_THRESHOLD was lowered (1e-4) or raised (2e-3), every bound taken from the value in force;
`threshold_history` builds a bank and reads its supports under one value, changes the constant and checks
the SAME object again against the new value.

Every (bank, filter, width) case is evaluated on a bank object of its own (impulse response, then
frequency response), exactly as its replay does.  `history` explores call histories on ONE
object (engine in c05.py): every sequence of 2 / 3 calls over {get_impulse_response,
get_frequency_response} x {first, last filter} x the in-domain widths {W0, W0+1, 2 W0}.
"""
import math

import numpy as np

from .. import computers, core
from ..refs import banks as ref
from . import c05

LEVEL = "exploration"
ASSUMPTIONS = [
    "numpy.fft.ifft is trusted",
    "W0 = max(right - left + 1, ceil(2 rate / (high - low))) from the bank's own supports / supports_hz: "
    "the property's precondition is phrased in terms of them; filters with W0 above the tier's cap are "
    "counted and not enumerated",
    "bank lattice = C05's design lattice restricted to the property's domain (gammatone orders {3,4,6}, "
    "scale_l2_norm=False) plus boundary banks (odd / fractional rates {1001.5, 11025}; triangular / Fbank at rates {1000, "
    "1001, 2000.5, 8000} with the top edge at floor(rate/2), rate/2, rate/2 + 0.5, rate/2 + 1); a configuration "
    "whose constructor raises is counted as unconstructible",
    "every case runs on a bank object of its own (enumeration: a copy of a constructed object that "
    "was never used, mutable attributes deep-copied; replay: a newly constructed object - assumed equivalent); the history sub-check's differential oracle is a fresh "
    "object of the same class in the same process (see C05): state shared between objects is not explored",
    "threshold axis: EFFECTIVE_SUPPORT_THRESHOLD in {default, 1e-4, 2e-3} is set before the bank is constructed "
    "(supports_threshold) or changed between two reads of one object (threshold_history); 'eps' in every bound "
    "is the value in force when the bound is evaluated, and W0 comes from the supports as read at that moment. "
    "Lowering the constant under an existing Gabor / gammatone bank (whose supports and truncation were fixed by "
    "the value it was built under) is left open",
    "no signal data is involved: pass/fail cannot depend on VERIF_SEED",
]

W0_CAP = {"quick": 1000, "thorough": 3000}
ORDERS = (3, 4, 6)
ODD_RATES = (1001.5, 11025)
HISTORY_W0_CAP = 1100


def odd_rate_ranges(kind, rate):
    return [(low, high) for low in (0.0, 20.0) for high in (None, c05.floor_nyquist(rate))]


def lattice(tier):
    nfs = (1, 3, 11) if tier == "thorough" else (1, 3)
    banks = c05.tier_lattice(tier, orders=ORDERS)
    banks += c05.bank_lattice(("gabor", "gammatone"), nfs, ODD_RATES, orders=ORDERS, ranges_fn=odd_rate_ranges)
    banks += c05.edge_lattice(("tri", "fbank"), nfs=nfs)
    return [b for b in banks if not (b["name"] == "gammatone" and b.get("scale_l2_norm"))]


def base_width(bank, i):
    left, right = bank.supports[i]
    lo, hi = bank.supports_hz[i]
    vals = [float(left), float(right), float(lo), float(hi)]
    if not all(math.isfinite(v) for v in vals) or not hi > lo:
        return None
    return max(int(right) - int(left) + 1, int(math.ceil(2.0 * bank.sampling_rate / (hi - lo))))


def widths_of(w0):
    return [w0, w0 + 1, 2 * w0, 4 * w0 - 1]


def widths_of_thr(w0):
    return [w0, w0 + 1, 2 * w0]


def _eval_fw(bank, b, i, w, e):
    """-> (list of (what, extra, detail), notes)"""
    out, notes = [], set()
    ri = computers.call(bank.get_impulse_response, i, w)
    rf = computers.call(bank.get_frequency_response, i, w)
    for name, r in (("impulse", ri), ("frequency", rf)):
        if r[0] != "ok":
            out.append(("exception", dict(exc=r[1]),
                        "%s response of filter %d in a buffer of %d raised %s: %s" % (name, i, w, r[1], r[2])))
            return out, notes
    imp = np.asarray(ri[1])
    fr = np.asarray(rf[1])
    if imp.shape != (w,) or fr.shape != (w,):
        return [("shape", {}, "shapes %r / %r for width %d" % (imp.shape, fr.shape, w))], notes
    if not (np.all(np.isfinite(imp)) and np.all(np.isfinite(fr))):
        return [("nonfinite", {}, "filter %d width %d: non-finite response values" % (i, w))], notes
    real = bool(bank.is_real)
    left, right = (int(x) for x in bank.supports[i])
    lo, hi = (float(x) for x in bank.supports_hz[i])
    rate = float(bank.sampling_rate)
    # --- inverse DFT
    back = np.fft.ifft(fr)
    d = np.abs(back - imp)
    if not np.all(d <= 2 * e):
        k = int(np.argmax(d))
        out.append(("ifft", {}, "filter %d width %d: ifft(frequency response)[%d] = %r, impulse response %r "
                    "(|diff| %.3g = %.2f eps > 2 eps)" % (i, w, k, complex(back[k]), complex(imp[k]),
                                                          float(d[k]), float(d[k]) / e)))
    # --- dtype
    if bool(np.isrealobj(imp)) != real:
        out.append(("real_dtype", {}, "filter %d: impulse response dtype %s but is_real = %r" % (
            i, imp.dtype, real)))
    # --- temporal support
    inside = ref.inside_samples(w, left, right)
    if not inside.all():
        notes.add("time_outside")
        a = np.where(inside, 0.0, np.abs(imp))
        if not np.all(a < 2 * e):
            k = int(np.argmax(a))
            out.append(("support_time", {}, "filter %d width %d: |impulse[%d]| = %.3g = %.2f eps (sample %d or %d) "
                        "outside supports (%d, %d)" % (i, w, k, float(a[k]), float(a[k]) / e, k, k - w, left,
                                                       right)))
    # --- frequency support
    outside = np.array([not ref.inside_hz(k * rate / w, lo, hi, rate, real) for k in range(w)])
    if outside.any():
        notes.add("freq_outside")
        a = np.where(outside, np.abs(fr), 0.0)
        if not np.all(a < 2.5 * e):
            k = int(np.argmax(a))
            out.append(("support_freq", {}, "filter %d width %d: |response[%d]| = %.3g = %.2f eps at %.6g Hz, "
                        "outside supports_hz (%.6g, %.6g)" % (i, w, k, float(a[k]), float(a[k]) / e,
                                                              k * rate / w, lo, hi)))
    return out, notes


def _support_position(bank, b, i):
    left, right = bank.supports[i]
    if bank.is_zero_phase:
        if not (left <= 0 <= right):
            return [("support_zero", {}, "filter %d: zero-phase bank but supports (%r, %r) do not contain "
                     "sample 0" % (i, left, right))]
    elif b["name"] == "gammatone" and not b.get("max_centered", False):
        if left != 0:
            return [("support_start", {}, "filter %d: causal gammatone supports start at %r, documented 0" % (
                i, left))]
    return []


def _case(b, i, w, e, pristine=None):
    """one case on a bank object of its own -> list of findings, notes; None = unconstructible"""
    if pristine is not None:
        bank = pristine.fresh()
    else:
        r = c05.build(b)
        if r[0] != "ok":
            return None
        bank = r[1]
    if w is None:
        return _support_position(bank, b, i), set()
    return _eval_fw(bank, b, i, w, e)


@c05.quiet
@c05.with_threshold
def _bank(b, cap, widths_of=widths_of):
    r = c05.build(b)
    if r[0] != "ok":
        return c05.unconstructible(r)
    bank = r[1]  # only read for num_filts and the base widths; every case gets an object of its own
    pristine = c05.Pristine(b)  # never touched, only copied
    tags = c05.bank_tags(b)
    e = c05.eps()
    viol, seen, notes = [], set(), set()
    evals = nontriv = 0

    def run(i, w):
        got, nt = _case(b, i, w, e, pristine)
        for what, extra, detail in got:
            key = (what,) + tuple(sorted(extra.items()))
            if key not in seen:
                viol.append(core.violation(dict(tags, what=what, **extra), detail, dict(bank=b, filt=i, width=w)))
            seen.add(key)
        return nt

    for i in range(bank.num_filts):
        run(i, None)
        w0 = base_width(bank, i)
        if w0 is None:
            notes.add("no_finite_supports")
            evals += 1
            continue
        if w0 > cap:
            notes.add("w0_above_cap")
            evals += 1
            continue
        for w in widths_of(w0):
            evals += 1
            nt = run(i, w)
            notes |= nt
            if "time_outside" in nt or "freq_outside" in nt:
                nontriv += 1
    return core.result(viol, evals=evals, nontrivial_count=nontriv,
                       obs=(b["name"], sorted(notes), sorted(map(str, seen))),
                       sample=dict(bank=b, filters=bank.num_filts))


@c05.quiet
def _replay(case):
    if "t0" in case:
        return c05.threshold_history_point(case, _threshold_judge)
    with c05.threshold_in_force(case["bank"].get("threshold")):
        return _replay_case(case)


def threshold_banks(tier):
    """banks built with a lowered / raised EFFECTIVE_SUPPORT_THRESHOLD in force"""
    nfs = (1, 3, 11) if tier == "thorough" else (3, 11)
    out = c05.bank_lattice(c05.ALL_KINDS, nfs, c05.RATES, orders=(3, 4),
                           ranges_fn=lambda kind, rate: [(20.0, None), (0.0, rate / 2.0)])
    out = [b for b in out if not (b["name"] == "gammatone" and b.get("scale_l2_norm"))]
    return c05.thresholded(out)


def threshold_history_banks(tier):
    out = c05.bank_lattice(c05.ALL_KINDS, (3, 10), (8000, 16000), orders=(3, 4), scales=("mel",),
                           ranges_fn=lambda kind, rate: [(0.0, None), (20.0, None)])
    out += c05.bank_lattice(("tri", "fbank"), (1, 5, 23), (1000, 8000, 16000), scales=("mel", "linear"),
                            ranges_fn=lambda kind, rate: [(0.0, None), (20.0, None)])
    return [b for b in out if not (b["name"] == "gammatone" and b.get("scale_l2_norm"))]


def _threshold_judge(bank, b, e):
    """the supports are read again NOW (second read of the same object): position, and the case oracle in the
    filter's minimal in-domain buffers"""
    found, evals = [], 0
    for i in range(bank.num_filts):
        evals += 1
        found += [(what, extra, detail, i, None) for what, extra, detail in _support_position(bank, b, i)]
        w0 = base_width(bank, i)
        if w0 is None or w0 > HISTORY_W0_CAP:
            continue
        for w in (w0, w0 + 1, 2 * w0 + 1):
            evals += 1
            got, _ = _eval_fw(bank, b, i, w, e)
            found += [(what, extra, detail, i, w) for what, extra, detail in got]
    return found, evals


def _replay_case(case):
    b = case["bank"]
    res = _case(b, case["filt"], case.get("width"), c05.eps())
    if res is None:
        return c05.unconstructible(c05.build(b))
    return core.result([core.violation(dict(c05.bank_tags(b), what=what, **extra), detail, case)
                        for what, extra, detail in res[0]])


def _alphabet(b, bank):
    """{impulse, frequency} x {first, last filter} x the in-domain widths {W0, W0+1, 2 W0} of that filter"""
    def widths(i):
        w0 = base_width(bank, i)
        if w0 is None or w0 > HISTORY_W0_CAP:
            return []
        return [w0, w0 + 1, 2 * w0]
    return c05.history_alphabet(b, ("imp", "freq"), widths)


def history_banks(tier):
    return c05.history_banks(tier, orders=(3, 4), l2s=(False,), rates=(1000, 8000))


def _pair_point(pt):
    """as c06.bank_pairs, with C07's oracle and each filter's own minimal buffer width"""
    from . import c06

    ia, ib = pt
    ba, bb = c06.PAIR_BANKS[ia], c06.PAIR_BANKS[ib]
    if any(b.get("scale_l2_norm") or (b["name"] == "gammatone" and b.get("order", 4) < 3) for b in (ba, bb)):
        return core.result([], nontrivial=False, obs="out_of_domain", skipped=True)
    ra, rb = c05.build(ba), c05.build(bb)
    if ra[0] != "ok" or rb[0] != "ok":
        return core.result([], nontrivial=False, obs="unconstructible", skipped=True)
    e = c05.eps()
    viol, seen = [], set()
    evals = 0
    for who, bank, b in (("A", ra[1], ba), ("B", rb[1], bb), ("A", ra[1], ba)):
        for i in sorted({0, b["num_filts"] - 1}):
            w0 = base_width(bank, i)
            if w0 is None or w0 > 1200:
                continue
            for w in (w0, w0 + 1):
                evals += 1
                got, _ = _eval_fw(bank, b, i, w, e)
                for what, extra, detail in got:
                    key = (what, who) + tuple(sorted(extra.items()))
                    if key not in seen:
                        seen.add(key)
                        viol.append(core.violation(
                            dict(c05.bank_tags(b), what=what, pair=True, second_object=(who == "B"), **extra),
                            "banks A=%r and B=%r alive in one process, queried A, B, A: on %s %s" % (
                                ba, bb, who, detail), dict(pair=[ia, ib])))
    return core.result(viol, evals=evals, nontrivial_count=evals, obs=[ia, ib, len(viol) == 0],
                       sample=dict(A=ba, B=bb))


def subchecks(tier, seed):
    banks = lattice(tier)
    cap = W0_CAP[tier]
    subs = []
    for kind in ("tri", "fbank", "gabor", "gammatone"):
        pts = [b for b in banks if b["name"] == kind]
        subs.append(core.SubCheck(
            "supports_" + kind, pts, lambda b: _bank(b, cap),
            "%s banks of the C05 design lattice and the boundary banks (odd rates; top edge at floor(rate/2), rate/2, "
            "rate/2 + 0.5, rate/2 + 1 where the class accepts it)%s x every filter x buffer widths {W0, W0+1, 2W0, "
            "4W0-1}, each case on a bank object of its own, W0 = "
            "max(temporal support, ceil(2 rate / bandwidth)) <= %d: ifft(frequency response) vs impulse "
            "response (2 eps), real dtype iff is_real, |impulse| < 2 eps outside supports, |response| < 2.5 eps "
            "outside supports_hz, position of the supports. non-trivial = at least one buffer sample or DFT "
            "bin lies outside the advertised support; filters with W0 above the cap are counted, not "
            "enumerated" % (c05.CLASSNAME[kind],
                            " (orders 3,4,6, scale_l2_norm=False)" if kind == "gammatone" else "", cap),
            axes=dict(num_filts=sorted(set(b["num_filts"] for b in pts)),
                      rate=sorted(set(b["sampling_rate"] for b in pts)),
                      scale=list(c05.SCALES), width="W0, W0+1, 2W0, 4W0-1", w0_cap=cap,
                      low_high="design lattice (see C05); Gabor / gammatone at odd rates %r: low {0, 20} x high "
                               "{None, floor(rate/2)}; triangular / Fbank at rates %r: low {0, 20} x high {None, "
                               "floor(rate/2), rate/2, rate/2 + 0.5, rate/2 + 1}" % (ODD_RATES, c05.EDGE_RATES),
                      flags="every combination inside the property's domain"),
            replay=_replay, chunk=4))
    tpts = threshold_banks(tier)
    subs.append(core.SubCheck(
        "supports_threshold", tpts, lambda b: _bank(b, cap, widths_of_thr),
        "banks built AFTER pydrobert.speech.config.EFFECTIVE_SUPPORT_THRESHOLD was set to %r (restored afterwards; "
        "every chunk of points runs in a forked process of its own): 4 classes (gammatone orders 3, 4, no L2 "
        "scaling) x 4 scales x num_filts x rates %r x ranges {(20, default), (0, Nyquist)} x every flag combination x every filter x buffer "
        "widths {W0, W0+1, 2W0}: the oracles of supports_<class> with eps = the threshold IN FORCE" % (
            c05.THRESHOLDS, c05.RATES),
        axes=dict(threshold=list(c05.THRESHOLDS), num_filts=sorted(set(b["num_filts"] for b in tpts)),
                  rate=list(c05.RATES), scale=list(c05.SCALES), w0_cap=cap, flags="every combination in the domain"),
        replay=_replay, chunk=4))
    thb = threshold_history_banks(tier)
    subs.append(core.SubCheck(
        "threshold_history", c05.threshold_history_points(thb),
        lambda pt: c05.threshold_history_point(pt, _threshold_judge),
        "the constant is changed between two reads of ONE bank object: %d banks (4 classes x flags, mel, 3 "
        "and 10 filters at 8 / 16 kHz; triangular (mel, linear) / Fbank also 1, 5, 23 filters at 1 / 8 / 16 kHz) x transitions %r "
        "(None = default): the bank is built and all its read-only properties (supports, supports_hz, ...) are "
        "read with the first value in force, then the second value is set and every filter is checked again on "
        "the SAME object - supports read anew, buffers {W0, W0+1, 2W0+1} (W0 <= %d) - against the oracles of "
        "supports_<class> with eps = the value now in force. Demanded for triangular / Fbank banks in both "
        "directions and for Gabor / gammatone banks after RAISING the constant; lowering it under a Gabor / "
        "gammatone bank is left open (skipped)" % (len(thb), c05.THRESHOLD_TRANSITIONS, HISTORY_W0_CAP),
        axes=dict(transitions=[list(t) for t in c05.THRESHOLD_TRANSITIONS], banks=len(thb)),
        replay=_replay, chunk=2, kind="histories"))
    from . import c06
    subs.append(core.SubCheck(
        "bank_pairs", [(a, b) for a in range(len(c06.PAIR_BANKS)) for b in range(len(c06.PAIR_BANKS)) if a != b],
        _pair_point,
        "every ordered pair of bank configurations alive in ONE freshly forked process, queried A, B, A "
        "at each filter's minimal in-domain widths; each case must satisfy C07's oracle (pairs outside the "
        "property's domain are skipped)",
        replay=lambda case: _pair_point(tuple(case["pair"])), chunk=1, kind="histories"))
    hist_banks = history_banks(tier)
    hist_alpha = 2 * 2 * 3
    depth = 3 if tier == "thorough" else 2
    subs.append(core.SubCheck(
        "history", c05.history_points(tier, hist_banks, hist_alpha), lambda pt: c05.history_point(pt, _alphabet),
        "call histories on ONE bank object: the banks of the property's domain (4 classes x every flag "
        "combination, gammatone orders 3, 4 without L2 scaling) x num_filts x rates (mel, low 0, default high) x "
        "every sequence of %d calls over {get_impulse_response, get_frequency_response} x {first, last filter} x "
        "the in-domain widths {W0, W0+1, 2 W0} of that filter (W0 <= %d). Every result is held to the end of "
        "the sequence; then (1) its copy taken on return agrees (1e-12) with a fresh object's result for that "
        "call, (2) the held array is bit-identical to that copy, (3) no two held arrays share memory, (4) after "
        "the caller overwrites the held arrays with NaN the same calls still agree with a fresh object, (5) "
        "supports are unchanged. evaluations = sequences; non-trivial = two different calls of the sequence "
        "return arrays of equal shape" % (depth, HISTORY_W0_CAP),
        axes=dict(bank=sorted(c05.CLASSNAME), num_filts=sorted(set(b["num_filts"] for b in hist_banks)),
                  rate=sorted(set(b["sampling_rate"] for b in hist_banks)), width="W0, W0+1, 2 W0",
                  depth=depth, alphabet=hist_alpha),
        replay=c05.history_replay, chunk=1, kind="histories"))
    return subs
