"""C07 - impulse and frequency responses agree, within the advertised supports (engine L).

Domain (as the property states it): the zero-phase banks (triangular, Fbank, Gabor - every flag
combination) and gammatone banks of order >= 3 without L2 scaling; buffers of at least the
temporal support and at least 2 x rate / bandwidth samples.  For every such bank of the C05
lattice, every filter and the widths {W0, W0+1, 2 W0, 4 W0 - 1}:

  ifft          |ifft(get_frequency_response) - get_impulse_response| <= 2 eps
  real_dtype    the impulse response is a real array iff is_real
  support_time  |impulse| < 2 eps outside `supports` (modulo the buffer)
  support_freq  |frequency response| < 2.5 eps outside `supports_hz` (modulo the rate, mirrored
                for real banks)
  support_zero / support_start   zero-phase supports contain sample 0; causal gammatone
                supports start at sample 0

Besides the C05 design lattice the bank lattice contains boundary banks: odd sampling rates with
the default and the floor(rate/2) top edge, and triangular / Fbank banks with the top edge on every
boundary the constructors know (floor(rate/2), rate/2, rate/2 + 0.5, rate/2 + 1).

`supports_threshold` repeats the sweep on banks built after the documented package constant
EFFECTIVE_SUPPORT_THRESHOLD was lowered (1e-4) or raised (2e-3), every bound taken from the value in force;
`threshold_history` builds a bank and reads its supports under one value, changes the constant and checks
the SAME object again against the new value.

`argument_types` hands the filter index and the buffer width over as numpy integer scalars (int16 where the
value fits, int32, int64, intp; both, only the width, only the index) on banks with long supports (24 / 40
filters at 16 kHz, gammatone orders 3, 4, 5) in the widths {W0, W0+1, 512, 2048, 4096}: the typed call must
satisfy the oracles above and agree with the call that passes Python ints.  `option_spelling` builds every bank
with its boolean options given as 0 / 1 or numpy.bool_ (constructor) and as JSON through the alias factory, and
passes `half` as False / 0 / numpy.False_ (1 / numpy.True_): same read-only facts, same responses, same oracles.

Every (bank, filter, width) case is evaluated on a bank object of its own (impulse response, then
frequency response), exactly as its replay does.  `history` explores call histories on ONE
object (engine in c05.py): every sequence of 2 / 3 calls over {get_impulse_response,
get_frequency_response} x {first, last filter} x the in-domain widths {W0, W0+1, 2 W0}.
"""
import json
import math

import numpy as np

from .. import cfg, computers, core
from ..refs import banks as ref
from . import c05

LEVEL = "exploration"
ASSUMPTIONS = [
    "numpy.fft.ifft is trusted",
    "W0 = max(right - left + 1, ceil(2 rate / (high - low))) from the bank's own supports / supports_hz: "
    "the property's precondition is phrased in terms of them; filters with W0 above the tier's cap are "
    "counted and not enumerated",
    "bank lattice = C05's design lattice restricted to the property's domain (gammatone orders {3,4,6}, "
    "scale_l2_norm=False) plus boundary banks (odd / fractional rates {1001.5, 11025}; triangular / Fbank at rates {1000, "
    "1001, 2000.5, 8000} with the top edge at floor(rate/2), rate/2, rate/2 + 0.5, rate/2 + 1); a configuration "
    "whose constructor raises is counted as unconstructible",
    "every case runs on a bank object of its own (enumeration: a copy of a constructed object that "
    "was never used, mutable attributes deep-copied; replay: a newly constructed object - assumed equivalent); the history sub-check's differential oracle is a fresh "
    "object of the same class in the same process (see C05): state shared between objects is not explored",
    "threshold axis: EFFECTIVE_SUPPORT_THRESHOLD in {default, 1e-4, 2e-3} is set before the bank is constructed "
    "(supports_threshold) or changed between two reads of one object (threshold_history); 'eps' in every bound "
    "is the value in force when the bound is evaluated, and W0 comes from the supports as read at that moment. "
    "Lowering the constant under an existing Gabor / gammatone bank (whose supports and truncation were fixed by "
    "the value it was built under) is left open",
    "argument types: signed numpy integer scalars {int16, int32, int64, intp} for the filter index and the width "
    "(unsigned types, 0-d arrays and floats with integral values are left open); a typed call may differ from the "
    "Python-int call by 1e-6 (numpy evaluates log(int16) in float32; measured <= 2e-8 on this tree), far below the "
    "threshold; get_truncated_response is compared with its own Python-int result only (its contract is C05 / C06)",
    "option spelling: a boolean option given as 0 / 1, numpy.bool_ or JSON true / false is taken to mean the bool of "
    "the same truth value (the alias factory is documented 'to work nicely with JSON config files'); a spelling the "
    "constructor refuses with an exception is skipped, not demanded; other truthy values (2, 'false', arrays) are "
    "left open",
    "no signal data is involved: pass/fail cannot depend on VERIF_SEED",
]

W0_CAP = {"quick": 1000, "thorough": 3000}
ORDERS = (3, 4, 6)
ODD_RATES = (1001.5, 11025)
HISTORY_W0_CAP = 1100


def odd_rate_ranges(kind, rate):
    return [(low, high) for low in (0.0, 20.0) for high in (None, c05.floor_nyquist(rate))]


def lattice(tier):
    nfs = (1, 3, 11) if tier == "thorough" else (1, 3)
    banks = c05.tier_lattice(tier, orders=ORDERS)
    banks += c05.bank_lattice(("gabor", "gammatone"), nfs, ODD_RATES, orders=ORDERS, ranges_fn=odd_rate_ranges)
    banks += c05.edge_lattice(("tri", "fbank"), nfs=nfs)
    return [b for b in banks if not (b["name"] == "gammatone" and b.get("scale_l2_norm"))]


def base_width(bank, i):
    left, right = bank.supports[i]
    lo, hi = bank.supports_hz[i]
    vals = [float(left), float(right), float(lo), float(hi)]
    if not all(math.isfinite(v) for v in vals) or not hi > lo:
        return None
    return max(int(right) - int(left) + 1, int(math.ceil(2.0 * bank.sampling_rate / (hi - lo))))


def widths_of(w0):
    return [w0, w0 + 1, 2 * w0, 4 * w0 - 1]


def widths_of_thr(w0):
    return [w0, w0 + 1, 2 * w0]


def _eval_fw(bank, b, i, w, e, ci=None, cw=None, fkw=None, keep=None):
    """-> (list of (what, extra, detail), notes).  `ci`, `cw` are the filter index and the width AS HANDED to
    the two methods (same values as the ints i, w, possibly of another integer type), `fkw` extra keyword
    arguments of get_frequency_response (a falsy `half`); `keep` (a dict) receives the two arrays"""
    out, notes = [], set()
    ci = i if ci is None else ci
    cw = w if cw is None else cw
    ri = computers.call(bank.get_impulse_response, ci, cw)
    rf = computers.call(lambda: bank.get_frequency_response(ci, cw, **(fkw or {})))
    for name, r in (("impulse", ri), ("frequency", rf)):
        if r[0] != "ok":
            out.append(("exception", dict(exc=r[1]),
                        "%s response of filter %d in a buffer of %d raised %s: %s" % (name, i, w, r[1], r[2])))
            return out, notes
    imp = np.asarray(ri[1])
    fr = np.asarray(rf[1])
    if keep is not None:
        keep["imp"], keep["fr"] = imp, fr
    if imp.shape != (w,) or fr.shape != (w,):
        return [("shape", {}, "shapes %r / %r for width %d" % (imp.shape, fr.shape, w))], notes
    if not (np.all(np.isfinite(imp)) and np.all(np.isfinite(fr))):
        return [("nonfinite", {}, "filter %d width %d: non-finite response values" % (i, w))], notes
    real = bool(bank.is_real)
    left, right = (int(x) for x in bank.supports[i])
    lo, hi = (float(x) for x in bank.supports_hz[i])
    rate = float(bank.sampling_rate)
    # --- inverse DFT
    back = np.fft.ifft(fr)
    d = np.abs(back - imp)
    if not np.all(d <= 2 * e):
        k = int(np.argmax(d))
        out.append(("ifft", {}, "filter %d width %d: ifft(frequency response)[%d] = %r, impulse response %r "
                    "(|diff| %.3g = %.2f eps > 2 eps)" % (i, w, k, complex(back[k]), complex(imp[k]),
                                                          float(d[k]), float(d[k]) / e)))
    # --- dtype
    if bool(np.isrealobj(imp)) != real:
        out.append(("real_dtype", {}, "filter %d: impulse response dtype %s but is_real = %r" % (
            i, imp.dtype, real)))
    # --- temporal support
    inside = ref.inside_samples(w, left, right)
    if not inside.all():
        notes.add("time_outside")
        a = np.where(inside, 0.0, np.abs(imp))
        if not np.all(a < 2 * e):
            k = int(np.argmax(a))
            out.append(("support_time", {}, "filter %d width %d: |impulse[%d]| = %.3g = %.2f eps (sample %d or %d) "
                        "outside supports (%d, %d)" % (i, w, k, float(a[k]), float(a[k]) / e, k, k - w, left,
                                                       right)))
    # --- frequency support
    outside = np.array([not ref.inside_hz(k * rate / w, lo, hi, rate, real) for k in range(w)])
    if outside.any():
        notes.add("freq_outside")
        a = np.where(outside, np.abs(fr), 0.0)
        if not np.all(a < 2.5 * e):
            k = int(np.argmax(a))
            out.append(("support_freq", {}, "filter %d width %d: |response[%d]| = %.3g = %.2f eps at %.6g Hz, "
                        "outside supports_hz (%.6g, %.6g)" % (i, w, k, float(a[k]), float(a[k]) / e,
                                                              k * rate / w, lo, hi)))
    return out, notes


def _support_position(bank, b, i):
    left, right = bank.supports[i]
    if bank.is_zero_phase:
        if not (left <= 0 <= right):
            return [("support_zero", {}, "filter %d: zero-phase bank but supports (%r, %r) do not contain "
                     "sample 0" % (i, left, right))]
    elif b["name"] == "gammatone" and not b.get("max_centered", False):
        if left != 0:
            return [("support_start", {}, "filter %d: causal gammatone supports start at %r, documented 0" % (
                i, left))]
    return []


def _case(b, i, w, e, pristine=None):
    """one case on a bank object of its own -> list of findings, notes; None = unconstructible"""
    if pristine is not None:
        bank = pristine.fresh()
    else:
        r = c05.build(b)
        if r[0] != "ok":
            return None
        bank = r[1]
    if w is None:
        return _support_position(bank, b, i), set()
    return _eval_fw(bank, b, i, w, e)


@c05.quiet
@c05.with_threshold
def _bank(b, cap, widths_of=widths_of):
    r = c05.build(b)
    if r[0] != "ok":
        return c05.unconstructible(r)
    bank = r[1]  # only read for num_filts and the base widths; every case gets an object of its own
    pristine = c05.Pristine(b)  # never touched, only copied
    tags = c05.bank_tags(b)
    e = c05.eps()
    viol, seen, notes = [], set(), set()
    evals = nontriv = 0

    def run(i, w):
        got, nt = _case(b, i, w, e, pristine)
        for what, extra, detail in got:
            key = (what,) + tuple(sorted(extra.items()))
            if key not in seen:
                viol.append(core.violation(dict(tags, what=what, **extra), detail, dict(bank=b, filt=i, width=w)))
            seen.add(key)
        return nt

    for i in range(bank.num_filts):
        run(i, None)
        w0 = base_width(bank, i)
        if w0 is None:
            notes.add("no_finite_supports")
            evals += 1
            continue
        if w0 > cap:
            notes.add("w0_above_cap")
            evals += 1
            continue
        for w in widths_of(w0):
            evals += 1
            nt = run(i, w)
            notes |= nt
            if "time_outside" in nt or "freq_outside" in nt:
                nontriv += 1
    return core.result(viol, evals=evals, nontrivial_count=nontriv,
                       obs=(b["name"], sorted(notes), sorted(map(str, seen))),
                       sample=dict(bank=b, filters=bank.num_filts))


@c05.quiet
def _replay(case):
    if "argtypes" in case or "spelling" in case:
        return _replay_types(case)
    if "t0" in case:
        return c05.threshold_history_point(case, _threshold_judge)
    with c05.threshold_in_force(case["bank"].get("threshold")):
        return _replay_case(case)


def threshold_banks(tier):
    """banks built with a lowered / raised EFFECTIVE_SUPPORT_THRESHOLD in force"""
    nfs = (1, 3, 11) if tier == "thorough" else (3, 11)
    out = c05.bank_lattice(c05.ALL_KINDS, nfs, c05.RATES, orders=(3, 4),
                           ranges_fn=lambda kind, rate: [(20.0, None), (0.0, rate / 2.0)])
    out = [b for b in out if not (b["name"] == "gammatone" and b.get("scale_l2_norm"))]
    return c05.thresholded(out)


def threshold_history_banks(tier):
    out = c05.bank_lattice(c05.ALL_KINDS, (3, 10), (8000, 16000), orders=(3, 4), scales=("mel",),
                           ranges_fn=lambda kind, rate: [(0.0, None), (20.0, None)])
    out += c05.bank_lattice(("tri", "fbank"), (1, 5, 23), (1000, 8000, 16000), scales=("mel", "linear"),
                            ranges_fn=lambda kind, rate: [(0.0, None), (20.0, None)])
    return [b for b in out if not (b["name"] == "gammatone" and b.get("scale_l2_norm"))]


def _threshold_judge(bank, b, e):
    """the supports are read again NOW (second read of the same object): position, and the case oracle in the
    filter's minimal in-domain buffers"""
    found, evals = [], 0
    for i in range(bank.num_filts):
        evals += 1
        found += [(what, extra, detail, i, None) for what, extra, detail in _support_position(bank, b, i)]
        w0 = base_width(bank, i)
        if w0 is None or w0 > HISTORY_W0_CAP:
            continue
        for w in (w0, w0 + 1, 2 * w0 + 1):
            evals += 1
            got, _ = _eval_fw(bank, b, i, w, e)
            found += [(what, extra, detail, i, w) for what, extra, detail in got]
    return found, evals


def _replay_case(case):
    b = case["bank"]
    res = _case(b, case["filt"], case.get("width"), c05.eps())
    if res is None:
        return c05.unconstructible(c05.build(b))
    return core.result([core.violation(dict(c05.bank_tags(b), what=what, **extra), detail, case)
                        for what, extra, detail in res[0]])


def _alphabet(b, bank):
    """{impulse, frequency} x {first, last filter} x the in-domain widths {W0, W0+1, 2 W0} of that filter"""
    def widths(i):
        w0 = base_width(bank, i)
        if w0 is None or w0 > HISTORY_W0_CAP:
            return []
        return [w0, w0 + 1, 2 * w0]
    return c05.history_alphabet(b, ("imp", "freq"), widths)


def history_banks(tier):
    return c05.history_banks(tier, orders=(3, 4), l2s=(False,), rates=(1000, 8000))


def _pair_point(pt):
    """as c06.bank_pairs, with C07's oracle and each filter's own minimal buffer width"""
    from . import c06

    ia, ib = pt
    ba, bb = c06.PAIR_BANKS[ia], c06.PAIR_BANKS[ib]
    if any(b.get("scale_l2_norm") or (b["name"] == "gammatone" and b.get("order", 4) < 3) for b in (ba, bb)):
        return core.result([], nontrivial=False, obs="out_of_domain", skipped=True)
    ra, rb = c05.build(ba), c05.build(bb)
    if ra[0] != "ok" or rb[0] != "ok":
        return core.result([], nontrivial=False, obs="unconstructible", skipped=True)
    e = c05.eps()
    viol, seen = [], set()
    evals = 0
    for who, bank, b in (("A", ra[1], ba), ("B", rb[1], bb), ("A", ra[1], ba)):
        for i in sorted({0, b["num_filts"] - 1}):
            w0 = base_width(bank, i)
            if w0 is None or w0 > 1200:
                continue
            for w in (w0, w0 + 1):
                evals += 1
                got, _ = _eval_fw(bank, b, i, w, e)
                for what, extra, detail in got:
                    key = (what, who) + tuple(sorted(extra.items()))
                    if key not in seen:
                        seen.add(key)
                        viol.append(core.violation(
                            dict(c05.bank_tags(b), what=what, pair=True, second_object=(who == "B"), **extra),
                            "banks A=%r and B=%r alive in one process, queried A, B, A: on %s %s" % (
                                ba, bb, who, detail), dict(pair=[ia, ib])))
    return core.result(viol, evals=evals, nontrivial_count=evals, obs=[ia, ib, len(viol) == 0],
                       sample=dict(A=ba, B=bb))


# ---------------------------------------------------------------- argument and option TYPES
#
# The same VALUE handed over as another type: the filter index and the buffer width as numpy integer scalars
# (an entry of an int32 array of frame lengths), a boolean option as 0 / 1 (JSON, command line) or numpy.bool_
# (the result of a comparison).  The property speaks about banks and buffers, not about the Python type that
# carries the number.

INT_TYPES = ("int", "int16", "int32", "int64", "intp")
BIG_WIDTHS = (512, 2048, 4096)
ARG_W0_CAP = 4096
TYPE_TOL = 1e-6     # numpy computes log(int16) in float32: a typed call may differ from the int call by rounding
FLAG_KEYS = ("analytic", "erb", "scale_l2_norm", "max_centered")
SPELLINGS = (("ctor", "int"), ("ctor", "np_bool"), ("alias", "bool"), ("alias", "int"))
HALF_FALSY = (("bool", False), ("int", 0), ("np_bool", np.False_))
HALF_TRUTHY = (("int", 1), ("np_bool", np.True_))
SPELL_W0_CAP = 1000


def _as_type(tn, v):
    if tn == "int":
        return int(v)
    T = getattr(np, tn)
    info = np.iinfo(T)
    if not (info.min <= v <= info.max):
        return None
    return T(v)


def type_combos():
    """(index type, width type): both numpy, only the width, only the index"""
    others = [t for t in INT_TYPES if t != "int"]
    return [(t, t) for t in others] + [("int", t) for t in others] + [(t, "int") for t in others]


def argtype_banks(tier):
    out = []
    sizes = ((10, 8000), (24, 16000), (40, 16000)) + (((64, 22050),) if tier == "thorough" else ())
    for nf, rate in sizes:
        out += c05.bank_lattice(c05.ALL_KINDS, (nf,), (rate,), orders=(3, 4, 5), scales=("mel",),
                                ranges_fn=lambda kind, rate: [(20.0, None)])
    return [b for b in out if not (b["name"] == "gammatone" and b.get("scale_l2_norm"))]


def _max_diff(a, b):
    a, b = np.asarray(a), np.asarray(b)
    if a.shape != b.shape:
        return float("inf")
    if a.size == 0:
        return 0.0
    d = np.abs(a - b)
    return float("inf") if not np.all(np.isfinite(d)) else float(d.max())


def _typed_case(bank, b, i, w, ti, tw, e, base=None):
    """one (filter, width) case with the two arguments handed over as types ti / tw, on `bank` (an object of
    its own) -> (findings, kept results) or None when a value does not fit the type.  With `base` (the results
    of the int / int call on another object) the typed results are also compared with it."""
    ci, cw = _as_type(ti, i), _as_type(tw, w)
    if ci is None or cw is None:
        return None
    keep = {}
    extra = dict(index_type=ti, width_type=tw)
    got, _ = _eval_fw(bank, b, i, w, e, ci, cw, keep=keep)
    out = [(what, dict(x, **extra), "arguments (%s(%d), %s(%d)): %s" % (ti, i, tw, w, detail))
           for what, x, detail in got]
    keep["trunc"] = computers.call(bank.get_truncated_response, ci, cw)
    if base is not None:
        for key, meth in (("imp", "get_impulse_response"), ("fr", "get_frequency_response")):
            if key in keep and key in base:
                d = _max_diff(keep[key], base[key])
                if not d <= TYPE_TOL:
                    out.append(("type_differs", dict(extra, method=meth),
                                "%s(%s(%d), %s(%d)) differs from the result for Python ints by %.3g (shape %r vs "
                                "%r)" % (meth, ti, i, tw, w, d, keep[key].shape, base[key].shape)))
        rt, r0 = keep["trunc"], base["trunc"]
        if rt[0] != r0[0]:
            out.append(("type_differs", dict(extra, method="get_truncated_response"),
                        "get_truncated_response(%s(%d), %s(%d)) -> %r, with Python ints -> %r" % (
                            ti, i, tw, w, rt[:2] if rt[0] == "exc" else "a result",
                            r0[:2] if r0[0] == "exc" else "a result")))
        elif rt[0] == "ok":
            try:
                same = int(rt[1][0]) == int(r0[1][0]) and _max_diff(rt[1][1], r0[1][1]) <= TYPE_TOL
            except Exception:
                same = False
            if not same:
                out.append(("type_differs", dict(extra, method="get_truncated_response"),
                            "get_truncated_response(%s(%d), %s(%d)) = (%r, array %r) differs from the result for "
                            "Python ints (%r, array %r)" % (ti, i, tw, w, rt[1][0], np.shape(rt[1][1]), r0[1][0],
                                                            np.shape(r0[1][1]))))
    return out, keep


def _argtype_filters(bank):
    lens = [float(r) - float(l) for l, r in bank.supports]
    longest = max(range(len(lens)), key=lambda k: (lens[k] if math.isfinite(lens[k]) else -1.0, -k))
    return sorted({0, bank.num_filts - 1, longest})


@c05.quiet
def _argtypes(pt, only=None):
    """pt = dict(bank=, role=k): the k-th of the bank's (up to three) distinct filters {first, last, longest support}"""
    b = pt["bank"]
    r = c05.build(b)
    if r[0] != "ok":
        return c05.unconstructible(r)
    bank = r[1]
    pristine = c05.Pristine(b)
    tags = c05.bank_tags(b)
    e = c05.eps()
    viol, seen, notes = [], set(), set()
    evals = nontriv = 0

    def note(found, i, w, ti, tw):
        for what, extra, detail in found:
            key = (what,) + tuple(sorted(extra.items()))
            if key not in seen:
                seen.add(key)
                viol.append(core.violation(dict(tags, what=what, **extra), detail,
                                           dict(argtypes=[ti, tw], bank=b, filt=i, width=w)))

    filts = _argtype_filters(bank)
    if only is not None:
        filts = [only["filt"]]
    elif pt["role"] >= len(filts):
        return core.result([], nontrivial=False, obs="fewer_distinct_filters", skipped=True)
    else:
        filts = [filts[pt["role"]]]
    for i in filts:
        w0 = base_width(bank, i)
        if w0 is None or w0 > ARG_W0_CAP:
            notes.add("no_finite_supports" if w0 is None else "w0_above_cap")
            evals += 1
            continue
        widths = [w0, w0 + 1] + [W for W in BIG_WIDTHS if W > w0 + 1]
        if only is not None:
            widths = [only["width"]]
        for w in widths:
            found, base = _typed_case(pristine.fresh(), b, i, w, "int", "int", e)
            evals += 1
            note(found, i, w, "int", "int")
            for ti, tw in (type_combos() if only is None else [tuple(only["argtypes"])]):
                if (ti, tw) == ("int", "int"):
                    continue
                got = _typed_case(pristine.fresh(), b, i, w, ti, tw, e, base)
                if got is None:
                    notes.add("does_not_fit")
                    continue
                evals += 1
                nontriv += 1
                note(got[0], i, w, ti, tw)
    return core.result(viol, evals=evals, nontrivial_count=nontriv,
                       obs=(b["name"], sorted(notes), sorted(map(str, seen))),
                       sample=dict(bank=b, filters=filts))


def spelling_banks(tier):
    nfs = (3, 10, 24) if tier == "thorough" else (3, 10)
    out = c05.bank_lattice(c05.ALL_KINDS, nfs, (8000,), orders=(3, 4), scales=("mel", "linear"),
                           ranges_fn=lambda kind, rate: [(20.0, None)])
    return [b for b in out if not (b["name"] == "gammatone" and b.get("scale_l2_norm"))]


def _spell(v, how):
    return int(v) if how == "int" else np.bool_(v) if how == "np_bool" else bool(v)


def build_spelt(b, route, how):
    """the bank of configuration b with every boolean option given as `how`, constructed directly ("ctor") or
    from JSON text through the library's alias factory ("alias")"""
    d = {k: (_spell(v, how) if k in FLAG_KEYS else v) for k, v in b.items()}
    if route == "ctor":
        return computers.call(cfg.make_bank, d)
    from pydrobert.speech import alias, filters

    if d.get("scaling_function") == "linear":
        d["scaling_function"] = {"name": "linear", "low_hz": 0.0}    # what cfg.make_scale builds
    text = json.dumps(d)
    return computers.call(lambda: alias.alias_factory_subclass_from_arg(filters.LinearFilterBank, json.loads(text)))


SPELL_PROPS = ("is_real", "is_analytic", "is_zero_phase", "num_filts", "sampling_rate", "supports", "supports_hz")


def _same_value(a, b):
    try:
        a, b = np.asarray(a, dtype=float), np.asarray(b, dtype=float)
    except Exception:
        return False
    return a.shape == b.shape and bool(np.all((a == b) | (np.isnan(a) & np.isnan(b))))


@c05.quiet
def _spelling_point(pt, only=None):
    b, (route, how) = pt["bank"], pt["spelling"]
    r0 = c05.build(b)
    if r0[0] != "ok":
        return c05.unconstructible(r0)
    rv = build_spelt(b, route, how)
    if rv[0] != "ok":
        # refusing the spelling is an answer; behaving differently without saying so is not
        return core.result([], nontrivial=False, obs=("refused", route, how, rv[1]), skipped=True)
    plain, var = r0[1], rv[1]
    tags = dict(c05.bank_tags(b), route=route, spelling=how)
    e = c05.eps()
    viol, seen = [], set()
    evals = nontriv = 0

    def note(what, extra, detail, i=None, w=None, half=None):
        key = (what,) + tuple(sorted(extra.items()))
        if key not in seen:
            seen.add(key)
            viol.append(core.violation(dict(tags, what=what, **extra),
                                       "options %r given as %s through the %s: %s" % (
                                           {k: b[k] for k in FLAG_KEYS if k in b}, how,
                                           "constructor" if route == "ctor" else "alias factory (JSON)", detail),
                                       dict(spelling=[route, how], bank=b, filt=i, width=w, half=half)))

    if type(var) is not type(plain):
        note("spelling_class", {}, "class %s, expected %s" % (type(var).__name__, type(plain).__name__))
        return core.result(viol, evals=1, nontrivial_count=1, obs=("class", route, how))
    for name in SPELL_PROPS:
        evals += 1
        ga, gb = computers.call(getattr, var, name), computers.call(getattr, plain, name)
        if ga[0] != gb[0] or (ga[0] == "ok" and not _same_value(ga[1], gb[1])):
            note("spelling_props", dict(prop=name), "%s = %r, with Python bools %r" % (name, ga[1:], gb[1:]))
    for i in range(plain.num_filts):
        if only is not None and only.get("filt") is not None and i != only["filt"]:
            continue
        w0 = base_width(plain, i)
        if w0 is None or w0 > SPELL_W0_CAP:
            evals += 1
            continue
        for w in ([w0, w0 + 1, 2 * w0] if only is None or only.get("width") is None else [only["width"]]):
            base = {}
            _eval_fw(plain, b, i, w, e, keep=base)
            for hname, hval in HALF_FALSY:
                if only is not None and only.get("half") not in (None, hname):
                    continue
                evals += 1
                nontriv += 1
                keep = {}
                got, _ = _eval_fw(var, b, i, w, e, fkw=dict(half=hval), keep=keep)
                for what, extra, detail in got:
                    note(what, dict(extra, half=hname), "half=%r: %s" % (hval, detail), i, w, hname)
                for key, meth in (("imp", "get_impulse_response"), ("fr", "get_frequency_response")):
                    if key in keep and key in base and not _max_diff(keep[key], base[key]) <= 1e-12:
                        note("spelling_response", dict(method=meth, half=hname),
                             "%s(%d, %d%s) differs by %.3g from the bank built with Python bools" % (
                                 meth, i, w, ", half=%r" % (hval,) if key == "fr" else "",
                                 _max_diff(keep[key], base[key])), i, w, hname)
            rt = computers.call(lambda: var.get_frequency_response(i, w, half=True))
            for hname, hval in HALF_TRUTHY:
                if only is not None and only.get("half") not in (None, hname):
                    continue
                evals += 1
                rh = computers.call(lambda: var.get_frequency_response(i, w, half=hval))
                if rh[0] != rt[0] or (rh[0] == "ok" and not _max_diff(rh[1], rt[1]) == 0.0):
                    note("half_spelling", dict(half=hname),
                         "get_frequency_response(%d, %d, half=%r) -> %s, half=True -> %s" % (
                             i, w, hval, rh[:2] if rh[0] == "exc" else "array %r" % (np.shape(rh[1]),),
                             rt[:2] if rt[0] == "exc" else "array %r" % (np.shape(rt[1]),)), i, w, hname)
    return core.result(viol, evals=evals, nontrivial_count=nontriv,
                       obs=(b["name"], route, how, sorted(map(str, seen))), sample=dict(pt))


def _replay_types(case):
    if "argtypes" in case:
        return _argtypes(dict(bank=case["bank"], role=0), only=case)
    return _spelling_point(dict(bank=case["bank"], spelling=case["spelling"]), only=case)


def subchecks(tier, seed):
    banks = lattice(tier)
    cap = W0_CAP[tier]
    subs = []
    for kind in ("tri", "fbank", "gabor", "gammatone"):
        pts = [b for b in banks if b["name"] == kind]
        subs.append(core.SubCheck(
            "supports_" + kind, pts, lambda b: _bank(b, cap),
            "%s banks of the C05 design lattice and the boundary banks (odd rates; top edge at floor(rate/2), rate/2, "
            "rate/2 + 0.5, rate/2 + 1 where the class accepts it)%s x every filter x buffer widths {W0, W0+1, 2W0, "
            "4W0-1}, each case on a bank object of its own, W0 = "
            "max(temporal support, ceil(2 rate / bandwidth)) <= %d: ifft(frequency response) vs impulse "
            "response (2 eps), real dtype iff is_real, |impulse| < 2 eps outside supports, |response| < 2.5 eps "
            "outside supports_hz, position of the supports. non-trivial = at least one buffer sample or DFT "
            "bin lies outside the advertised support; filters with W0 above the cap are counted, not "
            "enumerated" % (c05.CLASSNAME[kind],
                            " (orders 3,4,6, scale_l2_norm=False)" if kind == "gammatone" else "", cap),
            axes=dict(num_filts=sorted(set(b["num_filts"] for b in pts)),
                      rate=sorted(set(b["sampling_rate"] for b in pts)),
                      scale=list(c05.SCALES), width="W0, W0+1, 2W0, 4W0-1", w0_cap=cap,
                      low_high="design lattice (see C05); Gabor / gammatone at odd rates %r: low {0, 20} x high "
                               "{None, floor(rate/2)}; triangular / Fbank at rates %r: low {0, 20} x high {None, "
                               "floor(rate/2), rate/2, rate/2 + 0.5, rate/2 + 1}" % (ODD_RATES, c05.EDGE_RATES),
                      flags="every combination inside the property's domain"),
            replay=_replay, chunk=4))
    tpts = threshold_banks(tier)
    subs.append(core.SubCheck(
        "supports_threshold", tpts, lambda b: _bank(b, cap, widths_of_thr),
        "banks built AFTER pydrobert.speech.config.EFFECTIVE_SUPPORT_THRESHOLD was set to %r (restored afterwards; "
        "every chunk of points runs in a forked process of its own): 4 classes (gammatone orders 3, 4, no L2 "
        "scaling) x 4 scales x num_filts x rates %r x ranges {(20, default), (0, Nyquist)} x every flag combination x every filter x buffer "
        "widths {W0, W0+1, 2W0}: the oracles of supports_<class> with eps = the threshold IN FORCE" % (
            c05.THRESHOLDS, c05.RATES),
        axes=dict(threshold=list(c05.THRESHOLDS), num_filts=sorted(set(b["num_filts"] for b in tpts)),
                  rate=list(c05.RATES), scale=list(c05.SCALES), w0_cap=cap, flags="every combination in the domain"),
        replay=_replay, chunk=4))
    thb = threshold_history_banks(tier)
    subs.append(core.SubCheck(
        "threshold_history", c05.threshold_history_points(thb),
        lambda pt: c05.threshold_history_point(pt, _threshold_judge),
        "the constant is changed between two reads of ONE bank object: %d banks (4 classes x flags, mel, 3 "
        "and 10 filters at 8 / 16 kHz; triangular (mel, linear) / Fbank also 1, 5, 23 filters at 1 / 8 / 16 kHz) x transitions %r "
        "(None = default): the bank is built and all its read-only properties (supports, supports_hz, ...) are "
        "read with the first value in force, then the second value is set and every filter is checked again on "
        "the SAME object - supports read anew, buffers {W0, W0+1, 2W0+1} (W0 <= %d) - against the oracles of "
        "supports_<class> with eps = the value now in force. Demanded for triangular / Fbank banks in both "
        "directions and for Gabor / gammatone banks after RAISING the constant; lowering it under a Gabor / "
        "gammatone bank is left open (skipped)" % (len(thb), c05.THRESHOLD_TRANSITIONS, HISTORY_W0_CAP),
        axes=dict(transitions=[list(t) for t in c05.THRESHOLD_TRANSITIONS], banks=len(thb)),
        replay=_replay, chunk=2, kind="histories"))
    apts = argtype_banks(tier)
    subs.append(core.SubCheck(
        "argument_types", [dict(bank=b, role=k) for b in apts for k in range(3)], _argtypes,
        "the filter index and the buffer width handed over as numpy integer scalars: %d banks (4 classes x every "
        "flag combination of the domain, gammatone orders 3, 4, 5; mel, low 20 Hz; 10 filters at 8 kHz, 24 and 40 at "
        "16 kHz) x {first, last, longest-support filter} x widths {W0, W0+1} and every width of %r above them "
        "(W0 <= %d) x (index type, width type) in {(T, T), (int, T), (T, int) : T in int16 (where the value fits), "
        "int32, int64, intp} besides (int, int), each call on a bank object of its own: the oracles of "
        "supports_<class> on the typed call's results, and get_impulse_response / get_frequency_response / "
        "get_truncated_response agree with the (int, int) call's (%g; start bin exactly). non-trivial = at least "
        "one argument is a numpy scalar" % (len(apts), BIG_WIDTHS, ARG_W0_CAP, TYPE_TOL),
        axes=dict(types=list(INT_TYPES), combos=[list(c) for c in type_combos()], big_widths=list(BIG_WIDTHS),
                  banks=len(apts), orders=[3, 4, 5]),
        replay=_replay, chunk=1))
    spts = [dict(bank=b, spelling=list(sp)) for b in spelling_banks(tier) for sp in SPELLINGS]
    subs.append(core.SubCheck(
        "option_spelling", spts, _spelling_point,
        "boolean options given as another type with the same truth value: banks (4 classes x scales {mel, linear} "
        "x num_filts x 8 kHz, low 20 Hz x EVERY flag combination of the domain, gammatone orders 3, 4) x (route, "
        "spelling) in %r - every flag (analytic / erb / scale_l2_norm / max_centered) as 0 / 1 or numpy.bool_ "
        "through the constructor, as JSON true / false or 0 / 1 through alias_factory_subclass_from_arg: the bank "
        "must report the same is_real / is_analytic / is_zero_phase / supports / supports_hz as the bank built "
        "with Python bools, and for every filter x widths {W0, W0+1, 2W0} (W0 <= %d) x half in {False, 0, "
        "numpy.False_} satisfy the oracles of supports_<class> and return the same responses (1e-12) as that "
        "bank; half = 1 / numpy.True_ returns exactly what half=True returns. A spelling the constructor refuses "
        "is skipped. non-trivial = a (filter, width, falsy half) case evaluated on the re-spelt bank" % (
            SPELLINGS, SPELL_W0_CAP),
        axes=dict(spelling=[list(x) for x in SPELLINGS], half=[h for h, _ in HALF_FALSY + HALF_TRUTHY],
                  flags="every combination inside the property's domain", banks=len(spts) // len(SPELLINGS)),
        replay=_replay, chunk=2))
    from . import c06
    subs.append(core.SubCheck(
        "bank_pairs", [(a, b) for a in range(len(c06.PAIR_BANKS)) for b in range(len(c06.PAIR_BANKS)) if a != b],
        _pair_point,
        "every ordered pair of bank configurations alive in ONE freshly forked process, queried A, B, A "
        "at each filter's minimal in-domain widths; each case must satisfy C07's oracle (pairs outside the "
        "property's domain are skipped)",
        replay=lambda case: _pair_point(tuple(case["pair"])), chunk=1, kind="histories"))
    hist_banks = history_banks(tier)
    hist_alpha = 2 * 2 * 3
    depth = 3 if tier == "thorough" else 2
    subs.append(core.SubCheck(
        "history", c05.history_points(tier, hist_banks, hist_alpha), lambda pt: c05.history_point(pt, _alphabet),
        "call histories on ONE bank object: the banks of the property's domain (4 classes x every flag "
        "combination, gammatone orders 3, 4 without L2 scaling) x num_filts x rates (mel, low 0, default high) x "
        "every sequence of %d calls over {get_impulse_response, get_frequency_response} x {first, last filter} x "
        "the in-domain widths {W0, W0+1, 2 W0} of that filter (W0 <= %d). Every result is held to the end of "
        "the sequence; then (1) its copy taken on return agrees (1e-12) with a fresh object's result for that "
        "call, (2) the held array is bit-identical to that copy, (3) no two held arrays share memory, (4) after "
        "the caller overwrites the held arrays with NaN the same calls still agree with a fresh object, (5) "
        "supports are unchanged. evaluations = sequences; non-trivial = two different calls of the sequence "
        "return arrays of equal shape" % (depth, HISTORY_W0_CAP),
        axes=dict(bank=sorted(c05.CLASSNAME), num_filts=sorted(set(b["num_filts"] for b in hist_banks)),
                  rate=sorted(set(b["sampling_rate"] for b in hist_banks)), width="W0, W0+1, 2 W0",
                  depth=depth, alphabet=hist_alpha),
        replay=c05.history_replay, chunk=1, kind="histories"))
    return subs
