"""C04 - a computer's output depends only on the current utterance.

Engine E: BFS over histories of {compute_chunk, finalize, compute_full,
frame_by_frame_calculation} on ONE real instance.  Sample values are a
function of the position within the current utterance, so states recur and the
search reaches a fixpoint: the verdict then covers histories of any length over
the alphabet.  Oracle (differential): every observation must be bit-identical
to what a freshly constructed instance returns when fed only the operations of
the current, unfinished utterance (the "shadow").
"""
import numpy as np

from .. import cfg, computers, core, explorer, sig

LEVEL = "model_checking"
ASSUMPTIONS = [
    "alphabet of chunk lengths / utterance lengths is the finite set listed in coverage.axes; "
    "utterances are bounded by Nmax samples so that the state space is finite",
    "sample values: generic signal indexed by position within the utterance (plus a float32 "
    "whole-utterance variant); state merging by canonical form as in C01",
]


def _same(a, b, dtype_matters=True):
    if a[0] != b[0]:
        return False
    if a[0] == "exc":
        return a[1] == b[1]
    x, y = a[1], b[1]
    if not (isinstance(x, np.ndarray) and isinstance(y, np.ndarray)):
        return False
    if x.shape != y.shape or (dtype_matters and x.dtype != y.dtype):
        return False
    return bool(np.array_equal(x, y, equal_nan=False)) if x.size else True


def _desc(r):
    if r[0] == "exc":
        return "%s(%s)" % (r[1], r[2])
    a = r[1]
    return "array%s %s" % (getattr(a, "shape", "?"), getattr(a, "dtype", "?"))


class Ctx:
    def __init__(self, c, seed):
        self.c = c
        self.comp0 = cfg.make_computer(c)
        computers.poison(self.comp0)  # np.empty buffers of a fresh instance are arbitrary
        L, S = self.comp0.frame_length, self.comp0.frame_shift
        self.L, self.S = L, S
        self.nmax = c.get("Nmax") or 2 * L + 3
        n = max(self.nmax, 4 * L + 8)
        self.x = sig.signal(seed, n)
        self.x.setflags(write=False)
        self.x32 = self.x.astype(np.float32)
        self.x32.setflags(write=False)
        self.pristine = self.x.copy()
        self.pristine32 = self.x32.copy()
        if c.get("alphabet") == "full":
            ks = list(range(0, L + S + 2))
            ns = list(range(0, 2 * L + 4))
        else:
            ks = sorted(set([0, 1, max(S - 1, 0), S, L // 2, L // 2 + 1, max(L - 1, 0), L, L + S + 1]))
            ns = sorted(set([0, 1, L // 2, L // 2 + 1, L, 2 * L + 3]))
        self.ks, self.ns = ks, ns
        self.css = sorted(set([1, S, L + 1]))
        self.buf = np.zeros(2 * L + 3)  # one persistent, writable buffer object
        self.f32 = bool(c.get("f32", False))
        # dtype of streamed chunks (whole utterances via full32 are separate operations)
        self.xs = self.x32 if c.get("stream_dtype") == "float32" else self.x

    def tags(self, **kw):
        t = dict(kind=self.c["kind"], style=self.comp0.frame_style)
        t.update(kw)
        return t


class St:
    __slots__ = ("comp", "shadow", "pos", "started")

    def __init__(self, comp, shadow, pos, started):
        self.comp, self.shadow, self.pos, self.started = comp, shadow, pos, started


def _ops(ctx, s):
    for k in ctx.ks:
        if s.pos + k <= ctx.nmax:
            yield ["chunk", k]
    yield ["finalize"]
    for n in ctx.ns:
        yield ["full", n]
        if ctx.f32:
            yield ["full32", n]
    for n in ctx.ns[-2:]:
        for cs in ctx.css:
            yield ["fbf", n, cs]
    # the SAME array object handed in again after being refilled in place (a pre-allocated buffer)
    yield ["fullbuf", 0]
    yield ["fullbuf", 1]
    # a non-native (big-endian) float array, as np.frombuffer gives for big-endian files
    yield ["fullbe", ctx.ns[-1]]
    # a call that is refused for its input (integer samples): must leave no trace
    yield ["fullint", ctx.ns[-2]]


def _step(ctx, s, op):
    from pydrobert.speech.compute import frame_by_frame_calculation

    comp = computers.clone(s.comp)
    shadow = computers.clone(s.shadow)
    viol = []
    name = op[0]
    if name == "chunk":
        k = op[1]
        a = computers.call(comp.compute_chunk, ctx.xs[s.pos:s.pos + k])
        b = computers.call(shadow.compute_chunk, ctx.xs[s.pos:s.pos + k])
        pos2, started2 = s.pos + k, True
    elif name == "finalize":
        a = computers.call(comp.finalize)
        b = computers.call(shadow.finalize)
        pos2, started2 = 0, False
    elif name in ("fullbuf", "fullbe", "fullint"):
        if s.started:
            return St(comp, shadow, s.pos, True), [], (name, "skipped_mid_utterance")
        fresh = computers.clone(ctx.comp0)
        if name == "fullbuf":
            v = op[1]
            data = np.array(ctx.x[5 * v: 5 * v + len(ctx.buf)], copy=True)
            ctx.buf[:] = data
            arg, ref_arg = ctx.buf, data.copy()
        elif name == "fullbe":
            data = np.array(ctx.x[:op[1]], copy=True)
            arg, ref_arg = data.astype(">f8"), data
        else:
            arg = np.arange(op[1], dtype=np.int16)
            ref_arg = arg.copy()
            data = arg.copy()
        before = arg.tobytes()
        a = computers.call(comp.compute_full, arg)
        b = computers.call(fresh.compute_full, ref_arg)
        if name == "fullint" and a[0] == "exc" and b[0] == "exc" and a[1] == b[1] == "ValueError":
            # refused for its input by a fresh instance as well: nothing may have changed
            if computers.canon(comp) != computers.canon(s.comp):
                viol.append(core.violation(ctx.tags(what="disturbed", op=name),
                                           "a call refused for its (integer) input changed the computer"))
            return St(comp, shadow, s.pos, s.started), viol, (name, "refused")
        if arg.tobytes() != before:
            viol.append(core.violation(ctx.tags(what="input_modified", op=name),
                                       "%s modified the array it was given" % (op,)))
        ok = a[0] == b[0] and (a[0] == "exc" or (
            a[1].shape == b[1].shape and np.array_equal(np.asarray(a[1], dtype=np.float64),
                                                        np.asarray(b[1], dtype=np.float64))))
        if not ok:
            viol.append(core.violation(
                ctx.tags(what="differs_from_fresh", op=name),
                "%s: got %s, a fresh instance given the same samples returns %s" % (op, _desc(a), _desc(b))))
        computers.poison(comp) if a[0] == "ok" else None
        return (St(comp, computers.clone(ctx.comp0), 0, False) if a[0] == "ok" else None), viol, (name, a[0])
    else:
        n = op[1]
        x = ctx.x32 if name == "full32" else ctx.x
        if name == "fbf":
            a = computers.call(frame_by_frame_calculation, comp, x[:n], op[2])
        else:
            a = computers.call(comp.compute_full, x[:n])
        if s.started:
            # must refuse with ValueError and leave the utterance in progress undisturbed
            if not (a[0] == "exc" and a[1] == "ValueError"):
                viol.append(core.violation(
                    ctx.tags(what="no_refusal", op=name),
                    "%s mid-utterance returned %s instead of raising ValueError" % (name, _desc(a))))
            if computers.canon(comp) != computers.canon(s.comp):
                viol.append(core.violation(
                    ctx.tags(what="disturbed", op=name),
                    "%s mid-utterance changed the state of the computer" % name))
            if not viol and comp.started is not True:
                viol.append(core.violation(ctx.tags(what="started_flag", op=name),
                                           "started became %r after a refused %s" % (comp.started, name)))
            return St(comp, shadow, s.pos, True), viol, (name, "refused")
        fresh = computers.clone(ctx.comp0)
        if name == "fbf":
            b = computers.call(frame_by_frame_calculation, fresh, x[:n], op[2])
        else:
            b = computers.call(fresh.compute_full, x[:n])
        shadow = computers.clone(ctx.comp0)
        pos2, started2 = 0, False
    if a[0] == "exc":
        viol.append(core.violation(
            ctx.tags(what="exception", op=name, exc=a[1]),
            "%s raised %s: %s (fresh instance: %s)" % (op, a[1], a[2], _desc(b))))
        return None, viol, (name, "exc", a[1])
    dtype_matters = not (name == "finalize" and not s.started)
    if not _same(a, b, dtype_matters):
        d = None
        if b[0] == "ok" and a[1].shape == b[1].shape and a[1].size:
            with np.errstate(invalid="ignore"):
                d = float(np.nanmax(np.abs(a[1].astype(float) - b[1].astype(float))))
        viol.append(core.violation(
            ctx.tags(what="differs_from_fresh", op=name),
            "%s at pos %d: got %s, a fresh instance fed only the current utterance gives %s; max|diff|=%r"
            % (op, s.pos, _desc(a), _desc(b), d)))
    if bool(comp.started) != started2:
        viol.append(core.violation(
            ctx.tags(what="started_flag", op=name),
            "started is %r after %s, expected %r" % (comp.started, op, started2)))
    if not (np.array_equal(ctx.x, ctx.pristine) and np.array_equal(ctx.x32, ctx.pristine32)):
        viol.append(core.violation(ctx.tags(what="input_modified", op=name),
                                   "%s modified its input array" % (op,)))
    computers.poison(comp)
    if name == "finalize":
        shadow = computers.clone(ctx.comp0)
    m = a[1].shape[0] if isinstance(a[1], np.ndarray) and a[1].ndim == 2 else -1
    return St(comp, shadow, pos2, started2), viol, (name, m > 0)


def explore_config(c, seed, max_states=20000):
    ctx = Ctx(c, seed)

    def init():
        comp = computers.clone(ctx.comp0)
        computers.poison(comp)
        return St(comp, computers.clone(ctx.comp0), 0, False)

    def key(s):
        return (s.pos, s.started, computers.canon(s.comp))

    st = explorer.bfs(init, lambda s: _ops(ctx, s), lambda s, op: _step(ctx, s, op), key,
                      max_states=max_states)
    for v in st.violations:
        v["case"] = dict(v.get("case") or {}, config=c)
    return core.result(
        st.violations, nontrivial=st.states >= 4, obs=(st.states, len(st.observations)),
        states=st.states, transitions=st.transitions, impl_calls=2 * st.transitions,
        capped=st.capped if (st.capped and not st.violations) else None,
        sample=dict(config=c, states=st.states, transitions=st.transitions, closed=st.closed,
                    max_depth=st.max_depth, chunk_alphabet=ctx.ks, full_alphabet=ctx.ns,
                    distinct_observations=len(st.observations)))


def replay_ops(case, seed):
    ctx = Ctx(case["config"], seed)
    s = St(computers.clone(ctx.comp0), computers.clone(ctx.comp0), 0, False)
    computers.poison(s.comp)
    viol = []
    for op in case["ops"]:
        s2, v, _ = _step(ctx, s, op)
        viol.extend(v)
        if s2 is None:
            break
        s = s2
    for v in viol:
        v["case"] = case
    return core.result(viol)


def configs(tier):
    out = []
    styles = (("causal", False), ("centered", False), ("centered", True))
    if tier == "quick":
        lss = [(5, 2), (6, 2), (7, 3), (8, 8), (4, 1), (3, 3), (9, 4)]
        full = {(5, 2), (6, 2), (4, 1)}
    else:
        lss = [(L, S) for L in range(1, 11) for S in range(1, L + 1)] + [(12, 5), (16, 6), (25, 10)]
        full = set(ls for ls in lss if ls[0] <= 12)
    for L, S in lss:
        for style, kaldi in styles:
            c = dict(kind="stft", bank="tri", L=L, S=S, style=style, kaldi=kaldi,
                     window="hamming", pad=True, energy=True, f32=True)
            out.append(c)
            if (L, S) in full:
                out.append(dict(c, alphabet="full", Nmax=(4 if tier == "quick" else 5) * L))
    for style, kaldi in styles:
        out.append(dict(kind="stft", bank="tri", L=6, S=2, style=style, kaldi=kaldi, window="hamming",
                        pad=False, energy=True, f32=True, stream_dtype="float32"))
    out.append(dict(kind="stft", bank="gabor", L=6, S=2, style="centered", window=None, pad=False,
                    energy=False, f32=True))
    for bank in ("gabor", "gammatone") + (("gammatone_mc", "gabor3") if tier == "thorough" else ()):
        for style in ("causal", "centered"):
            for pad in (True, False):
                for S in ((2, 3) if tier == "quick" else (1, 2, 3, 4, 5, 6)):
                    c = dict(kind="si", bank=bank, S=S, style=style, pad=pad,
                             window="hamming", energy=True, f32=True)
                    out.append(c)
                    if tier == "thorough" or (S == 2 and pad):
                        out.append(dict(c, alphabet="full"))
    for style in ("causal", "centered"):
        out.append(dict(kind="si", bank="gabor", S=2, style=style, pad=True, window="hamming",
                        energy=True, f32=True, stream_dtype="float32"))
    return out


def held_utterances(pt, seed):
    """ONE live computer (no snapshots), three utterances in a row, each either via compute_full or
    via chunks + finalize; every array ever returned is HELD; at the end each must still be
    bit-identical to the copy taken when it was returned and no two of them may share memory
    (an output array re-used for a later utterance overwrites features the caller still holds)."""
    c, plan = pt
    ctx = Ctx(c, seed)
    comp = cfg.make_computer(c)
    held = []
    viol = []
    case = dict(config=c, plan=plan)
    for ui, (mode, n) in enumerate(plan):
        x = sig.signal(seed, n, offset=ui + 1)
        if mode == "full":
            r = computers.call(comp.compute_full, sig.ro(x))
            outs = [r]
        else:
            outs = []
            pos = 0
            for k in (n // 2, n - n // 2):
                outs.append(computers.call(comp.compute_chunk, sig.ro(x[pos:pos + k])))
                pos += k
            outs.append(computers.call(comp.finalize))
        for r in outs:
            if r[0] != "ok":
                viol.append(core.violation(ctx.tags(what="exception", op="held", exc=r[1]),
                                           "plan %r utterance %d raised %s: %s" % (plan, ui, r[1], r[2]), case))
                return core.result(viol)
            held.append((r[1], r[1].copy(), ui))
    for i, (arr, cp, ui) in enumerate(held):
        if arr.tobytes() != cp.tobytes():
            viol.append(core.violation(
                ctx.tags(what="held_result_changed", op="held"),
                "plan %r: features of utterance %d returned earlier were overwritten by a later utterance"
                % (plan, ui), case))
            break
        for j in range(i + 1, len(held)):
            if arr.size and held[j][0].size and np.shares_memory(arr, held[j][0]):
                viol.append(core.violation(ctx.tags(what="results_share_memory", op="held"),
                                           "plan %r: two returned arrays share memory" % (plan,), case))
                break
        if viol:
            break
    return core.result(viol, obs=[c["kind"], len(viol) == 0], sample=case)


def _held_points(tier):
    import itertools

    pts = []
    cfgs = [dict(kind="stft", bank="tri", L=5, S=2, style="causal", kaldi=False, window="hamming", pad=True,
                 energy=True),
            dict(kind="stft", bank="tri", L=6, S=3, style="centered", kaldi=True, window="hamming", pad=True,
                 energy=True),
            dict(kind="si", bank="gabor", S=2, style="centered", pad=True, window="hamming", energy=True),
            dict(kind="si", bank="gammatone", S=3, style="causal", pad=True, window="hamming", energy=True)]
    for c in cfgs:
        L = c.get("L", 14)
        utts = [("full", L), ("full", 2 * L + 3), ("chunks", L + 1), ("chunks", 2 * L + 3), ("full", 1)]
        for plan in itertools.product(utts, repeat=3 if tier == "quick" else 4):
            pts.append((c, [list(u) for u in plan]))
    return pts


def subchecks(tier, seed):
    cs = configs(tier)
    return [core.SubCheck(
        "held_utterances", _held_points(tier), lambda p: held_utterances(p, seed),
        "one live computer, every sequence of 3 (thorough 4) utterances over {compute_full | chunks+finalize} "
        "x lengths; all returned arrays held to the end: unchanged and pairwise disjoint in memory",
        replay=lambda case: held_utterances((case["config"], case["plan"]), seed), kind="explore"),
        core.SubCheck(
        "history_bfs", cs, lambda c: explore_config(c, seed),
        "BFS to fixpoint over histories of chunk/finalize/full/fbf on one real instance; every "
        "observation compared bit-for-bit with a fresh instance fed only the current utterance",
        axes=dict(stft="(L,S) in {(5,2),(6,2),(7,3),(8,8)} x {causal,centered,kaldi}",
                  si="{gabor,gammatone} x {causal,centered} x pad x S",
                  chunk_lengths="{0,1,S-1,S,L//2,L//2+1,L-1,L,L+S+1} (thorough: every k<=L+S+1)",
                  full_lengths="{0,1,L//2,L//2+1,L,2L+3}", Nmax="2L+3 (thorough 4L)"),
        replay=lambda case: replay_ops(case, seed), chunk=1, kind="explore")]
