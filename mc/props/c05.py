"""C05 - filter banks are laid out on the scale as documented, with unit gain (engine L).

Sub-checks (every point of each finite lattice is evaluated, nothing is sampled):

  layout    every bank configuration: centres / band edges against mc/refs/banks.py
            (scale formulas from the literature), ordering, centre inside supports_hz
  triangle  triangular / Fbank banks x DFT widths: the documented triangle at every bin
  response  every filter of every bank whose documented support spans < rate/2:
            gain 1 at the centre (or unit L2 norm), peak position, 3 dB crossings at the
            band edges (erb=False) or ERB = edge spacing (erb=True).  Gabor / gammatone are
            measured on a DTFT of get_impulse_response in a wide buffer (time -> frequency,
            an independent route) and cross-checked on get_frequency_response.
  reject    invalid (low_hz, high_hz) ranges must raise ValueError

A *valid* configuration whose constructor raises is counted (obs "unconstructible:<text>",
trivial point), not reported: the property speaks about the filters of a bank that exists.
"""
import functools
import math
import warnings

import numpy as np

from .. import cfg, computers, core
from ..refs import banks as ref

LEVEL = "exploration"
ASSUMPTIONS = [
    "numpy (exp, matrix product) is trusted; the DTFT used to measure gain / crossings / ERB is "
    "an explicit sum over an un-aliased impulse response (mc/refs/banks.py:dtft)",
    "'support spans less than half the sampling rate' is decided on the *documented* response "
    "(layout + documented bandwidth rule + documented normalisation, threshold "
    "EFFECTIVE_SUPPORT_THRESHOLD), not on the bank's own supports_hz, which a defective "
    "constant can inflate; on a correct bank the two coincide (counted in obs)",
    "sampling rates {1000, 8000, 16000} (even integers): the integer-Nyquist default of three "
    "of the four classes is not distinguished from rate/2",
    "no signal data is involved: pass/fail cannot depend on VERIF_SEED",
]

CLASSNAME = {"tri": "TriangularOverlappingFilterBank", "fbank": "Fbank",
             "gabor": "GaborFilterBank", "gammatone": "ComplexGammatoneFilterBank"}
SCALES = ("mel", "bark", "linear", "octave")
TRI_WIDTHS = (8, 31, 64, 257, 512)
IR_CAP = {"quick": 6000, "thorough": 40000}


def quiet(fn):
    """the library computes NaN supports for some flag combinations and numpy warns about it on
    stderr; the oracles look at the values themselves"""
    @functools.wraps(fn)
    def wrapped(*a, **k):
        with warnings.catch_warnings():
            warnings.simplefilter("ignore", RuntimeWarning)
            with np.errstate(all="ignore"):
                return fn(*a, **k)
    return wrapped


def eps():
    from pydrobert.speech import config

    return float(config.EFFECTIVE_SUPPORT_THRESHOLD)


# ---------------------------------------------------------------- the bank lattice (shared with C06, C07)


def ranges(rate):
    nyq = rate / 2.0
    return [(0.0, None), (20.0, None), (100.0, 0.8 * nyq), (0.0, nyq)]


def flag_sets(kind, orders=(1, 2, 4, 6)):
    if kind in ("tri", "fbank"):
        return [dict(analytic=a) for a in (False, True)]
    if kind == "gabor":
        return [dict(erb=e, scale_l2_norm=l) for e in (False, True) for l in (False, True)]
    return [dict(erb=e, scale_l2_norm=l, order=o, max_centered=m)
            for e in (False, True) for l in (False, True) for o in orders for m in (False, True)]


def bank_lattice(kinds, nfs, rates, orders=(1, 2, 4, 6), scales=SCALES):
    """classes x scales x num_filts x rate x (low, high) x every flag combination.
    A scale is a name or a dict with parameters.  The octave scale is undefined at 0 Hz, so it
    is paired with low_hz > 0 only."""
    out = []
    for kind in kinds:
        for sc in (("mel",) if kind == "fbank" else scales):
            if sc == "octave":
                sc = {"name": "octave", "low_hz": 20.0}
            scname = sc if isinstance(sc, str) else sc["name"]
            for nf in nfs:
                for rate in rates:
                    for low, high in ranges(rate):
                        if scname == "octave" and low <= 0:
                            continue
                        for fl in flag_sets(kind, orders):
                            b = dict(name=kind, num_filts=nf, low_hz=low, sampling_rate=rate)
                            if kind != "fbank":
                                b["scaling_function"] = sc
                            if high is not None:
                                b["high_hz"] = high
                            b.update(fl)
                            out.append(b)
    return out


ALL_KINDS = ("tri", "fbank", "gabor", "gammatone")
RATES = (1000, 8000, 16000)
EXTRA_SCALES = ({"name": "linear", "low_hz": 10.0, "slope_hz": 0.5}, {"name": "octave", "low_hz": 7.5})


def tier_lattice(tier, kinds=ALL_KINDS, orders=(1, 2, 4, 6)):
    """quick: the lattice of DESIGN.md section 3 (C05) in full.  thorough adds large banks (23 and 40
    filters at 8 / 16 kHz) and two re-parameterised scales."""
    out = bank_lattice(kinds, (1, 2, 3, 5, 11), RATES, orders)
    if tier == "thorough":
        out += bank_lattice(kinds, (23, 40), (8000, 16000), orders)
        out += bank_lattice([k for k in kinds if k != "fbank"], (3, 11), RATES, orders, scales=EXTRA_SCALES)
    return out


def bank_tags(b):
    t = dict(bank=CLASSNAME[b["name"]])
    if b["name"] in ("tri", "fbank"):
        t["analytic"] = bool(b.get("analytic", False))
    else:
        t["erb"] = bool(b.get("erb", False))
        t["l2"] = bool(b.get("scale_l2_norm", False))
    if b["name"] == "gammatone":
        t["order"] = int(b.get("order", 4))
        t["max_centered"] = bool(b.get("max_centered", False))
    return t


def build(b):
    """-> ("ok", bank) | ("exc", type, text); the configuration is valid by construction"""
    return computers.call(cfg.make_bank, b)


def ref_layout(b):
    sc = b.get("scaling_function", "mel")
    return ref.layout(b["name"], sc, b["low_hz"], b.get("high_hz"), b["num_filts"],
                      b["sampling_rate"])


def unconstructible(r):
    return core.result(nontrivial=False, obs="unconstructible:%s:%s" % (r[1], r[2][:80]), evals=1,
                       nontrivial_count=0)


def documented_span(b, lay, i):
    """Hz width of the region where the documented response of filter i exceeds the threshold"""
    lo, hi = lay["edges"][i]
    if b["name"] in ("tri", "fbank"):
        return hi - lo
    return ref.ideal_span_hz(b["name"], lo, hi, b["sampling_rate"], eps(), erb=b.get("erb", False),
                             l2=b.get("scale_l2_norm", False), order=b.get("order", 4))


# ---------------------------------------------------------------- constructible


@quiet
def _constructible(b):
    """valid configuration => a bank; a raising constructor is counted (trivial point, the
    exception text goes to the evidence samples), it is not a violation of C05"""
    r = build(b)
    if r[0] == "ok":
        return core.result([], obs=("constructed", b["name"], r[1].num_filts), evals=1, nontrivial_count=1)
    return core.result([], nontrivial=False, obs="unconstructible:%s:%s" % (r[1], r[2][:80]), evals=1,
                       nontrivial_count=0, sample=dict(unconstructible=b, raised="%s: %s" % (r[1], r[2])))


# ---------------------------------------------------------------- layout


@quiet
def _layout(b):
    r = build(b)
    if r[0] != "ok":
        return unconstructible(r)
    bank = r[1]
    tags = bank_tags(b)
    lay = ref_layout(b)
    nf = b["num_filts"]
    viol = []

    def bad(what, detail, i=None):
        viol.append(core.violation(dict(tags, what=what), detail, dict(bank=b, filt=i)))

    if bank.num_filts != nf:
        bad("num_filts", "num_filts %r, constructed with %r" % (bank.num_filts, nf))
        return core.result(viol, obs="num_filts")
    cen = [float(x) for x in bank.centers_hz]
    sup = [(float(a), float(c)) for a, c in bank.supports_hz]
    seen = set()
    for i in range(nf):
        want = lay["centers"][i]
        if not abs(cen[i] - want) <= 1e-9 * max(1.0, abs(want)):
            if "centre" not in seen:
                bad("centre", "filter %d: centers_hz %.12g, documented layout %.12g" % (i, cen[i], want), i)
            seen.add("centre")
        if b["name"] in ("tri", "fbank"):
            wl, wh = lay["edges"][i]
            if not (abs(sup[i][0] - wl) <= 1e-9 * max(1.0, abs(wl))
                    and abs(sup[i][1] - wh) <= 1e-9 * max(1.0, abs(wh))):
                if "edges" not in seen:
                    bad("edges", "filter %d: supports_hz %r, documented vertices (%.12g, %.12g)" % (
                        i, sup[i], wl, wh), i)
                seen.add("edges")
        if i and not cen[i] > cen[i - 1]:
            if "centre_order" not in seen:
                bad("centre_order", "centres %r not strictly increasing at %d" % (cen, i), i)
            seen.add("centre_order")
        if not sup[i][0] < cen[i] < sup[i][1]:
            if "centre_in_support" not in seen:
                bad("centre_in_support", "filter %d: centre %.6g not strictly inside supports_hz %r" % (
                    i, cen[i], sup[i]), i)
            seen.add("centre_in_support")
    return core.result(viol, evals=nf, nontrivial_count=nf, obs=(b["name"], nf, sorted(seen)),
                       sample=dict(bank=b, centers=cen[:3]))


# ---------------------------------------------------------------- triangle


@quiet
def _triangle(b):
    r = build(b)
    if r[0] != "ok":
        return unconstructible(r)
    bank = r[1]
    tags = bank_tags(b)
    rate = b["sampling_rate"]
    analytic = bool(b.get("analytic", False))
    viol, seen = [], set()
    evals = nontriv = 0
    cen = [float(x) for x in bank.centers_hz]
    sup = [(float(a), float(c)) for a, c in bank.supports_hz]
    for i in range(bank.num_filts):
        left, right = sup[i]
        mid = cen[i]
        for w in TRI_WIDTHS:
            evals += 1
            rr = computers.call(bank.get_frequency_response, i, w)
            case = dict(bank=b, filt=i, width=w)
            if rr[0] != "ok":
                if "exception" not in seen:
                    viol.append(core.violation(dict(tags, what="triangle_exception", exc=rr[1]),
                                               "get_frequency_response(%d, %d) raised %s: %s" % (
                                                   i, w, rr[1], rr[2]), case))
                seen.add("exception")
                continue
            got = np.asarray(rr[1])
            if got.shape != (w,):
                viol.append(core.violation(dict(tags, what="triangle_shape"),
                                           "shape %r for width %d" % (got.shape, w), case))
                continue
            if b["name"] == "tri":
                want = ref.tri_response(w, rate, left, mid, right, analytic)
                obs = got.real if np.iscomplexobj(got) else got
            else:
                want = ref.fbank_response_sq(w, rate, left, mid, right, analytic)
                obs = np.abs(got) ** 2
            ok = np.all(np.isfinite(got)) and np.all(np.abs(obs - want) <= 1e-12) and \
                (not np.iscomplexobj(got) or np.all(got.imag == 0)) and np.all(got.real >= 0)
            if np.any(want > 0):
                nontriv += 1
            if not ok:
                if "triangle" not in seen:
                    k = int(np.argmax(np.where(np.isfinite(obs), np.abs(obs - want), np.inf)))
                    viol.append(core.violation(
                        dict(tags, what="triangle"),
                        "filter %d width %d bin %d: response%s %r, documented triangle %r (vertices %r)" % (
                            i, w, k, "" if b["name"] == "tri" else "^2", float(obs[k]), float(want[k]),
                            (left, mid, right)), case))
                seen.add("triangle")
    return core.result(viol, evals=evals, nontrivial_count=nontriv, obs=(b["name"], analytic, sorted(seen)),
                       sample=dict(bank=b, widths=list(TRI_WIDTHS)))


# ---------------------------------------------------------------- response (gain, crossings, ERB, L2)


def centre_width(c_hz, rate, lo=1024, hi=2047):
    """DFT width in [lo, hi] for which c_hz lies closest to a bin (deterministic scan)"""
    best = None
    for w in range(lo, hi + 1):
        x = c_hz * w / rate
        d = abs(x - round(x))
        if best is None or d < best[0] - 1e-15:
            best = (d, w, int(round(x)))
    return best[1], best[2]


def measure_ir(bank, b, i, lo, hi, cap):
    """un-aliased impulse response of filter i and its sample times, or a reason string"""
    kind = b["name"]
    neg, pos = ref.ideal_time_extent(kind, lo, hi, b["sampling_rate"], erb=b.get("erb", False),
                                     order=b.get("order", 4),
                                     max_centered=b.get("max_centered", False), rel=1e-9)
    gap = max(16, (neg + pos) // 8)
    width = pos + gap + neg
    if width > cap:
        return ("skip", "too_long")
    r = computers.call(bank.get_impulse_response, i, width)
    if r[0] != "ok":
        return r
    h = np.asarray(r[1])
    if h.shape != (width,) or not np.all(np.isfinite(h)):
        return ("exc", "NonFinite", "impulse response has shape %r / non-finite values" % (h.shape,))
    peak = float(np.max(np.abs(h)))
    guard = float(np.max(np.abs(h[pos:width - neg])))
    if not peak > 0 or guard > 1e-6 * peak:
        return ("skip", "unresolved")
    nneg = width - (pos + gap // 2)
    return ("ir", h, ref.unwrap_times(width, nneg))


@quiet
def _response(pt, cap):
    b = pt
    r = build(b)
    if r[0] != "ok":
        return unconstructible(r)
    bank = r[1]
    kind = b["name"]
    tags = bank_tags(b)
    rate = float(b["sampling_rate"])
    lay = ref_layout(b)
    e = eps()
    tol = 4 * e
    l2 = bool(b.get("scale_l2_norm", False))
    erb = bool(b.get("erb", False))
    viol, seen = [], set()
    evals = nontriv = 0
    notes = set()

    def bad(what, detail, i, **more):
        key = (what,) + tuple(sorted(more.items()))
        if key not in seen:
            viol.append(core.violation(dict(tags, what=what, **more), detail, dict(bank=b, filt=i)))
        seen.add(key)

    if bank.num_filts != b["num_filts"]:
        return core.result([], nontrivial=False, obs="num_filts")  # reported by `layout`
    own = [(float(a), float(c)) for a, c in bank.supports_hz]
    for i in range(bank.num_filts):
        evals += 1
        lo, hi = lay["edges"][i]
        c = lay["centers"][i]
        span = documented_span(b, lay, i)
        if not span < rate / 2:
            notes.add("out_of_domain")
            continue
        own_in = (own[i][1] - own[i][0]) < rate / 2
        notes.add("own_supports_agree" if own_in else "own_supports_wider")
        nontriv += 1
        halfbw = (hi - lo) / 2 if kind not in ("tri", "fbank") else min(c - lo, hi - c)

        # ---- route 1: get_frequency_response on a width whose grid contains the centre
        w, k = centre_width(c, rate)
        rr = computers.call(bank.get_frequency_response, i, w)
        if rr[0] != "ok":
            bad("exception", "get_frequency_response(%d, %d) raised %s: %s" % (i, w, rr[1], rr[2]), i,
                exc=rr[1], route="frequency")
        else:
            fr = np.abs(np.asarray(rr[1]))
            if not np.all(np.isfinite(fr)):
                bad("nonfinite", "get_frequency_response(%d, %d) has non-finite values" % (i, w), i,
                    route="frequency")
            else:
                km = int(np.argmax(fr))
                dist = min((km - k) % w, (k - km) % w)
                if dist > 1:
                    bad("peak", "filter %d width %d: |response| peaks at bin %d (%.6g Hz, value %.6g), centre "
                        "%.6g Hz is bin %d (value %.6g)" % (i, w, km, km * rate / w, fr[km], c, k, fr[k]),
                        i, route="frequency")
                # how far the response may have fallen between the centre and its nearest bin
                off = abs(c - k * rate / w) / halfbw
                allow = 2 * off if kind in ("tri", "fbank") else off ** 2
                if not l2 and allow <= 0.01:
                    if not abs(fr[k] - 1.0) <= tol + allow:
                        bad("gain", "filter %d width %d: |response| at the centre bin %d (%.6g Hz) is %.6g, "
                            "documented gain 1" % (i, w, k, c, fr[k]), i, route="frequency")
                    if not fr[km] <= 1.0 + tol:
                        bad("gain", "filter %d width %d: max |response| %.6g exceeds 1" % (i, w, fr[km]), i,
                            route="frequency")
        if kind in ("tri", "fbank"):
            continue

        # ---- route 2: DTFT of the impulse response in a wide buffer
        m = measure_ir(bank, b, i, lo, hi, cap)
        if m[0] == "skip":
            notes.add("ir_" + m[1])
            continue
        if m[0] == "exc":
            bad("exception", "get_impulse_response(%d, wide) raised %s: %s" % (i, m[1], m[2]), i,
                exc=m[1], route="impulse")
            continue
        _, h, t = m
        step = (hi - lo) / 64.0
        grid = [c + j * step for j in range(-8, 9)]
        H = np.abs(ref.dtft(h, t, [c, lo, hi] + grid, rate))
        hc, hlo, hhi = float(H[0]), float(H[1]), float(H[2])
        g = H[3:]
        energy = float(np.sum(np.abs(h) ** 2))
        jm = int(np.argmax(g)) - 8
        if abs(jm) > 1:
            bad("peak", "filter %d: |DTFT of impulse response| is largest %d steps of %.4g Hz away from the "
                "centre %.6g Hz (%.6g vs %.6g at the centre)" % (i, jm, step, c, float(np.max(g)), hc),
                i, route="impulse")
        if l2:
            if not abs(math.sqrt(energy) - 1.0) <= tol:
                bad("l2norm", "filter %d: L2 norm of the impulse response is %.6g, documented 1 "
                    "(scale_l2_norm=True)" % (i, math.sqrt(energy)), i)
        else:
            if not abs(hc - 1.0) <= tol:
                bad("gain", "filter %d: |DTFT of impulse response| at the centre %.6g Hz is %.6g, documented "
                    "gain 1" % (i, c, hc), i, route="impulse")
        if hc > 0:
            if erb:
                got = rate * energy / hc ** 2  # Parseval: exactly one period of |H|^2
                if not abs(got - (hi - lo)) <= 0.01 * (hi - lo):
                    bad("erb", "filter %d: equivalent rectangular bandwidth %.6g Hz, documented = edge spacing "
                        "%.6g Hz (ratio %.4f)" % (i, got, hi - lo, got / (hi - lo)), i)
            else:
                for name, v, f in (("low", hlo, lo), ("high", hhi, hi)):
                    p = (v / hc) ** 2
                    if not (0.5 - tol <= p <= 10 ** -0.3 + tol):
                        bad("crossing", "filter %d: |H|^2 at the %s band edge %.6g Hz is %.5f of the peak, "
                            "documented 3 dB point (0.5 .. 0.5012)" % (i, name, f, p), i)
    return core.result(viol, evals=evals, nontrivial_count=nontriv,
                       obs=(kind, l2, erb, sorted(notes), sorted(map(str, seen))),
                       sample=dict(bank=b, in_domain_filters=nontriv))


# ---------------------------------------------------------------- rejection lattice


def reject_points(tier):
    pts = []
    for kind in ("tri", "fbank", "gabor", "gammatone"):
        for sc in (("mel",) if kind == "fbank" else SCALES):
            for nf in (1, 5):
                for rate in (1000, 8000, 16000):
                    nyq = rate / 2.0
                    combos = []
                    for low in (-1.0, -1e-9):
                        for high in (None, nyq, 100.0, low, low - 1):
                            combos.append((low, high, "low_negative"))
                    for low in (20.0, 100.0):
                        for high in (low, low - 1, low / 2):
                            combos.append((low, high, "high_not_above_low"))
                    for low in (0.0, 20.0):
                        for high in (nyq + 1.001, nyq + 1.5, nyq + 100):
                            combos.append((low, high, "high_above_nyquist_plus_1"))
                    for low, high, why in combos:
                        pts.append(dict(name=kind, scale=sc, num_filts=nf, sampling_rate=rate,
                                        low_hz=low, high_hz=high, why=why))
    return pts


@quiet
def _reject(p):
    b = dict(name=p["name"], num_filts=p["num_filts"], sampling_rate=p["sampling_rate"],
             low_hz=p["low_hz"], high_hz=p["high_hz"])
    if p["name"] != "fbank":
        b["scaling_function"] = {"name": "octave", "low_hz": 20.0} if p["scale"] == "octave" else p["scale"]
    if ref.range_is_valid(p["low_hz"], p["high_hz"], p["sampling_rate"]) is not False:
        raise core.HarnessError("rejection lattice contains a range the property does not reject: %r" % (p,))
    r = build(b)
    tags = dict(bank=CLASSNAME[p["name"]], why=p["why"])
    if r[0] == "ok":
        return core.result([core.violation(
            dict(tags, what="accepted"),
            "low_hz=%r high_hz=%r at rate %r was accepted; the documented behaviour is ValueError" % (
                p["low_hz"], p["high_hz"], p["sampling_rate"]), p)], obs="accepted")
    if r[1] != "ValueError":
        return core.result([core.violation(
            dict(tags, what="wrong_exception", exc=r[1]),
            "low_hz=%r high_hz=%r raised %s (%s), documented ValueError" % (
                p["low_hz"], p["high_hz"], r[1], r[2]), p)], obs=r[1])
    return core.result([], obs=(p["why"], r[1]), sample=dict(config=p, raised=r[2][:60]))


# ---------------------------------------------------------------- registration


def _replay_bank(fn):
    def replay(case):
        return fn(case["bank"] if "bank" in case else case)
    return replay


def subchecks(tier, seed):
    banks = tier_lattice(tier)
    resp_banks = list(banks)
    if tier == "quick":
        # the narrow filters of large banks are what lies inside the "< rate/2" domain for low orders
        # (the thorough lattice contains them anyway)
        resp_banks += bank_lattice(("gabor", "gammatone"), (40,), (16000,), scales=("mel",))
    tri_banks = [b for b in banks if b["name"] in ("tri", "fbank")]
    cap = IR_CAP[tier]
    axes = dict(bank=sorted(CLASSNAME), scale=list(SCALES) + (list(EXTRA_SCALES) if tier == "thorough" else []), num_filts=sorted(set(b["num_filts"] for b in banks)),
                rate=[1000, 8000, 16000], low_high="(0,None) (20,None) (100,0.8 Nyq) (0,Nyq); octave: low>0",
                flags="analytic | erb x scale_l2_norm (x order {1,2,4,6} x max_centered)")
    return [
        core.SubCheck(
            "constructible", banks, _constructible,
            "every valid configuration of the lattice is handed to the constructor; non-trivial = a bank "
            "was built. A raising constructor is counted here (points - nontrivial = unconstructible, "
            "exception text in the samples) and is not a violation: C05 speaks about the filters of a "
            "bank that exists", axes=axes),
        core.SubCheck(
            "layout", banks, _layout,
            "every bank of the lattice: centers_hz (and the triangular banks' supports_hz) against the "
            "documented layout recomputed with independent scale formulas, rtol 1e-9; strictly increasing; "
            "centre strictly inside supports_hz. evaluations = filters; trivial = constructor raised "
            "(unconstructible, counted, not a violation)",
            axes=axes, replay=_replay_bank(_layout)),
        core.SubCheck(
            "triangle", tri_banks, _triangle,
            "triangular / Fbank banks x every filter x widths %r: every DFT bin equals the documented "
            "triangle (Fbank: squared response vs triangle in mel), atol 1e-12; non-trivial = the "
            "triangle has a non-zero bin" % (TRI_WIDTHS,),
            axes=dict(axes, width=list(TRI_WIDTHS)), replay=_replay_bank(_triangle)),
        core.SubCheck(
            "response", resp_banks, lambda b: _response(b, cap),
            "every filter of every bank: gain 1 +- 4 eps at the centre (or ||h||2 = 1 +- 4 eps), peak within "
            "one grid step, |H|^2 in [0.5 - 4 eps, 10^-0.3 + 4 eps] at both band edges (erb=False), ERB = "
            "edge spacing +- 1%% (erb=True); DTFT of a wide impulse response and get_frequency_response. "
            "non-trivial = documented support spans < rate/2 (others are outside the property's domain)",
            axes=dict(axes, extra_num_filts="quick: + 40 filters (mel, 16 kHz, Gabor / gammatone)", ir_cap=cap),
            replay=_replay_bank(lambda b: _response(b, cap))),
        core.SubCheck(
            "reject", reject_points(tier), _reject,
            "4 classes x scales x num_filts {1,5} x 3 rates x {low in {-1,-1e-9} x 5 highs; positive high in "
            "{low, low-1, low/2}; high in Nyquist + {1.001, 1.5, 100}}: constructor must raise ValueError; "
            "(Nyquist, Nyquist+1] is left open by the property and not enumerated"),
    ]
