"""C05 - filter banks are laid out on the scale as documented, with unit gain (engine L).

Sub-checks (every point of each finite lattice is evaluated, nothing is sampled):

  layout    every bank configuration: centres / band edges against mc/refs/banks.py
            (scale formulas from the literature), ordering, centre inside supports_hz
  triangle  triangular / Fbank banks x DFT widths x half in {False, True}: the documented triangle at
            every bin
  response  every filter of every bank whose documented support spans < rate/2:
            gain 1 at the centre (or unit L2 norm), peak position, 3 dB crossings at the
            band edges (erb=False) or ERB = edge spacing (erb=True).  Gabor / gammatone are
            measured on a DTFT of get_impulse_response in a wide buffer (time -> frequency,
            an independent route) and cross-checked on get_frequency_response.
  response_grid
            Gabor / gammatone: gain, peak and 3 dB crossings measured ON get_frequency_response for
            every combination of half in {False, True} x DFT width {even, odd}, at widths whose grid
            contains the centre / the band edge
  reject    invalid (low_hz, high_hz) ranges must raise ValueError
  construction_histories
            two banks constructed one after the other in ONE process (every ordered pair of an alphabet
            of configurations: all classes x all flag combinations, and variants in scale parameters /
            rate / number of filters / range), both alive, each judged by the oracles of layout and
            response.  The points of layout / triangle / response themselves are batches of consecutive
            banks, each batch evaluated in one forked child of a process that never built a bank; a
            violation's case is the bank alone (if it reproduces alone in a fresh child) or the batch up
            to and including it, so that every case replays what was executed
  history   call histories on ONE bank object: every sequence of 2 (quick) / 3 (thorough) calls over
            {get_frequency_response(i, w, half), get_impulse_response(i, w)} x {first, last filter}
            x widths whose (width, half) pairs share bin counts; every returned array is held
            until the end of the sequence and then compared with what it was on return
            (bit-identical), with what a fresh bank object returns for that call, and for shared
            memory with the other held arrays

The bank lattice has three parts: the design lattice (even integer rates, scales with their default
parameters), a boundary part with odd and fractional sampling rates, whose top edge sits at / between /
on floor(rate/2) and rate/2, and a part in which the nested scaling-function object carries non-default
parameters (linear: slope_hz 0.001 / 0.5 / 3 with low_hz 0 / 10 / 50; octave: low_hz 1 / 7.5 / 100) for
every bank class that takes a scaling function, at the rates of both other parts.

A fourth part is built with the documented package constant EFFECTIVE_SUPPORT_THRESHOLD lowered (1e-4) or
raised (2e-3) BEFORE construction (restored afterwards); every tolerance stated in units of the threshold
is taken from the value in force.

A *valid* configuration whose constructor raises is counted (obs "unconstructible:<text>",
trivial point), not reported: the property speaks about the filters of a bank that exists.
"""
import contextlib
import copy
import functools
import json
import math
import warnings

import numpy as np

from .. import cfg, computers, core, crash
from ..refs import banks as ref

LEVEL = "exploration"
ASSUMPTIONS = [
    "numpy (exp, matrix product) is trusted; the DTFT used to measure gain / crossings / ERB is "
    "an explicit sum over an un-aliased impulse response (mc/refs/banks.py:dtft)",
    "'support spans less than half the sampling rate' is decided on the *documented* response "
    "(layout + documented bandwidth rule + documented normalisation, threshold "
    "EFFECTIVE_SUPPORT_THRESHOLD), not on the bank's own supports_hz, which a defective "
    "constant can inflate; on a correct bank the two coincide (counted in obs)",
    "sampling rates {1000, 8000, 16000} (even integers) and {1001, 11025, 22050.5} (odd, fractional). At "
    "the odd / fractional rates Fbank, Gabor and gammatone banks are enumerated with an explicit high_hz "
    "<= floor(rate/2) only: their default top edge and whether they must accept a high_hz in "
    "(floor(rate/2), rate/2] is not stated by the property (left open, counted in axes.left_open); the "
    "triangular bank, whose documented default is the Nyquist frequency and which accepts every high_hz "
    "up to it, is enumerated with high_hz in {None, floor(rate/2), between, rate/2}",
    "scale parameters: LinearScaling(low_hz, slope_hz) with slope_hz in {0.001, 0.5, 3} (positive, as "
    "documented: 'the increase in scale corresponding to a 1 Hertz increase') and OctaveScaling(low_hz) "
    "with low_hz in {1, 7.5, 100} at or below the bank's low_hz ('frequencies below this value should "
    "never be queried'); mel and bark have no parameters",
    "history: a response is a function of (bank configuration, filter, width, half) - the property "
    "quantifies over exactly these - so a result that depends on earlier calls on the same object, or "
    "that changes after it was returned, violates it. The differential oracle is a fresh object of the "
    "same class in the same process (agreement to 1e-12, the tolerance of `triangle`; 'unchanged since "
    "it was returned' is bit-exact); state shared between objects (class / module level) is not "
    "explored by it",
    "threshold axis: pydrobert.speech.config.EFFECTIVE_SUPPORT_THRESHOLD is set (default, 1e-4, 2e-3) before "
    "the bank is constructed and restored afterwards; 'eps' in every tolerance is the value in force. Values "
    "other than these three are not explored",
    "response_grid measures get_frequency_response at one DFT width per (filter, parity, measured frequency) "
    "in [96, 256]; between a frequency and its nearest bin the documented response is bounded by its "
    "documented shape (Gaussian / gammatone), see _grid",
    "no signal data is involved: pass/fail cannot depend on VERIF_SEED",
]

CLASSNAME = {"tri": "TriangularOverlappingFilterBank", "fbank": "Fbank",
             "gabor": "GaborFilterBank", "gammatone": "ComplexGammatoneFilterBank"}
SCALES = ("mel", "bark", "linear", "octave")
TRI_WIDTHS = (8, 31, 64, 257, 512, 1001)
IR_CAP = {"quick": 6000, "thorough": 40000}


def quiet(fn):
    """the library computes NaN supports for some flag combinations and numpy warns about it on
    stderr; the oracles look at the values themselves"""
    @functools.wraps(fn)
    def wrapped(*a, **k):
        with warnings.catch_warnings():
            warnings.simplefilter("ignore", RuntimeWarning)
            with np.errstate(all="ignore"):
                return fn(*a, **k)
    return wrapped


def eps():
    from pydrobert.speech import config

    return float(config.EFFECTIVE_SUPPORT_THRESHOLD)


# ---------------------------------------------------------------- the threshold in force (shared with C06, C07)
#
# pydrobert.speech.config.EFFECTIVE_SUPPORT_THRESHOLD is a documented, adjustable package constant.  A bank
# configuration of the lattices may carry the key "threshold": the constant is then set to that value BEFORE
# the bank is constructed and stays in force while the case is evaluated (every oracle takes its tolerance
# from eps(), i.e. from the live value); it is restored afterwards, and every chunk of points runs in a
# forked process of its own.

DOC_THRESHOLD = 5e-4                 # the documented default (config.py); only used to name the direction
THRESHOLDS = (1e-4, 2e-3)            # besides the default: lowered and raised


@contextlib.contextmanager
def threshold_in_force(value):
    from pydrobert.speech import config

    old = config.EFFECTIVE_SUPPORT_THRESHOLD
    if value is not None:
        config.EFFECTIVE_SUPPORT_THRESHOLD = float(value)
    try:
        yield
    finally:
        config.EFFECTIVE_SUPPORT_THRESHOLD = old


def with_threshold(fn):
    """fn(b, ...) runs with b["threshold"] (if any) in force"""
    @functools.wraps(fn)
    def wrapped(b, *a, **k):
        with threshold_in_force(b.get("threshold") if isinstance(b, dict) else None):
            return fn(b, *a, **k)
    return wrapped


def thresholded(banks, thresholds=THRESHOLDS):
    return [dict(b, threshold=t) for t in thresholds for b in banks]


def threshold_tag(t):
    return "lowered" if t < DOC_THRESHOLD else "raised" if t > DOC_THRESHOLD else "default"


# the constant is changed between two reads on ONE bank object: (value in force when the bank is built and its
# supports are read for the first time, value in force when the property is checked); None = the default
THRESHOLD_TRANSITIONS = ((None, 1e-4), (None, 2e-3), (1e-4, None), (2e-3, None))


def threshold_history_run(b, t0, t1, judge):
    """t0 in force: build the bank and read every read-only property once (supports, supports_hz, centres:
    whatever is memoised is memoised now); then t1 in force: judge(bank, eps_before, eps_now).
    -> (what judge returns, demanded) or None if the constructor raised.

    demanded: the triangular / Fbank filters are exactly compactly supported in frequency; their temporal
    `supports` is the only quantity that depends on the threshold, and the property relates it to the
    threshold (the configured one): checked in both directions.  A Gabor / gammatone bank's responses are
    themselves truncated at supports computed for the threshold it was built under, so lowering the constant
    afterwards is left open (counted as skipped); after RAISING it every bound of the property is implied by
    the bound that held when the bank was built, whatever the implementation reads when."""
    from pydrobert.speech import config

    default = config.EFFECTIVE_SUPPORT_THRESHOLD
    try:
        config.EFFECTIVE_SUPPORT_THRESHOLD = default if t0 is None else float(t0)
        e0 = eps()
        r = build(b)
        if r[0] != "ok":
            return None
        bank = r[1]
        _props(bank)
        config.EFFECTIVE_SUPPORT_THRESHOLD = default if t1 is None else float(t1)
        e1 = eps()
        demanded = b["name"] in ("tri", "fbank") or e1 >= e0
        return judge(bank, e0, e1), demanded
    finally:
        config.EFFECTIVE_SUPPORT_THRESHOLD = default


@quiet
def threshold_history_point(pt, judge):
    """pt = dict(bank=, t0=, t1=); judge(bank, b, e1) -> (list of (what, extra_tags, detail, filt, width), evals)"""
    b, t0, t1 = pt["bank"], pt["t0"], pt["t1"]
    got = threshold_history_run(b, t0, t1, lambda bank, e0, e1: (judge(bank, b, e1), e0, e1))
    if got is None:
        return core.result([], nontrivial=False, obs="unconstructible", evals=1, nontrivial_count=0)
    ((found, evals), e0, e1), demanded = got
    direction = "lowered" if e1 < e0 else "raised"
    if not demanded:
        return core.result([], nontrivial=False, obs=("left_open", b["name"], direction), evals=evals,
                           nontrivial_count=0, skipped=evals)
    viol, seen = [], set()
    for what, extra, detail, i, w in found:
        key = (what,) + tuple(sorted(extra.items()))
        if key not in seen:
            viol.append(core.violation(
                dict(bank_tags(b), what=what, threshold_history=direction, **extra),
                "bank built and its supports read with EFFECTIVE_SUPPORT_THRESHOLD = %g, then the constant set to %g "
                "and the same object checked against %g: %s" % (e0, e1, e1, detail),
                dict(bank=b, t0=t0, t1=t1, filt=i, width=w)))
        seen.add(key)
    return core.result(viol, evals=evals, nontrivial_count=evals, obs=(b["name"], direction, sorted(map(str, seen))),
                       sample=dict(bank=b, threshold_before=e0, threshold_now=e1))


def threshold_history_points(banks):
    return [dict(bank=b, t0=t0, t1=t1) for b in banks for t0, t1 in THRESHOLD_TRANSITIONS]


# ---------------------------------------------------------------- the bank lattice (shared with C06, C07)


def ranges(rate):
    nyq = rate / 2.0
    return [(0.0, None), (20.0, None), (100.0, 0.8 * nyq), (0.0, nyq)]


def flag_sets(kind, orders=(1, 2, 4, 6)):
    if kind in ("tri", "fbank"):
        return [dict(analytic=a) for a in (False, True)]
    if kind == "gabor":
        return [dict(erb=e, scale_l2_norm=l) for e in (False, True) for l in (False, True)]
    return [dict(erb=e, scale_l2_norm=l, order=o, max_centered=m)
            for e in (False, True) for l in (False, True) for o in orders for m in (False, True)]


def floor_nyquist(rate):
    return float(math.floor(rate / 2.0))


def odd_ranges(kind, rate):
    """(low, high) pairs of the boundary lattice of C05 for one class at one rate.
    Triangular: the default, floor(rate/2), a value between floor(rate/2) and rate/2, rate/2 (all
    valid: the class documents default = Nyquist and accepts up to it).  The other three classes
    put their default at floor(rate/2) and reject an explicit high_hz above it; the property does
    not decide either, so only explicit values <= floor(rate/2) are enumerated for them."""
    nyq = rate / 2.0
    flo = floor_nyquist(rate)
    highs = [flo, 0.8 * nyq]
    if kind == "tri":
        highs = [None, flo, nyq, 0.8 * nyq]
        if flo < nyq:
            highs.insert(2, (flo + nyq) / 2.0)
    return [(low, high) for low in (0.0, 20.0) for high in highs]


def odd_left_open(banks):
    """number of configurations of the boundary lattice that the property leaves open: each enumerated
    Fbank / Gabor / gammatone bank with high_hz = floor(rate/2) has three siblings (high_hz None, between
    floor(rate/2) and rate/2, rate/2) that are not enumerated"""
    return 3 * sum(1 for b in banks if b["name"] != "tri" and
                   b.get("high_hz") == floor_nyquist(b["sampling_rate"]) < b["sampling_rate"] / 2.0)


def edge_ranges(kind, rate):
    """C06 / C07 speak about every bank that can be constructed: the top edge at every boundary a
    constructor distinguishes - default, floor(rate/2), rate/2, rate/2 + 0.5, rate/2 + 1 (the
    triangular bank tolerates up to 1 Hz above the Nyquist frequency); a class that rejects a
    pair is counted as unconstructible"""
    nyq = rate / 2.0
    highs = [None]
    for h in (floor_nyquist(rate), nyq, nyq + 0.5, nyq + 1.0):
        if h not in highs:
            highs.append(h)
    return [(low, high) for low in (0.0, 20.0) for high in highs]


def bank_lattice(kinds, nfs, rates, orders=(1, 2, 4, 6), scales=SCALES, ranges_fn=None):
    """classes x scales x num_filts x rate x (low, high) x every flag combination.
    A scale is a name or a dict with parameters.  The octave scale is undefined at 0 Hz, so it
    is paired with low_hz > 0 only."""
    if ranges_fn is None:
        ranges_fn = lambda kind, rate: ranges(rate)  # noqa: E731
    out = []
    for kind in kinds:
        for sc in (("mel",) if kind == "fbank" else scales):
            if sc == "octave":
                sc = {"name": "octave", "low_hz": 20.0}
            scname = sc if isinstance(sc, str) else sc["name"]
            for nf in nfs:
                for rate in rates:
                    for low, high in ranges_fn(kind, rate):
                        if scname == "octave" and (low <= 0 or low < sc["low_hz"]):
                            continue    # "frequencies below [the scale's low_hz] should never be queried"
                        for fl in flag_sets(kind, orders):
                            b = dict(name=kind, num_filts=nf, low_hz=low, sampling_rate=rate)
                            if kind != "fbank":
                                b["scaling_function"] = sc
                            if high is not None:
                                b["high_hz"] = high
                            b.update(fl)
                            out.append(b)
    return out


ALL_KINDS = ("tri", "fbank", "gabor", "gammatone")
RATES = (1000, 8000, 16000)
ODD_RATES = (1001, 11025, 22050.5)
EDGE_RATES = (1000, 1001, 2000.5, 8000)
EXTRA_SCALES = ({"name": "linear", "low_hz": 10.0, "slope_hz": 0.5}, {"name": "octave", "low_hz": 7.5})
# Re-parameterised scales (both tiers): the scaling function is a nested configuration object with
# documented parameters of its own (mel and bark have none).  A correct linear scale gives the SAME layout
# for every (low_hz, slope_hz) - a layout is invariant under affine maps of the scale - and a correct
# octave scale the same layout for every low_hz; the reference recomputes it from the documented forward
# / inverse formulas with the parameters as given.  Slopes below and above 1, a scale origin below,
# between and AT the banks' low_hz (an octave scale is only defined at and above its own low_hz: banks
# that start below it are not enumerated).
PARAM_SCALES = (
    {"name": "linear", "low_hz": 10.0, "slope_hz": 0.5},
    {"name": "linear", "low_hz": 50.0, "slope_hz": 3.0},
    {"name": "linear", "low_hz": 0.0, "slope_hz": 0.001},
    {"name": "octave", "low_hz": 7.5},
    {"name": "octave", "low_hz": 1.0},
    {"name": "octave", "low_hz": 100.0},
)
PARAM_KINDS = ("tri", "gabor", "gammatone")          # Fbank has no scaling_function argument (always mel)


def tier_lattice(tier, kinds=ALL_KINDS, orders=(1, 2, 4, 6)):
    """quick: the lattice of DESIGN.md section 3 (C05) in full.  thorough adds large banks (23 and 40
    filters at 8 / 16 kHz) and two re-parameterised scales."""
    out = bank_lattice(kinds, (1, 2, 3, 5, 11), RATES, orders)
    if tier == "thorough":
        out += bank_lattice(kinds, (23, 40), (8000, 16000), orders)
        out += bank_lattice([k for k in kinds if k != "fbank"], (3, 11), RATES, orders, scales=EXTRA_SCALES)
    return out


def param_lattice(tier, orders=(1, 2, 4, 6)):
    """C05 only: the design lattice and the boundary lattice once more, with every re-parameterised scale
    of PARAM_SCALES in place of the default-parameter scales"""
    kinds = PARAM_KINDS
    out = bank_lattice(kinds, (1, 2, 3, 5, 11), RATES, orders, scales=PARAM_SCALES)
    out += bank_lattice(kinds, (1, 2, 3, 5, 11) if tier == "thorough" else (1, 3, 5), ODD_RATES, orders,
                        scales=PARAM_SCALES, ranges_fn=odd_ranges)
    if tier == "thorough":
        out += bank_lattice(kinds, (23, 40), (8000, 16000), orders, scales=PARAM_SCALES)
    return out


def param_response_lattice(tier):
    """the part of param_lattice whose filters are measured (gain, crossings, ERB, L2 norm: expensive)"""
    if tier == "thorough":
        return bank_lattice(PARAM_KINDS, (1, 2, 3, 5, 11), RATES, scales=PARAM_SCALES)
    return bank_lattice(PARAM_KINDS, (3, 11), RATES, orders=(2, 4), scales=PARAM_SCALES)


def odd_lattice(tier, kinds=ALL_KINDS, orders=(1, 2, 4, 6)):
    """the boundary part of the C05 lattice: odd and fractional sampling rates"""
    nfs = (1, 2, 3, 5, 11) if tier == "thorough" else (1, 3, 5)
    return bank_lattice(kinds, nfs, ODD_RATES, orders, ranges_fn=odd_ranges)


def edge_lattice(kinds, orders=(2, 4), nfs=(1, 3)):
    """boundary banks for C06 / C07: even and odd rates x the top edge at every constructor boundary"""
    return bank_lattice(kinds, nfs, EDGE_RATES, orders, ranges_fn=edge_ranges)


def bank_tags(b):
    t = dict(bank=CLASSNAME[b["name"]])
    if b["name"] in ("tri", "fbank"):
        t["analytic"] = bool(b.get("analytic", False))
    else:
        t["erb"] = bool(b.get("erb", False))
        t["l2"] = bool(b.get("scale_l2_norm", False))
    if b["name"] == "gammatone":
        t["order"] = int(b.get("order", 4))
        t["max_centered"] = bool(b.get("max_centered", False))
    if b.get("threshold") is not None:
        t["threshold"] = threshold_tag(b["threshold"])
    return t


def build(b):
    """-> ("ok", bank) | ("exc", type, text); the configuration is valid by construction"""
    if b.get("threshold") is not None:
        if eps() != float(b["threshold"]):
            raise core.HarnessError("bank %r is built while the threshold in force is %r" % (b, eps()))
        b = {k: v for k, v in b.items() if k != "threshold"}
    return computers.call(cfg.make_bank, b)


_ATOMS = (float, int, bool, str, bytes, complex, type(None), np.generic)


def _immutable(v):
    return isinstance(v, _ATOMS) or (isinstance(v, (tuple, frozenset)) and all(_immutable(x) for x in v))


class Pristine:
    """a constructed bank that is never touched (no method called, no property read), only copied.

    Constructing a gammatone bank costs more than the calls of a case, so enumeration hands every case
    a copy: attributes that are immutable through and through (numbers, strings, tuples of them) are
    shared, everything else (a dict, an array, any other object) is deep-copied.  Replays construct.
    Falls back to constructing when the object cannot be copied this way."""

    def __init__(self, b):
        r = build(b)
        if r[0] != "ok":
            raise core.HarnessError("bank %r could be constructed once but not again: %r" % (b, r))
        self.b = b
        self.obj = r[1]
        try:
            attrs = vars(self.obj)
            self.shared = {k: v for k, v in attrs.items() if _immutable(v)}
            self.mutable = [k for k in attrs if k not in self.shared]
        except Exception:
            self.shared = None

    def fresh(self):
        if self.shared is not None:
            try:
                new = object.__new__(type(self.obj))
                new.__dict__.update(self.shared)
                for k in self.mutable:
                    new.__dict__[k] = copy.deepcopy(self.obj.__dict__[k])
                return new
            except Exception:
                pass
        r = build(self.b)
        if r[0] != "ok":
            raise core.HarnessError("bank %r could be constructed once but not again: %r" % (self.b, r))
        return r[1]


def ref_layout(b):
    sc = b.get("scaling_function", "mel")
    return ref.layout(b["name"], sc, b["low_hz"], b.get("high_hz"), b["num_filts"],
                      b["sampling_rate"])


def unconstructible(r):
    return core.result(nontrivial=False, obs="unconstructible:%s:%s" % (r[1], r[2][:80]), evals=1,
                       nontrivial_count=0)


def documented_span(b, lay, i):
    """Hz width of the region where the documented response of filter i exceeds the threshold"""
    lo, hi = lay["edges"][i]
    if b["name"] in ("tri", "fbank"):
        return hi - lo
    return ref.ideal_span_hz(b["name"], lo, hi, b["sampling_rate"], eps(), erb=b.get("erb", False),
                             l2=b.get("scale_l2_norm", False), order=b.get("order", 4))


# ---------------------------------------------------------------- constructible


@quiet
@with_threshold
def _constructible(b):
    """valid configuration => a bank; a raising constructor is counted (trivial point, the
    exception text goes to the evidence samples), it is not a violation of C05"""
    r = build(b)
    if r[0] == "ok":
        return core.result([], obs=("constructed", b["name"], r[1].num_filts), evals=1, nontrivial_count=1)
    return core.result([], nontrivial=False, obs="unconstructible:%s:%s" % (r[1], r[2][:80]), evals=1,
                       nontrivial_count=0, sample=dict(unconstructible=b, raised="%s: %s" % (r[1], r[2])))


# ---------------------------------------------------------------- layout


@quiet
@with_threshold
def _layout(b, bank=None):
    if bank is None:
        r = build(b)
        if r[0] != "ok":
            return unconstructible(r)
        bank = r[1]
    tags = bank_tags(b)
    lay = ref_layout(b)
    nf = b["num_filts"]
    viol = []

    def bad(what, detail, i=None):
        viol.append(core.violation(dict(tags, what=what), detail, dict(bank=b, filt=i)))

    if bank.num_filts != nf:
        bad("num_filts", "num_filts %r, constructed with %r" % (bank.num_filts, nf))
        return core.result(viol, obs="num_filts")
    cen = [float(x) for x in bank.centers_hz]
    sup = [(float(a), float(c)) for a, c in bank.supports_hz]
    seen = set()
    for i in range(nf):
        want = lay["centers"][i]
        if not abs(cen[i] - want) <= 1e-9 * max(1.0, abs(want)):
            if "centre" not in seen:
                bad("centre", "filter %d: centers_hz %.12g, documented layout %.12g" % (i, cen[i], want), i)
            seen.add("centre")
        if b["name"] in ("tri", "fbank"):
            wl, wh = lay["edges"][i]
            if not (abs(sup[i][0] - wl) <= 1e-9 * max(1.0, abs(wl))
                    and abs(sup[i][1] - wh) <= 1e-9 * max(1.0, abs(wh))):
                if "edges" not in seen:
                    bad("edges", "filter %d: supports_hz %r, documented vertices (%.12g, %.12g)" % (
                        i, sup[i], wl, wh), i)
                seen.add("edges")
        if i and not cen[i] > cen[i - 1]:
            if "centre_order" not in seen:
                bad("centre_order", "centres %r not strictly increasing at %d" % (cen, i), i)
            seen.add("centre_order")
        if not sup[i][0] < cen[i] < sup[i][1]:
            if "centre_in_support" not in seen:
                bad("centre_in_support", "filter %d: centre %.6g not strictly inside supports_hz %r" % (
                    i, cen[i], sup[i]), i)
            seen.add("centre_in_support")
    return core.result(viol, evals=nf, nontrivial_count=nf, obs=(b["name"], nf, sorted(seen)),
                       sample=dict(bank=b, centers=cen[:3]))


# ---------------------------------------------------------------- triangle


@quiet
@with_threshold
def _triangle(b):
    r = build(b)
    if r[0] != "ok":
        return unconstructible(r)
    bank = r[1]
    tags = bank_tags(b)
    rate = b["sampling_rate"]
    analytic = bool(b.get("analytic", False))
    viol, seen = [], set()
    evals = nontriv = 0
    cen = [float(x) for x in bank.centers_hz]
    sup = [(float(a), float(c)) for a, c in bank.supports_hz]
    for i in range(bank.num_filts):
        left, right = sup[i]
        mid = cen[i]
        for w, half in [(w, h) for w in TRI_WIDTHS for h in (False, True)]:
            evals += 1
            rr = computers.call(bank.get_frequency_response, i, w, half)
            case = dict(bank=b, filt=i, width=w, half=half)
            htag = dict(half=True) if half else {}
            nbins = w // 2 + 1 if half else w
            if rr[0] != "ok":
                if ("exception", half) not in seen:
                    viol.append(core.violation(dict(tags, what="triangle_exception", exc=rr[1], **htag),
                                               "get_frequency_response(%d, %d, half=%r) raised %s: %s" % (
                                                   i, w, half, rr[1], rr[2]), case))
                seen.add(("exception", half))
                continue
            got = np.asarray(rr[1])
            if got.shape != (nbins,):
                if ("shape", half) not in seen:
                    viol.append(core.violation(dict(tags, what="triangle_shape", **htag),
                                               "shape %r for width %d, half=%r" % (got.shape, w, half), case))
                seen.add(("shape", half))
                continue
            if b["name"] == "tri":
                want = ref.tri_response(w, rate, left, mid, right, analytic)[:nbins]
                obs = got.real if np.iscomplexobj(got) else got
            else:
                want = ref.fbank_response_sq(w, rate, left, mid, right, analytic)[:nbins]
                obs = np.abs(got) ** 2
            ok = np.all(np.isfinite(got)) and np.all(np.abs(obs - want) <= 1e-12) and \
                (not np.iscomplexobj(got) or np.all(got.imag == 0)) and np.all(got.real >= 0)
            if np.any(want > 0):
                nontriv += 1
            if not ok:
                if ("triangle", half) not in seen:
                    k = int(np.argmax(np.where(np.isfinite(obs), np.abs(obs - want), np.inf)))
                    viol.append(core.violation(
                        dict(tags, what="triangle", **htag),
                        "filter %d width %d half=%r bin %d: response%s %r, documented triangle %r (vertices %r)" % (
                            i, w, half, k, "" if b["name"] == "tri" else "^2", float(obs[k]), float(want[k]),
                            (left, mid, right)), case))
                seen.add(("triangle", half))
    return core.result(viol, evals=evals, nontrivial_count=nontriv, obs=(b["name"], analytic, sorted(map(str, seen))),
                       sample=dict(bank=b, widths=list(TRI_WIDTHS), half=[False, True]))


# ---------------------------------------------------------------- response (gain, crossings, ERB, L2)


def centre_width(c_hz, rate, lo=1024, hi=2047):
    """DFT width in [lo, hi] for which c_hz lies closest to a bin (deterministic scan)"""
    best = None
    for w in range(lo, hi + 1):
        x = c_hz * w / rate
        d = abs(x - round(x))
        if best is None or d < best[0] - 1e-15:
            best = (d, w, int(round(x)))
    return best[1], best[2]


def measure_ir(bank, b, i, lo, hi, cap):
    """un-aliased impulse response of filter i and its sample times, or a reason string"""
    kind = b["name"]
    neg, pos = ref.ideal_time_extent(kind, lo, hi, b["sampling_rate"], erb=b.get("erb", False),
                                     order=b.get("order", 4),
                                     max_centered=b.get("max_centered", False), rel=1e-9)
    gap = max(16, (neg + pos) // 8)
    width = pos + gap + neg
    if width > cap:
        return ("skip", "too_long")
    r = limited_call(bank.get_impulse_response, i, width)
    if r[0] != "ok":
        return r
    h = np.asarray(r[1])
    if h.shape != (width,) or not np.all(np.isfinite(h)):
        return ("exc", "NonFinite", "impulse response has shape %r / non-finite values" % (h.shape,))
    peak = float(np.max(np.abs(h)))
    guard = float(np.max(np.abs(h[pos:width - neg])))
    if not peak > 0 or guard > 1e-6 * peak:
        return ("skip", "unresolved")
    nneg = width - (pos + gap // 2)
    return ("ir", h, ref.unwrap_times(width, nneg))


class _TooSlow(BaseException):
    """not an Exception: passes through computers.call"""


CALL_CPU_LIMIT = 30.0   # seconds of CPU time for ONE response call; the slowest on the unchanged tree takes < 0.5


def limited_call(fn, *args):
    """computers.call(fn, *args) under a CPU-time limit -> its result, or ("slow",).
    A bank whose supports are absurd (a defective layout constant) makes the library loop over millions of
    periodic images; the property says nothing about time, so such a call is abandoned and counted, and
    the check terminates."""
    import signal

    def on_timer(signum, frame):
        raise _TooSlow()

    old = signal.signal(signal.SIGPROF, on_timer)
    signal.setitimer(signal.ITIMER_PROF, CALL_CPU_LIMIT)
    try:
        return computers.call(fn, *args)
    except _TooSlow:
        return ("slow",)
    finally:
        signal.setitimer(signal.ITIMER_PROF, 0)
        signal.signal(signal.SIGPROF, old)


@quiet
@with_threshold
def _response(pt, cap, bank=None):
    b = pt
    if bank is None:
        r = build(b)
        if r[0] != "ok":
            return unconstructible(r)
        bank = r[1]
    kind = b["name"]
    tags = bank_tags(b)
    rate = float(b["sampling_rate"])
    lay = ref_layout(b)
    e = eps()
    tol = 4 * e
    l2 = bool(b.get("scale_l2_norm", False))
    erb = bool(b.get("erb", False))
    viol, seen = [], set()
    evals = nontriv = 0
    notes = set()

    def bad(what, detail, i, **more):
        key = (what,) + tuple(sorted(more.items()))
        if key not in seen:
            viol.append(core.violation(dict(tags, what=what, **more), detail, dict(bank=b, filt=i)))
        seen.add(key)

    if bank.num_filts != b["num_filts"]:
        return core.result([], nontrivial=False, obs="num_filts")  # reported by `layout`
    own = [(float(a), float(c)) for a, c in bank.supports_hz]
    cen = [float(x) for x in bank.centers_hz]
    if any(not abs(cen[i] - lay["centers"][i]) <= 1e-9 * max(1.0, abs(lay["centers"][i]))
           for i in range(bank.num_filts)):
        # reported by `layout` (same test).  Gain, peak and crossings are measured AT the documented centres
        # and edges; a bank that is laid out elsewhere has nothing to measure there (and its supports may be
        # so far off that the library loops over millions of periodic images)
        return core.result([], nontrivial=False, obs="layout_differs", evals=bank.num_filts,
                           nontrivial_count=0)
    for i in range(bank.num_filts):
        evals += 1
        lo, hi = lay["edges"][i]
        c = lay["centers"][i]
        span = documented_span(b, lay, i)
        if not span < rate / 2:
            notes.add("out_of_domain")
            continue
        own_in = (own[i][1] - own[i][0]) < rate / 2
        notes.add("own_supports_agree" if own_in else "own_supports_wider")
        nontriv += 1
        halfbw = (hi - lo) / 2 if kind not in ("tri", "fbank") else min(c - lo, hi - c)

        # ---- route 1: get_frequency_response on a width whose grid contains the centre
        w, k = centre_width(c, rate)
        rr = limited_call(bank.get_frequency_response, i, w)
        if rr[0] == "slow":
            notes.add("abandoned_slow_call")
            nontriv -= 1
            break
        if rr[0] != "ok":
            bad("exception", "get_frequency_response(%d, %d) raised %s: %s" % (i, w, rr[1], rr[2]), i,
                exc=rr[1], route="frequency")
        else:
            fr = np.abs(np.asarray(rr[1]))
            if not np.all(np.isfinite(fr)):
                bad("nonfinite", "get_frequency_response(%d, %d) has non-finite values" % (i, w), i,
                    route="frequency")
            else:
                km = int(np.argmax(fr))
                dist = min((km - k) % w, (k - km) % w)
                if dist > 1:
                    bad("peak", "filter %d width %d: |response| peaks at bin %d (%.6g Hz, value %.6g), centre "
                        "%.6g Hz is bin %d (value %.6g)" % (i, w, km, km * rate / w, fr[km], c, k, fr[k]),
                        i, route="frequency")
                # how far the response may have fallen between the centre and its nearest bin
                off = abs(c - k * rate / w) / halfbw
                allow = 2 * off if kind in ("tri", "fbank") else off ** 2
                if not l2 and allow <= 0.01:
                    if not abs(fr[k] - 1.0) <= tol + allow:
                        bad("gain", "filter %d width %d: |response| at the centre bin %d (%.6g Hz) is %.6g, "
                            "documented gain 1" % (i, w, k, c, fr[k]), i, route="frequency")
                    if not fr[km] <= 1.0 + tol:
                        bad("gain", "filter %d width %d: max |response| %.6g exceeds 1" % (i, w, fr[km]), i,
                            route="frequency")
        if kind in ("tri", "fbank"):
            continue

        # ---- route 2: DTFT of the impulse response in a wide buffer
        m = measure_ir(bank, b, i, lo, hi, cap)
        if m[0] == "slow":
            notes.add("abandoned_slow_call")
            break
        if m[0] == "skip":
            notes.add("ir_" + m[1])
            continue
        if m[0] == "exc":
            bad("exception", "get_impulse_response(%d, wide) raised %s: %s" % (i, m[1], m[2]), i,
                exc=m[1], route="impulse")
            continue
        _, h, t = m
        step = (hi - lo) / 64.0
        grid = [c + j * step for j in range(-8, 9)]
        H = np.abs(ref.dtft(h, t, [c, lo, hi] + grid, rate))
        hc, hlo, hhi = float(H[0]), float(H[1]), float(H[2])
        g = H[3:]
        energy = float(np.sum(np.abs(h) ** 2))
        jm = int(np.argmax(g)) - 8
        if abs(jm) > 1:
            bad("peak", "filter %d: |DTFT of impulse response| is largest %d steps of %.4g Hz away from the "
                "centre %.6g Hz (%.6g vs %.6g at the centre)" % (i, jm, step, c, float(np.max(g)), hc),
                i, route="impulse")
        if l2:
            if not abs(math.sqrt(energy) - 1.0) <= tol:
                bad("l2norm", "filter %d: L2 norm of the impulse response is %.6g, documented 1 "
                    "(scale_l2_norm=True)" % (i, math.sqrt(energy)), i)
        else:
            if not abs(hc - 1.0) <= tol:
                bad("gain", "filter %d: |DTFT of impulse response| at the centre %.6g Hz is %.6g, documented "
                    "gain 1" % (i, c, hc), i, route="impulse")
        if hc > 0:
            if erb:
                got = rate * energy / hc ** 2  # Parseval: exactly one period of |H|^2
                if not abs(got - (hi - lo)) <= 0.01 * (hi - lo):
                    bad("erb", "filter %d: equivalent rectangular bandwidth %.6g Hz, documented = edge spacing "
                        "%.6g Hz (ratio %.4f)" % (i, got, hi - lo, got / (hi - lo)), i)
            else:
                for name, v, f in (("low", hlo, lo), ("high", hhi, hi)):
                    p = (v / hc) ** 2
                    if not (0.5 - tol <= p <= 10 ** -0.3 + tol):
                        bad("crossing", "filter %d: |H|^2 at the %s band edge %.6g Hz is %.5f of the peak, "
                            "documented 3 dB point (0.5 .. 0.5012)" % (i, name, f, p), i)
    return core.result(viol, evals=evals, nontrivial_count=nontriv,
                       obs=(kind, l2, erb, sorted(notes), sorted(map(str, seen))),
                       sample=dict(bank=b, in_domain_filters=nontriv))


# ---------------------------------------------------------------- response on the DFT grid: half x width parity


GRID_WIDTHS = (96, 256)


def aligned_width(f_hz, rate, parity, lo=GRID_WIDTHS[0], hi=GRID_WIDTHS[1]):
    """DFT width of the given parity in [lo, hi] whose grid has a bin closest (in Hz) to f_hz -> (w, bin)"""
    best = None
    for w in range(lo, hi + 1):
        if w % 2 != parity:
            continue
        k = int(round(f_hz * w / rate))
        d = abs(f_hz - k * rate / w)
        if best is None or d < best[0] - 1e-12:
            best = (d, w, k)
    return best[1], best[2]


@quiet
@with_threshold
def _grid(b):
    """Gabor / gammatone: gain 1 at the centre, peak at the centre and the 3 dB crossings at the band edges,
    measured ON get_frequency_response for every combination of half in {False, True} and the parity of the
    DFT width: per (filter, parity) one width whose grid contains the centre (to a small fraction of the
    half bandwidth) and one per band edge.  Between a frequency and its nearest bin (distance d) the
    documented response can change by at most (d / halfbw)^2 at the centre and, at a band edge, |H|^2 by
    less than d / halfbw (Gaussian: ln 2 * d / halfbw; gammatone of any order: at most that)."""
    r = build(b)
    if r[0] != "ok":
        return unconstructible(r)
    bank = r[1]
    kind = b["name"]
    tags = bank_tags(b)
    rate = float(b["sampling_rate"])
    lay = ref_layout(b)
    tol = 4 * eps()
    l2 = bool(b.get("scale_l2_norm", False))
    erb = bool(b.get("erb", False))
    viol, seen, notes = [], set(), set()
    evals = nontriv = 0

    def bad(what, detail, i, half, w):
        more = dict(route="frequency_grid", half=bool(half), width_odd=bool(w % 2))
        key = (what,) + tuple(sorted(more.items()))
        if key not in seen:
            viol.append(core.violation(dict(tags, what=what, **more), detail, dict(bank=b, filt=i)))
        seen.add(key)

    if bank.num_filts != b["num_filts"]:
        return core.result([], nontrivial=False, obs="num_filts")
    cen = [float(x) for x in bank.centers_hz]
    if any(not abs(cen[i] - lay["centers"][i]) <= 1e-9 * max(1.0, abs(lay["centers"][i]))
           for i in range(bank.num_filts)):
        return core.result([], nontrivial=False, obs="layout_differs", evals=bank.num_filts, nontrivial_count=0)

    def get(i, w, half):
        rr = limited_call(bank.get_frequency_response, i, w, half)
        if rr[0] == "slow":
            notes.add("abandoned_slow_call")
            return None
        if rr[0] != "ok":
            bad("exception", "get_frequency_response(%d, %d, half=%r) raised %s: %s" % (i, w, half, rr[1], rr[2]),
                i, half, w)
            return None
        fr = np.abs(np.asarray(rr[1]))
        if fr.shape != ((w // 2 + 1 if half else w),) or not np.all(np.isfinite(fr)):
            notes.add("shape_or_nonfinite")     # C06's business
            return None
        return fr

    for i in range(bank.num_filts):
        lo, hi = lay["edges"][i]
        c = lay["centers"][i]
        if not documented_span(b, lay, i) < rate / 2:
            notes.add("out_of_domain")
            continue
        halfbw = (hi - lo) / 2
        for parity in (0, 1):
            for half in (False, True):
                evals += 1
                measured = False
                # ---- centre
                w, k = aligned_width(c, rate, parity)
                fr = get(i, w, half)
                if fr is not None and k < len(fr):
                    km = int(np.argmax(fr))
                    dist = abs(km - k) if half else min((km - k) % w, (k - km) % w)
                    if dist > 1:
                        bad("peak", "filter %d width %d half=%r: |response| peaks at bin %d (%.6g Hz, value %.6g), "
                            "centre %.6g Hz is bin %d (value %.6g)" % (i, w, half, km, km * rate / w, fr[km], c, k,
                                                                      fr[k]), i, half, w)
                    allow = (abs(c - k * rate / w) / halfbw) ** 2
                    if not l2 and allow <= 0.01:
                        measured = True
                        if not abs(fr[k] - 1.0) <= tol + allow:
                            bad("gain", "filter %d width %d half=%r: |response| at the centre bin %d (%.6g Hz) is "
                                "%.6g, documented gain 1" % (i, w, half, k, c, fr[k]), i, half, w)
                        if not fr[km] <= 1.0 + tol:
                            bad("gain", "filter %d width %d half=%r: max |response| %.6g exceeds 1" % (
                                i, w, half, fr[km]), i, half, w)
                # ---- band edges (3 dB points; with unit gain at the centre |H|^2 there is 0.5 .. 0.5012)
                if not l2 and not erb:
                    for name, f in (("low", lo), ("high", hi)):
                        if not 0 <= f <= rate / 2:
                            continue
                        w, k = aligned_width(f, rate, parity)
                        allow = abs(f - k * rate / w) / halfbw
                        if allow > 0.02:
                            notes.add("edge_off_grid")
                            continue
                        fr = get(i, w, half)
                        if fr is None or not k < len(fr):
                            continue
                        measured = True
                        p = float(fr[k]) ** 2
                        if not (0.5 - tol - allow <= p <= 10 ** -0.3 + tol + allow):
                            bad("crossing", "filter %d width %d half=%r: |response|^2 at bin %d (%.6g Hz; %s band edge "
                                "%.6g Hz) is %.5f, documented 3 dB point (0.5 .. 0.5012)" % (
                                    i, w, half, k, k * rate / w, name, f, p), i, half, w)
                if measured:
                    nontriv += 1
    return core.result(viol, evals=evals, nontrivial_count=nontriv,
                       obs=(kind, l2, erb, sorted(notes), sorted(map(str, seen))),
                       sample=dict(bank=b, measured=nontriv))


def grid_lattice(tier):
    nfs = (3, 5, 11) if tier == "thorough" else (3, 11)
    orders = (1, 2, 4, 6) if tier == "thorough" else (2, 4)
    # the expensive banks first (the chunks are handed out in order)
    out = bank_lattice(("gabor", "gammatone"), (40,), (16000,), orders=orders, scales=("mel",))
    out += bank_lattice(("gabor", "gammatone"), nfs, RATES, orders=orders)
    return out


def threshold_lattice(tier):
    """banks built with a lowered / raised EFFECTIVE_SUPPORT_THRESHOLD in force (layout, response, grid)"""
    nfs = (3, 11) if tier == "thorough" else (11,)
    out = bank_lattice(("gabor", "gammatone"), nfs, (8000, 16000), orders=(2, 4), scales=("mel", "linear"))
    out += bank_lattice(("tri", "fbank"), nfs, (8000, 16000), scales=("mel",))
    return thresholded(out)


# ---------------------------------------------------------------- rejection lattice


def reject_points(tier):
    pts = []
    for kind in ("tri", "fbank", "gabor", "gammatone"):
        for sc in (("mel",) if kind == "fbank" else SCALES):
            for nf in (1, 5):
                for rate in reject_rates(tier):
                    nyq = rate / 2.0
                    combos = []
                    for low in (-1.0, -1e-9):
                        for high in (None, nyq, 100.0, low, low - 1):
                            combos.append((low, high, "low_negative"))
                    for low in (20.0, 100.0):
                        for high in (low, low - 1, low / 2):
                            combos.append((low, high, "high_not_above_low"))
                    for low in (0.0, 20.0):
                        for high in (nyq + 1.001, nyq + 1.5, nyq + 100):
                            combos.append((low, high, "high_above_nyquist_plus_1"))
                    for low, high, why in combos:
                        pts.append(dict(name=kind, scale=sc, num_filts=nf, sampling_rate=rate,
                                        low_hz=low, high_hz=high, why=why))
    return pts


@quiet
def _reject(p):
    b = dict(name=p["name"], num_filts=p["num_filts"], sampling_rate=p["sampling_rate"],
             low_hz=p["low_hz"], high_hz=p["high_hz"])
    if p["name"] != "fbank":
        b["scaling_function"] = {"name": "octave", "low_hz": 20.0} if p["scale"] == "octave" else p["scale"]
    if ref.range_is_valid(p["low_hz"], p["high_hz"], p["sampling_rate"]) is not False:
        raise core.HarnessError("rejection lattice contains a range the property does not reject: %r" % (p,))
    r = build(b)
    tags = dict(bank=CLASSNAME[p["name"]], why=p["why"])
    if r[0] == "ok":
        return core.result([core.violation(
            dict(tags, what="accepted"),
            "low_hz=%r high_hz=%r at rate %r was accepted; the documented behaviour is ValueError" % (
                p["low_hz"], p["high_hz"], p["sampling_rate"]), p)], obs="accepted")
    if r[1] != "ValueError":
        return core.result([core.violation(
            dict(tags, what="wrong_exception", exc=r[1]),
            "low_hz=%r high_hz=%r raised %s (%s), documented ValueError" % (
                p["low_hz"], p["high_hz"], r[1], r[2]), p)], obs=r[1])
    return core.result([], obs=(p["why"], r[1]), sample=dict(config=p, raised=r[2][:60]))


# ---------------------------------------------------------------- call histories on one bank object
#
# Shared by C05, C06 and C07 (each with the calls its property observes).  A call is a JSON-able
# list: ["freq", filt, width, half] | ["trunc", filt, width] | ["imp", filt, width].

HISTORY_WIDTHS = (9, 16, 17)  # full at 9, half at 16 and half at 17 all have 9 bins
HISTORY_TOL = 1e-12
METHOD = {"freq": "get_frequency_response", "trunc": "get_truncated_response",
          "imp": "get_impulse_response"}


def call_name(c):
    return METHOD[c[0]] + ("(half)" if c[0] == "freq" and c[3] else "")


def call_text(c):
    if c[0] == "freq":
        return "get_frequency_response(%d, %d%s)" % (c[1], c[2], ", half=True" if c[3] else "")
    return "%s(%d, %d)" % (METHOD[c[0]], c[1], c[2])


def do_call(bank, c):
    if c[0] == "freq":
        return computers.call(bank.get_frequency_response, int(c[1]), int(c[2]), bool(c[3]))
    if c[0] == "trunc":
        return computers.call(bank.get_truncated_response, int(c[1]), int(c[2]))
    if c[0] == "imp":
        return computers.call(bank.get_impulse_response, int(c[1]), int(c[2]))
    raise core.HarnessError("unknown call %r" % (c,))


def _parts(r):
    """result of computers.call -> flat list of parts (arrays stay the objects that were returned)"""
    if r[0] != "ok":
        return [("exc", r[1])]
    v = r[1]
    return list(v) if isinstance(v, (tuple, list)) else [v]


def _snapshot(parts):
    return [np.array(x, copy=True) if isinstance(x, np.ndarray) else x for x in parts]


def _arrays(parts):
    return [x for x in parts if isinstance(x, np.ndarray)]


def _bits_equal(a, b):
    if len(a) != len(b):
        return False
    for x, y in zip(a, b):
        if isinstance(x, np.ndarray) != isinstance(y, np.ndarray):
            return False
        if isinstance(x, np.ndarray):
            if x.dtype != y.dtype or x.shape != y.shape or x.tobytes() != y.tobytes():
                return False
        elif x != y:
            return False
    return True


def _close(a, b, tol=HISTORY_TOL):
    """-> None if the two results agree (same structure, dtype, shape; values to tol), else text"""
    if len(a) != len(b):
        return "%d parts vs %d" % (len(a), len(b))
    for x, y in zip(a, b):
        if isinstance(x, np.ndarray) != isinstance(y, np.ndarray):
            return "%s vs %s" % (type(x).__name__, type(y).__name__)
        if isinstance(x, np.ndarray):
            if x.dtype != y.dtype or x.shape != y.shape:
                return "%s%r vs %s%r" % (x.dtype, x.shape, y.dtype, y.shape)
            if x.size == 0:
                continue
            nx, ny = np.isnan(x), np.isnan(y)
            if np.any(nx != ny):
                return "NaN at bin %d in one of them only" % int(np.argmax(nx != ny))
            d = np.where(nx, 0.0, np.abs(np.where(nx, 0, x) - np.where(ny, 0, y)))
            lim = tol * max(1.0, float(np.max(np.where(ny, 0.0, np.abs(y)))))
            if not np.all(d <= lim):
                k = int(np.argmax(d))
                return "[%d] = %r vs %r (max |diff| %.3g)" % (k, complex(x[k]), complex(y[k]), float(d[k]))
        elif x != y:
            return "%r vs %r" % (x, y)
    return None


def _props(bank):
    return computers.canon_value((bank.num_filts, bank.is_real, bank.is_analytic, bank.is_zero_phase,
                                  tuple(bank.centers_hz), tuple(map(tuple, bank.supports_hz)),
                                  tuple(map(tuple, bank.supports))))


def history_case(b, seq, fresh=None):
    """Run `seq` on ONE new bank object holding every result; -> list of (tags, detail).

    fresh: optional dict repr(call) -> snapshot of what a fresh object returned for that call
    (computed here, one fresh object per call, when missing)."""
    r = build(b)
    if r[0] != "ok":
        return None
    bank = r[1]
    cls = CLASSNAME[b["name"]]

    def want(c):
        k = repr(list(c))
        if fresh is not None and k in fresh:
            return fresh[k]
        rb = build(b)
        if rb[0] != "ok":
            raise core.HarnessError("bank %r constructed once and not twice: %r" % (b, rb))
        v = _snapshot(_parts(do_call(rb[1], c)))
        if fresh is not None:
            fresh[k] = v
        return v

    out = []
    held, snaps = [], []
    for c in seq:
        parts = _parts(do_call(bank, c))
        held.append(parts)
        snaps.append(_snapshot(parts))
    txt = " -> ".join(call_text(c) for c in seq)
    # 1. on return, every result is what a fresh object returns for the same call
    for j, c in enumerate(seq):
        why = _close(snaps[j], want(c))
        if why is not None:
            out.append((dict(bank=cls, what="history_stale", call=call_name(c)),
                        "one object, calls %s: the result of call #%d differs from the result of the same "
                        "call on a fresh object: %s" % (txt, j + 1, why)))
    # 2. at the end of the sequence, every held result is still what it was on return
    for j, c in enumerate(seq):
        if not _bits_equal(held[j], snaps[j]):
            why = _close(held[j], snaps[j], 0.0)
            out.append((dict(bank=cls, what="history_mutated", call=call_name(c)),
                        "one object, calls %s: the array returned by call #%d changed after it was returned "
                        "(held vs copy taken on return: %s)" % (txt, j + 1, why)))
    # 3. no two returned arrays share memory
    arrs = [(j, a) for j, parts in enumerate(held) for a in _arrays(parts)]
    for x in range(len(arrs)):
        for y in range(x + 1, len(arrs)):
            if arrs[x][1].size and arrs[y][1].size and np.shares_memory(arrs[x][1], arrs[y][1]):
                out.append((dict(bank=cls, what="history_alias", call=call_name(seq[arrs[y][0]])),
                            "one object, calls %s: the arrays returned by calls #%d and #%d share memory" % (
                                txt, arrs[x][0] + 1, arrs[y][0] + 1)))
    # 4. the caller owns what it was given: after writing NaN into every returned array, the same
    #    calls on the same object still return what a fresh object returns
    for _, a in arrs:
        if a.size and a.flags.writeable and a.dtype.kind in "fc":
            a[...] = np.nan
    for j, c in enumerate(seq):
        again = _snapshot(_parts(do_call(bank, c)))
        w = want(c)
        why = _close(again, w)
        if why is None:
            continue
        poisoned = any(np.isnan(a).any() for a in _arrays(again) if a.dtype.kind in "fc") and \
            not any(np.isnan(a).any() for a in _arrays(w) if a.dtype.kind in "fc")
        out.append((dict(bank=cls, what="history_scribble" if poisoned else "history_stale", call=call_name(c)),
                    "one object, calls %s, then %s: %s differs from a fresh object: %s" % (
                        txt, "NaN written by the caller into every array it was given" if poisoned
                        else "the same calls once more", call_name(c), why)))
    # 5. the read-only description of the bank is what it is on a fresh object
    rb = build(b)
    if rb[0] == "ok" and _props(bank) != _props(rb[1]):
        out.append((dict(bank=cls, what="history_props"),
                    "one object, calls %s: centers_hz / supports_hz / supports / flags differ from a fresh "
                    "object afterwards" % txt))
    return out


def history_alphabet(b, methods, widths_of_filter):
    """calls = methods x {first, last filter} x widths (x half for "freq")"""
    filts = sorted({0, b["num_filts"] - 1})
    out = []
    for m in methods:
        for i in filts:
            for w in widths_of_filter(i):
                if m == "freq":
                    out.append(["freq", i, w, False])
                elif m == "freq_half":
                    out.append(["freq", i, w, True])
                else:
                    out.append([m, i, w])
    return out


def sequences(alphabet, depth):
    if depth == 0:
        return [[]]
    return [[c] + rest for c in alphabet for rest in sequences(alphabet, depth - 1)]


@quiet
def history_point(pt, alphabet_fn):
    """pt = dict(bank=, depth=, first=index into the alphabet or None): every sequence of `depth`
    calls (starting with `first`) on one fresh object each"""
    b = pt["bank"]
    r = build(b)
    if r[0] != "ok":
        return unconstructible(r)
    alphabet = alphabet_fn(b, r[1])
    if not alphabet:
        return core.result([], nontrivial=False, obs="empty_alphabet", evals=0, nontrivial_count=0)
    fresh = {}
    viol, seen = [], set()
    evals = nontriv = 0
    shared_bins = 0
    heads = alphabet if pt.get("first") is None else [alphabet[pt["first"]]] if pt["first"] < len(alphabet) else []
    for head in heads:
        for rest in sequences(alphabet, pt["depth"] - 1):
            seq = [head] + rest
            evals += 1
            got = history_case(b, seq, fresh)
            if got is None:
                raise core.HarnessError("bank %r could be constructed once but not again" % (b,))
            # non-trivial: two calls of the sequence return arrays of equal length for different arguments
            lens = {}
            for c in seq:
                for a in _arrays(fresh[repr(list(c))]):
                    lens.setdefault(a.shape, set()).add(repr(c))
            if any(len(v) > 1 for v in lens.values()):
                nontriv += 1
            for tags, detail in got:
                key = tuple(sorted(tags.items()))
                if key not in seen:
                    viol.append(core.violation(tags, detail, dict(bank=b, seq=seq)))
                seen.add(key)
    return core.result(viol, evals=evals, nontrivial_count=nontriv,
                       obs=(b["name"], len(alphabet), sorted(map(str, seen))),
                       sample=dict(bank=b, alphabet=alphabet[:6], sequences=evals))


@quiet
def history_replay(case):
    got = history_case(case["bank"], case["seq"])
    if got is None:
        return core.result([], nontrivial=False, obs="unconstructible")
    return core.result([core.violation(tags, detail, case) for tags, detail in got])


def history_banks(tier, kinds=ALL_KINDS, orders=(2, 4), l2s=(False, True), rates=(1000, 16000)):
    """few banks, every flag combination: histories multiply the cost of a bank by |alphabet|^depth"""
    nfs = (1, 3, 11) if tier == "thorough" else (1, 3)
    rates = tuple(rates) + ((11025,) if tier == "thorough" else ())
    out = []
    for b in bank_lattice(kinds, nfs, rates, orders, scales=("mel",),
                          ranges_fn=lambda kind, rate: [(0.0, None)]):
        if "scale_l2_norm" in b and b["scale_l2_norm"] not in l2s:
            continue
        out.append(b)
    return out


def history_points(tier, banks, alphabet_size):
    depth = 3 if tier == "thorough" else 2
    if depth == 2:
        return [dict(bank=b, depth=depth, first=None) for b in banks]
    return [dict(bank=b, depth=depth, first=k) for b in banks for k in range(alphabet_size)]


def _c05_alphabet(b, bank):
    return history_alphabet(b, ("freq", "freq_half", "imp"), lambda i: HISTORY_WIDTHS)


# ---------------------------------------------------------------- batches of lattice points
#
# A bank is a function of its configuration, but the workers of a sub-check evaluate hundreds of points
# one after the other: a violation that depends on which banks the same process built before (a
# module-level cache keyed incompletely) would be reported with a case that does not replay.  The points
# of `layout`, `triangle` and `response` are therefore handed out in batches of consecutive lattice
# points; a batch is evaluated in ONE forked child of a process that never constructs a bank, and
# mc.crash.explore_histories gives every violation a case that replays exactly what was executed: the
# bank alone (confirmed by running it alone in a fresh child) or the batch up to and including it.
# What earlier constructions leave behind is enumerated systematically by `construction_histories`.

BATCH = {"layout": 256, "triangle": 64, "response": 48}


def batches(points, n):
    return [points[i:i + n] for i in range(0, len(points), n)]


def _batch_child(fn):
    def child(seq):
        r = core.jsonable(fn(seq[0]))
        e = int(r.get("evals", 1))
        return dict(viol=[[v["tags"], v["detail"]] for v in r["viol"]],
                    obs=[json.dumps(r.get("obs"), sort_keys=True)], evals=e,
                    nontriv=int(r.get("nontrivial_count", e if r["nontrivial"] else 0)), sample=r.get("sample"))
    return child


def batch_fn(fn):
    def run(batch):
        seqs = [[b] for b in batch]
        viol, results, forks = crash.explore_histories(seqs, _batch_child(fn), dict(batch=batch))
        obs = sorted(set(o for r in results for o in r["obs"]))
        return core.result(viol, evals=sum(r.get("evals", 1) for r in results),
                           nontrivial_count=sum(r.get("nontriv", 0) for r in results), obs=obs, obs_is_set=True,
                           impl_calls=forks, sample=next((r["sample"] for r in results if r.get("sample")), None))
    return run


def batch_replay(fn):
    def replay(case):
        if "kind" not in case:                # a bank alone, in this (fresh) process
            return fn(case["bank"] if "bank" in case else case)
        return core.result(crash.replay_history(case, lambda c: [[b] for b in c["batch"]], _batch_child(fn)))
    return replay


# ---------------------------------------------------------------- construction histories in one process


def construction_alphabet(tier):
    """bank configurations whose constructions are combined: every class x every flag combination
    (gammatone orders 2 and 4), plus, per class, variants that differ from the default-flag configuration
    in exactly one other argument (scale parameters, rate, number of filters, range)"""
    base = dict(num_filts=5, low_hz=0.0, sampling_rate=16000)
    out = []
    for kind in ALL_KINDS:
        for fl in flag_sets(kind, (2, 4)):
            b = dict(base, name=kind)
            if kind != "fbank":
                b["scaling_function"] = "mel"
            b.update(fl)
            out.append(b)
    for kind in ALL_KINDS:
        b0 = dict(base, name=kind)
        if kind != "fbank":
            b0["scaling_function"] = "mel"
            out.append(dict(b0, scaling_function={"name": "linear", "low_hz": 10.0, "slope_hz": 0.5}))
            out.append(dict(b0, scaling_function="bark"))
        out.append(dict(b0, sampling_rate=8000))
        out.append(dict(b0, num_filts=11))
        out.append(dict(b0, low_hz=100.0, high_hz=6400.0))
    return out


def _construction_seqs(tier, first):
    alpha = construction_alphabet(tier)
    return [[alpha[first]]] + [[alpha[first], other] for other in alpha]


def _construction_child(cap):
    def child(seq):
        """construct the banks of seq in order, keep all of them, then judge each one"""
        return _construction_judge(seq, cap)
    return child


@quiet
def _construction_judge(seq, cap):
    built = [build(b) for b in seq]
    viol, obs = [], []
    for j, (b, r) in enumerate(zip(seq, built)):
        if r[0] != "ok":
            obs.append("unconstructible")
            continue
        others = sorted(set(CLASSNAME[x["name"]] for k, x in enumerate(seq) if k != j))
        for res in (_layout(b, r[1]), _response(b, cap, r[1])):
            for v in res["viol"]:
                viol.append([dict(v["tags"], in_construction_history=True, built_first=(j == 0)),
                             "%d banks constructed in one process (%s), all alive; bank #%d (%s; others: %s): %s" % (
                                 len(seq), "; ".join(json.dumps(x, sort_keys=True) for x in seq), j + 1,
                                 CLASSNAME[b["name"]], ", ".join(others) or "none", v["detail"])])
            obs.append(str(core.jsonable(res["obs"])))
    return dict(viol=viol, obs=obs)


def _construction_histories(pt, cap):
    tier, first = pt
    seqs = _construction_seqs(tier, first)
    viol, results, forks = crash.explore_histories(seqs, _construction_child(cap), dict(tier=tier, first=first))
    obs = sorted(set(o for r in results for o in r["obs"]))
    return core.result(viol, evals=sum(len(q) for q in seqs), nontrivial_count=sum(len(q) for q in seqs if len(q) > 1),
                       obs=obs, obs_is_set=True, impl_calls=forks,
                       sample=dict(first_bank=seqs[0][0], inner="alone, then followed by every bank of the alphabet"))


def _construction_replay(case, cap):
    return core.result(crash.replay_history(case, lambda c: _construction_seqs(c["tier"], c["first"]),
                                            _construction_child(cap)))


# ---------------------------------------------------------------- low gammatone orders, measured
#
# A first-order gammatone (a one-pole filter) falls off like 1/f: its documented support spans less than
# half the sampling rate only when the band is a few thousandths of the rate wide, which none of the
# design ranges is.  This lattice gives such bands: two filters on a linear scale whose band edges are
# rate/8000 apart, so that order 1 (without L2 scaling) and order 2 (every flag combination) are INSIDE
# the property's domain and are measured by the oracle of `response` (gain, peak, crossings / ERB, L2 norm).
# With scale_l2_norm the documented peak of an order-1 filter is sqrt(2/alpha) and it is outside the domain
# at every feasible width (counted as out_of_domain).

LOW_ORDER_CAP = 120000


def low_order_lattice(tier):
    rates = (1000, 8000, 16000) if tier == "thorough" else (8000,)
    scales = ("linear", "mel") if tier == "thorough" else ("linear",)
    out = []
    for rate in rates:
        low = rate / 8.0
        for sc in scales:
            for fl in flag_sets("gammatone", (1, 2)):
                out.append(dict(name="gammatone", num_filts=2, low_hz=low, high_hz=low + 3.0 * rate / 8000.0,
                                sampling_rate=rate, scaling_function=sc, **fl))
    # the expensive ones (order 1) first
    return sorted(out, key=lambda b: b["order"])


# ---------------------------------------------------------------- numpy's floating-point error state
#
# A response is a function of (configuration, filter, width, half): what numpy is told to do about
# floating-point exceptions (np.seterr / np.errstate, a process-wide setting of the CALLER) is not an
# argument.  Every cell of this lattice is clean on the unchanged tree under
# np.errstate(divide="raise", over="raise", invalid="raise") - no operation of the library divides by
# zero, overflows or produces NaN there (probed: 1712 banks x 2 filters x 6 calls) - so the same objects
# and values are demanded under that state as under numpy's default state.  Underflow is left alone
# (a Gaussian tail underflows legitimately).

ERR_RAISE = dict(divide="raise", over="raise", invalid="raise")
ERR_CALLS = (("imp", 64), ("imp", 700), ("freq", 64, False), ("freq", 257, True), ("freq", 64, True))
ERR_PROPS = ("centers_hz", "supports_hz", "supports")


def errstate_lattice(tier):
    nfs = (1, 3, 11) if tier == "thorough" else (1, 3)
    return bank_lattice(ALL_KINDS, nfs, (1000, 16000), orders=(1, 2, 4),
                        ranges_fn=lambda kind, rate: [(0.0, None), (100.0, 0.8 * rate / 2.0)])


def _errstate(b):
    tags = bank_tags(b)
    with warnings.catch_warnings():
        warnings.simplefilter("ignore", RuntimeWarning)
        with np.errstate(divide="warn", over="warn", invalid="warn", under="ignore"):
            r0 = build(b)
        if r0[0] != "ok":
            return unconstructible(r0)
        viol, seen = [], set()

        def bad(what, call, detail, i=None, **more):
            key = (what, call) + tuple(sorted(more.items()))
            if key not in seen:
                viol.append(core.violation(dict(tags, what=what, call=call, **more), detail, dict(bank=b, filt=i)))
            seen.add(key)

        with np.errstate(**ERR_RAISE):
            r1 = build(b)
        if r1[0] != "ok":
            bad("errstate_exception", "constructor", "the constructor raised %s (%s) under np.errstate(%s) and "
                "succeeded under numpy's default error state" % (r1[1], r1[2], ERR_RAISE), exc=r1[1])
            return core.result(viol, obs=("ctor", r1[1]))
        bank0, bank1 = r0[1], r1[1]
        evals = 0
        for p in ERR_PROPS:
            evals += 1
            with np.errstate(divide="warn", over="warn", invalid="warn", under="ignore"):
                a = computers.call(getattr, bank0, p)
            with np.errstate(**ERR_RAISE):
                c = computers.call(getattr, bank1, p)
            if a[0] == "ok" and c[0] != "ok":
                bad("errstate_exception", p, "%s raised %s (%s) under np.errstate(%s) and not under the default "
                    "state" % (p, c[1], c[2], ERR_RAISE), exc=c[1])
            elif a[0] == "ok" and computers.canon_value(a[1]) != computers.canon_value(c[1]):
                bad("errstate_values", p, "%s differs between np.errstate(%s) and the default state: %r vs %r" % (
                    p, ERR_RAISE, c[1], a[1]))
        for i in sorted({0, b["num_filts"] - 1}):
            for spec in ERR_CALLS:
                c_ = [spec[0], i] + list(spec[1:])
                evals += 1
                with np.errstate(divide="warn", over="warn", invalid="warn", under="ignore"):
                    a = do_call(bank0, c_)
                with np.errstate(**ERR_RAISE):
                    c = do_call(bank1, c_)
                if a[0] != "ok":
                    continue        # what the call does under the default state is judged elsewhere
                if c[0] != "ok":
                    bad("errstate_exception", call_name(c_), "%s raised %s (%s) under np.errstate(%s); under "
                        "numpy's default error state it returns a result" % (call_text(c_), c[1], c[2], ERR_RAISE),
                        i, exc=c[1])
                elif not _bits_equal(_parts(a), _parts(c)):
                    bad("errstate_values", call_name(c_), "%s under np.errstate(%s) differs from the result under "
                        "the default state: %s" % (call_text(c_), ERR_RAISE, _close(_parts(c), _parts(a), 0.0)), i)
    return core.result(viol, evals=evals, nontrivial_count=evals, obs=(b["name"], sorted(map(str, seen))),
                       sample=dict(bank=b, calls=[list(c) for c in ERR_CALLS]))


# ---------------------------------------------------------------- scaling-function OBJECTS with a past
#
# LinearScaling.low_hz / slope_hz and OctaveScaling.low_hz are documented public attributes.  The scale a
# bank is laid out on is the scale object AS IT IS when the bank is constructed: an object whose attributes
# were re-assigned after its construction (directly, after it was already used, or on a copy.copy /
# copy.deepcopy / pickle round trip of a template object) must give the layout of a freshly constructed
# scale with those parameters, and the template that was copied must keep its own.

SCALE_ROUTES = ("assign", "assign_after_use", "copy", "deepcopy", "pickle")
SCALE_TEMPLATES = {"linear": ({"name": "linear", "low_hz": 0.0, "slope_hz": 1.0},
                              {"name": "linear", "low_hz": 300.0, "slope_hz": 0.01}),
                   "octave": ({"name": "octave", "low_hz": 20.0}, {"name": "octave", "low_hz": 440.0})}


def scale_object_points(tier):
    nfs = (1, 3, 11) if tier == "thorough" else (3, 11)
    banks = bank_lattice(PARAM_KINDS, nfs, (1000, 16000), orders=(4,), scales=PARAM_SCALES)
    if tier != "thorough":
        # the layout does not depend on the flags: default flags, and one non-default combination per class
        keep = (dict(analytic=False), dict(analytic=True), dict(erb=False, scale_l2_norm=False),
                dict(erb=True, scale_l2_norm=True))
        banks = [b for b in banks if any(all(b.get(k) == v for k, v in f.items()) for f in keep)
                 and (b["name"] != "gammatone" or b["max_centered"] == b["erb"])]
    out = []
    for b in banks:
        for t in range(2):
            for route in SCALE_ROUTES:
                out.append(dict(bank=b, template=t, route=route))
    return out


def _bank_on(b, scale_obj):
    from pydrobert.speech import filters

    kw = {k: v for k, v in b.items() if k not in ("name", "scaling_function", "threshold")}
    cls = {"tri": filters.TriangularOverlappingFilterBank, "gabor": filters.GaborFilterBank,
           "gammatone": filters.ComplexGammatoneFilterBank}[b["name"]]
    return cls(scale_obj, **kw)


def _reparameterised(template, new, route):
    """-> (scale object carrying the parameters `new`, the template object or None)"""
    import pickle

    t = cfg.make_scale(template)
    if route == "assign":
        s, t = t, None
    elif route == "assign_after_use":
        t.hertz_to_scale(1000.0), t.scale_to_hertz(t.hertz_to_scale(2000.0))
        s, t = t, None
    elif route == "copy":
        s = copy.copy(t)
    elif route == "deepcopy":
        s = copy.deepcopy(t)
    elif route == "pickle":
        s = pickle.loads(pickle.dumps(t))
    else:
        raise core.HarnessError("unknown route %r" % (route,))
    for k, v in new.items():
        if k != "name":
            if not hasattr(s, k):
                raise core.HarnessError("scale %r has no attribute %r" % (s, k))
            setattr(s, k, v)
    return s, t


@quiet
def _scale_object(pt):
    b, route = pt["bank"], pt["route"]
    new = b["scaling_function"]
    template = SCALE_TEMPLATES[new["name"]][pt["template"]]
    s, t = _reparameterised(template, new, route)
    viol = []
    evals = nontriv = 0
    todo = [(b, s, "reparameterised")]
    if t is not None:
        bt = dict(b, scaling_function=template)
        if template["name"] != "octave" or b["low_hz"] >= template["low_hz"]:
            todo.append((bt, t, "template"))
    notes = []
    for conf, obj, which in todo:
        r = computers.call(_bank_on, conf, obj)
        if r[0] != "ok":
            # a fresh scale with these parameters decides whether the configuration is constructible
            notes.append("unconstructible" if build(conf)[0] != "ok" else "object_only_unconstructible")
            if notes[-1] == "object_only_unconstructible":
                viol.append(core.violation(
                    dict(bank_tags(conf), what="exception", scale_object=route, judged=which, exc=r[1]),
                    "bank on a %s scale object (%s of %r, then set to %r) raised %s: %s; a fresh scale with these "
                    "parameters is accepted" % (new["name"], route, template, new, r[1], r[2]), pt))
            continue
        res = _layout(conf, r[1])
        evals += res.get("evals", 1)
        nontriv += res.get("nontrivial_count", 0)
        for v in res["viol"]:
            viol.append(core.violation(
                dict(v["tags"], scale_object=route, judged=which),
                "scale object built as %r, route %s, attributes then set to %r; bank on the %s object: %s" % (
                    template, route, new, which, v["detail"]), pt))
    return core.result(viol, evals=evals, nontrivial_count=nontriv,
                       obs=(b["name"], new["name"], route, sorted(notes), sorted(set(v["tags"]["what"] for v in viol))),
                       sample=pt)


# ---------------------------------------------------------------- registration


def _replay_bank(fn):
    def replay(case):
        return fn(case["bank"] if "bank" in case else case)
    return replay


def reject_rates(tier):
    return RATES + ODD_RATES


def subchecks(tier, seed):
    design = tier_lattice(tier)
    odd = odd_lattice(tier)
    param = param_lattice(tier)
    thr = threshold_lattice(tier)
    banks = design + odd + param + thr
    grid_banks = [b for b in thr if b["name"] in ("gabor", "gammatone")] + grid_lattice(tier)
    # gain / crossings / ERB are measured per filter (expensive): the boundary part takes part with its
    # compactly supported classes, whose route is cheap; its layout is checked for all four classes
    resp_banks = design + [b for b in odd if b["name"] in ("tri", "fbank")]
    resp_banks += [b for b in param_response_lattice(tier) if b not in design]
    resp_banks += thr
    if tier == "quick":
        # the narrow filters of large banks are what lies inside the "< rate/2" domain for low orders
        # (the thorough lattice contains them anyway)
        resp_banks += bank_lattice(("gabor", "gammatone"), (40,), (16000,), scales=("mel",))
    tri_banks = [b for b in banks if b["name"] in ("tri", "fbank")]
    cap = IR_CAP[tier]
    left_open = odd_left_open(odd)
    axes = dict(bank=sorted(CLASSNAME), scale=list(SCALES) + list(PARAM_SCALES), num_filts=sorted(set(b["num_filts"] for b in banks)),
                rate=list(RATES) + list(ODD_RATES),
                low_high="rates %r: (0,None) (20,None) (100,0.8 Nyq) (0,Nyq); octave: low>0 and low >= the "
                         "scale's own low_hz" % (RATES,),
                scale_parameters="every re-parameterised scale x Triangular / Gabor / gammatone x num_filts x "
                                 "rates (even, odd, fractional) x (low, high) x every flag combination "
                                 "(constructible, layout, triangle); response: num_filts {3, 11}, gammatone "
                                 "orders {2, 4} in the quick tier",
                low_high_boundary="rates %r, num_filts %r: low {0, 20} x high {floor(rate/2), 0.8 Nyq} and, for the "
                                  "triangular bank, {None, between floor(rate/2) and rate/2, rate/2}" % (
                                      ODD_RATES, sorted(set(b["num_filts"] for b in odd))),
                left_open="%d configurations (Fbank / Gabor / gammatone at odd or fractional rates with high_hz "
                          "None or in (floor(rate/2), rate/2]) are not enumerated: the property does not say "
                          "what their top edge is or that they are accepted" % left_open,
                flags="analytic | erb x scale_l2_norm (x order {1,2,4,6} x max_centered)",
                threshold="EFFECTIVE_SUPPORT_THRESHOLD in force when the bank is built: the default, and %r for "
                          "%d banks (mel / linear, 8 / 16 kHz, every range and flag combination, gammatone orders "
                          "2 and 4); every tolerance is taken from the value in force" % (THRESHOLDS, len(thr)))
    hist_banks = history_banks(tier)
    low_order = low_order_lattice(tier)
    err_banks = errstate_lattice(tier)
    scale_pts = scale_object_points(tier)
    hist_alpha = 3 * 2 * len(HISTORY_WIDTHS)
    return [
        core.SubCheck(
            "constructible", banks, _constructible,
            "every valid configuration of the lattice is handed to the constructor; non-trivial = a bank "
            "was built. A raising constructor is counted here (points - nontrivial = unconstructible, "
            "exception text in the samples) and is not a violation: C05 speaks about the filters of a "
            "bank that exists", axes=axes),
        core.SubCheck(
            "layout", batches(banks, BATCH["layout"]), batch_fn(_layout),
            "every bank of the lattice (points = batches of consecutive banks, one forked child per batch): "
            "centers_hz (and the triangular banks' supports_hz) against the "
            "documented layout recomputed with independent scale formulas, rtol 1e-9; strictly increasing; "
            "centre strictly inside supports_hz. evaluations = filters; trivial = constructor raised "
            "(unconstructible, counted, not a violation)",
            axes=dict(axes, banks=len(banks), batch=BATCH["layout"]), replay=batch_replay(_layout), chunk=1),
        core.SubCheck(
            "triangle", batches(tri_banks, BATCH["triangle"]), batch_fn(_triangle),
            "(points = batches of consecutive banks) triangular / Fbank banks x every filter x widths %r x half in {False, True} "
            "(half=True: the leading width//2 + 1 bins): every DFT bin equals the documented "
            "triangle (Fbank: squared response vs triangle in mel), atol 1e-12; non-trivial = the "
            "triangle has a non-zero bin" % (TRI_WIDTHS,),
            axes=dict(axes, width=list(TRI_WIDTHS), banks=len(tri_banks), batch=BATCH["triangle"]),
            replay=batch_replay(_triangle), chunk=1),
        core.SubCheck(
            "response", batches(resp_banks, BATCH["response"]), batch_fn(lambda b: _response(b, cap)),
            "(points = batches of consecutive banks) every filter of every bank: gain 1 +- 4 eps at the centre (or ||h||2 = 1 +- 4 eps), peak within "
            "one grid step, |H|^2 in [0.5 - 4 eps, 10^-0.3 + 4 eps] at both band edges (erb=False), ERB = "
            "edge spacing +- 1%% (erb=True); DTFT of a wide impulse response and get_frequency_response. "
            "non-trivial = documented support spans < rate/2 (others are outside the property's domain)",
            axes=dict(axes, extra_num_filts="quick: + 40 filters (mel, 16 kHz, Gabor / gammatone)", ir_cap=cap,
                      boundary_part="triangular / Fbank only", banks=len(resp_banks), batch=BATCH["response"],
                      scale_parameters="every re-parameterised scale x Triangular / Gabor / gammatone x rates "
                                       "%r x (low, high) x flags; quick: num_filts {3, 11}, gammatone orders "
                                       "{2, 4}" % (RATES,)),
            replay=batch_replay(lambda b: _response(b, cap)), chunk=1),
        core.SubCheck(
            "response_grid", grid_banks, _grid,
            "Gabor / gammatone banks (4 scales x num_filts x rates %r x ranges x flags; 40 filters at 16 kHz; the "
            "banks built under a lowered / raised threshold) x every filter whose documented support spans < "
            "rate/2 x half in {False, True} x DFT width {even, odd}: measured ON get_frequency_response at a "
            "width in %r of that parity whose grid contains the centre (resp. the band edge) to within 0.1 (0.02) "
            "of the half bandwidth: gain 1 +- 4 eps at the centre bin, peak within one bin of it, |response|^2 in "
            "[0.5 - 4 eps, 10^-0.3 + 4 eps] at both band edges (erb=False, no L2 scaling). evaluations = (filter, "
            "parity, half) triples; non-trivial = a gain or a crossing was measured" % (RATES, GRID_WIDTHS),
            axes=dict(bank=["GaborFilterBank", "ComplexGammatoneFilterBank"], half=[False, True],
                      width_parity=["even", "odd"], num_filts=sorted(set(b["num_filts"] for b in grid_banks)),
                      rate=sorted(set(b["sampling_rate"] for b in grid_banks)), scale=list(SCALES),
                      threshold=["default"] + list(THRESHOLDS)),
            replay=_replay_bank(_grid), chunk=4),
        core.SubCheck(
            "construction_histories", [(tier, i) for i in range(len(construction_alphabet(tier)))],
            lambda pt: _construction_histories(pt, cap),
            "constructions in ONE process: an alphabet of %d bank configurations (4 classes x every flag "
            "combination, gammatone orders 2 and 4, mel, 5 filters, 16 kHz; per class variants with a "
            "re-parameterised linear scale, the bark scale, rate 8000, 11 filters, range 100..6400 Hz); per "
            "point one first bank, alone and followed by EVERY bank of the alphabet (ordered pairs, the pair "
            "of equal configurations included), the histories of a point one after the other in one forked "
            "child of a process that never built a bank; both banks stay alive and are judged after the second "
            "is built, by the oracles of `layout` and `response`; the first violation of every signature is "
            "confirmed by running its history alone in a fresh child. evaluations = banks judged; non-trivial "
            "= banks of two-bank histories" % len(construction_alphabet(tier)),
            axes=dict(alphabet=construction_alphabet(tier), depth=2),
            replay=lambda case: _construction_replay(case, cap), kind="histories", chunk=1),
        core.SubCheck(
            "reject", reject_points(tier), _reject,
            "4 classes x scales x num_filts {1,5} x rates %r x {low in {-1,-1e-9} x 5 highs; positive high in "
            "{low, low-1, low/2}; high in Nyquist + {1.001, 1.5, 100}}: constructor must raise ValueError; "
            "(Nyquist, Nyquist+1] is left open by the property and not enumerated" % (reject_rates(tier),)),
        core.SubCheck(
            "history", history_points(tier, hist_banks, hist_alpha), lambda pt: history_point(pt, _c05_alphabet),
            "call histories on ONE bank object: 4 classes x every flag combination (gammatone orders 2, 4) x "
            "num_filts x rates (mel, low 0, default high) x every sequence of %d calls over "
            "{get_frequency_response(half False / True), get_impulse_response} x {first, last filter} x widths %r "
            "(full at 9, half at 16 and 17 all have 9 bins). Every result is held to the end of the sequence; "
            "then (1) its copy taken on return agrees (1e-12) with a fresh object's result for that call, (2) the "
            "held array is bit-identical to that copy, (3) no two held arrays share memory, (4) after the caller "
            "overwrites the held arrays with NaN the same calls still agree with a fresh object, (5) centres / "
            "supports are unchanged. evaluations = sequences; non-trivial = two different calls of the sequence "
            "return arrays of equal shape" % (3 if tier == "thorough" else 2, HISTORY_WIDTHS),
            axes=dict(bank=sorted(CLASSNAME), num_filts=sorted(set(b["num_filts"] for b in hist_banks)),
                      rate=sorted(set(b["sampling_rate"] for b in hist_banks)), width=list(HISTORY_WIDTHS),
                      depth=3 if tier == "thorough" else 2, alphabet=hist_alpha),
            replay=history_replay, chunk=1, kind="histories"),
        core.SubCheck(
            "response_low_order", low_order, lambda b: _response(b, LOW_ORDER_CAP),
            "gammatone banks of order 1 and 2 whose bands are narrow enough for their documented support to span < "
            "rate/2 (2 filters, band edges rate/8000 apart on a linear scale, rates %r) x erb x scale_l2_norm x "
            "max_centered: the oracle of `response` (finite impulse response, gain 1 / unit L2 norm, peak, 3 dB "
            "crossings / ERB) on every filter. non-trivial = the filter is inside the domain (order 1 with "
            "scale_l2_norm never is: its documented peak is sqrt(2/alpha))" % (
                sorted(set(b["sampling_rate"] for b in low_order)),),
            axes=dict(order=[1, 2], erb=[False, True], scale_l2_norm=[False, True], max_centered=[False, True],
                      rate=sorted(set(b["sampling_rate"] for b in low_order)), ir_cap=LOW_ORDER_CAP),
            replay=_replay_bank(lambda b: _response(b, LOW_ORDER_CAP)), chunk=1),
        core.SubCheck(
            "errstate", err_banks, _errstate,
            "environment: 4 classes x 4 scales x num_filts x rates {1000, 16000} x 2 ranges x every flag combination "
            "(gammatone orders 1, 2, 4) x {constructor, centers_hz, supports_hz, supports, and for the first and "
            "last filter get_impulse_response at 64 / 700, get_frequency_response at 64 / 257 half / 64 half}: "
            "under np.errstate(divide='raise', over='raise', invalid='raise') nothing raises that does not raise "
            "under numpy's default error state and every value is bit-identical (two objects, one built and used "
            "in each state). evaluations = calls compared",
            axes=dict(bank=sorted(CLASSNAME), order=[1, 2, 4], num_filts=sorted(set(b["num_filts"] for b in err_banks)),
                      rate=[1000, 16000], errstate=ERR_RAISE, calls=[list(c) for c in ERR_CALLS] + list(ERR_PROPS),
                      unclean_on_unchanged_tree=0),
            replay=_replay_bank(_errstate), chunk=8),
        core.SubCheck(
            "scale_objects", scale_pts, _scale_object,
            "banks (triangular / Gabor / gammatone x num_filts x rates {1000, 16000} x ranges x flags) laid out on a "
            "scaling-function OBJECT with a past: constructed with template parameters (2 templates per scale) and "
            "then given every parameter set of the re-parameterised scales by assigning its documented public "
            "attributes (low_hz, slope_hz) - directly, after the object was used, or on a copy.copy / copy.deepcopy "
            "/ pickle round trip of the template: the oracle of `layout` with the NEW parameters; a bank on the "
            "copied template is judged with the template's parameters. evaluations = filters",
            axes=dict(route=list(SCALE_ROUTES), templates=SCALE_TEMPLATES, new_parameters=list(PARAM_SCALES),
                      bank=[CLASSNAME[k] for k in PARAM_KINDS]),
            replay=_scale_object, chunk=16),
    ]
