"""C13 - shorten-compressed SPHERE audio decodes losslessly (engine M: model + trace replay).

(first stage: the six sph2pipe reference vectors; the format model / encoder and the
command-sequence exploration are in mc/refs/shorten.py and added below)
"""
import glob
import os

import numpy as np

from .. import computers, core

LEVEL = "model_checking"
ASSUMPTIONS = [
    "the sph2pipe reference WAVs (tests/audio/123_*.wav) are the ground truth for the vectors",
]


def _vectors():
    d = os.path.join(core.REPO, "tests", "audio")
    return sorted(os.path.basename(p)[:-8] for p in glob.glob(os.path.join(d, "*_shn.sph")))


def _vector(name):
    from pydrobert.speech import util

    d = os.path.join(core.REPO, "tests", "audio")
    wav = util.read_signal(os.path.join(d, name + ".wav"))
    viol = []
    for access in ("path", "stream"):
        if access == "path":
            r = computers.call(util.read_signal, os.path.join(d, name + "_shn.sph"))
        else:
            with open(os.path.join(d, name + "_shn.sph"), "rb") as f:
                r = computers.call(lambda: util.read_signal(f, force_as="sph"))
        tags = dict(what="vector", access=access)
        if r[0] != "ok":
            viol.append(core.violation(dict(tags, exc=r[1]),
                                       "%s_shn.sph raised %s: %s" % (name, r[1], r[2]),
                                       dict(name=name)))
        elif r[1].shape != wav.shape or not np.array_equal(r[1], wav):
            viol.append(core.violation(dict(tags, exc=None),
                                       "%s_shn.sph decodes to %r, reference wav %r, equal=%s" % (
                                           name, r[1].shape, wav.shape,
                                           r[1].shape == wav.shape and bool(np.all(r[1] == wav))),
                                       dict(name=name)))
    return core.result(viol, obs=name, sample=dict(vector=name, samples=int(wav.shape[0])))


def subchecks(tier, seed):
    return [core.SubCheck(
        "vectors", _vectors(), _vector,
        "each sph2pipe shorten vector decoded from a path and from a stream equals its reference WAV",
        replay=lambda case: _vector(case["name"]), kind="replay")]
