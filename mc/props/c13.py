"""C13 - shorten-compressed SPHERE audio decodes losslessly (engine M: model + trace replay).

The decoder (copy_shortened_samples) is one monolithic function that cannot be stepped, so
the state machine is explored on the reference model of the *format* in mc/refs/shorten.py;
every trace the exploration produces is serialised by the model's independent encoder,
wrapped in a SPHERE header and decoded by the REAL decoder through
pydrobert.speech.util.read_signal(..., force_as="sph"), which must return exactly the
samples the trace encodes (shape (n,) / (n, channels), int16; raw codes as uint8 for mu-law).

Sub-checks
  vectors        the six sph2pipe vectors decode to their reference WAVs (path and stream)
  model_vectors  the MODEL's own decoder reads the same vectors (validates the oracle)
  ulaw_tables    the mu-law inward order derived from G.711 is the inverse of the decoder's table
  sequences      (a) every valid command sequence up to depth d over the 14-command alphabet
  sequences_core (a) one level deeper for the core headers and their variants
  model_bfs      (b) BFS on the model, states merged by control state, one real decode per transition
  model_bfs_fine (thorough) the same with the kind of the latest command per channel added to the merge key
  long_stream    streams long enough for the bit reader to refill its buffer; prefixes cut at the refills
  truncation     every byte prefix that cuts a bit of a command => IOError
  bad_command    function codes >= 9 => IOError
  bad_version    version bytes outside {1, 2} => IOError

Validity (a false alarm is worse than a miss): only streams a conforming encoder can emit are
generated - BLOCKSIZE / BITSHIFT only between frames, never a block longer than the header's
block size, QLPC only in blocks at least as long as the predictor history max(3, maxnlpc),
PCM samples multiples of 2**bitshift inside the 16-bit range, mu-law codes representable at
the shift in force, and every stream ends on a frame boundary (the trace is completed with
DIFF0 blocks for the remaining channels before QUIT).  Sequences that cannot be made valid
(e.g. an all-zero DIFF1 residual whose repeated sample leaves the 16-bit range after a
BITSHIFT) are counted as skipped.
"""
import glob
import io
import itertools
import multiprocessing
import os
import signal
import warnings
from collections import deque

import numpy as np

from .. import computers, core, sig
from ..refs import shorten as S

LEVEL = "model_checking"
ASSUMPTIONS = [
    "the sph2pipe reference WAVs (tests/audio/123_*.wav) are the ground truth for the vectors",
    "oracle: mc/refs/shorten.py (format model + independent encoder, plain ints); validated by its "
    "own decoder on the six sph2pipe vectors (version 2, DIFF0-3, mean length 0/4, mu-law shift 0); "
    "version 1, QLPC, ZERO, BLOCKSIZE and BITSHIFT semantics come from the shorten format description",
    "command alphabet (14): DIFF0-3 minimal width, DIFF1 width 0, DIFF1 width 5, QLPC order 1/2/3 with "
    "coefficients [31], [31,-8], [11,31,-8], ZERO, BLOCKSIZE->1/3, BITSHIFT->0/2; block commands act "
    "on the current channel; BLOCKSIZE only at frame boundaries, BITSHIFT before any block (also between the channels of a frame); QUIT closes every trace",
    "sample values: a fixed generic sequence per channel (|x| < ~2500, function of VERIF_SEED and "
    "index) with planted extremes 32767, -32768, -32767, runs of zeros (mu-law: 0x80, 0x00, -0, +0), "
    "floored to multiples of 2**bitshift / moved to a representable code where the format requires it",
    "mu-law with bitshift > 0: which codes are representable is the rule '(16+m)<<e - 16 is a multiple "
    "of 2**shift', cross-checked against the decoder's table by the ulaw_tables sub-check (shifts 0-4)",
    "model_bfs merges states by bit cursor mod 32, channel cursor, block size, bit shift and the "
    "provenance (initial / written under which shift) of every history and mean slot; sample values "
    "are excluded because the decoder never branches on them except through the value classes the "
    "alphabet already contains (zero mean, mu-law -0 / sign); consequence: a defect that makes the "
    "implementation's state depend on something the model state does not record (e.g. which command "
    "wrote a mean slot) is only found by model_bfs if it shows on a representative path - the unmerged "
    "sequences/sequences_core enumerations (and model_bfs_fine in the thorough tier) are there for that",
    "the generated streams are at most ~40 KiB: the reader's buffer refill is exercised by the vectors and "
    "by the three long_stream cases only",
]

# ------------------------------------------------------------------ alphabet

ALPHABET = [
    ["DIFF", 0, "min"], ["DIFF", 1, "min"], ["DIFF", 2, "min"], ["DIFF", 3, "min"],
    ["DIFF", 1, 0], ["DIFF", 1, 5],
    ["QLPC", []], ["QLPC", [31]], ["QLPC", [31, -8]], ["QLPC", [11, 31, -8]],
    ["ZERO"],
    ["BLOCKSIZE", 1], ["BLOCKSIZE", 3],
    ["BITSHIFT", 0], ["BITSHIFT", 2],
]
QLPC4 = ["QLPC", [11, 31, -8, -8]]     # replaces the order-3 QLPC when the header allows order 4
FILLER = ["DIFF", 0, "min"]
NVAL = 96                               # period of the value sequence (samples per channel)


def alphabet(h):
    if h["maxnlpc"] >= 4:
        return [QLPC4 if op == ["QLPC", [11, 31, -8]] else op for op in ALPHABET]
    return ALPHABET


def op_name(op):
    if op[0] == "DIFF":
        return "DIFF%d%s" % (op[1], "" if op[2] == "min" else "w%d" % op[2])
    if op[0] == "QLPC":
        return "QLPC%d" % len(op[1])
    if op[0] == "ZERO":
        return "ZERO"
    return "%s%d" % ("BS" if op[0] == "BLOCKSIZE" else "SH", op[1])


class Values:
    """fixed data alphabet: per channel a generic integer sequence with planted extremes"""

    _cache = {}

    def __init__(self, seed):
        self.pcm, self.code = [], []
        for c in range(3):
            g = np.rint(sig.signal(seed, NVAL, offset=31 + c) * 650.0).astype(np.int64).tolist()
            code = [(x * 5 + 3 * c) & 0xFF for x in g]
            plant = {2: (32767, 0x80), 3: (-32768, 0x00), 6: (-32767, 0x7F), 7: (0, 0xFF),
                     9: (0, 0xFF), 10: (0, 0xFF), 11: (0, 0x7F), 13: (32767, 0x80), 14: (32767, 0x81),
                     17: (-32768, 0x00), 18: (32767, 0x80), 19: (-32768, 0x01)}
            for t, (x, k) in plant.items():
                for rep in range(0, NVAL, 32):
                    g[(t + c + rep) % NVAL] = x
                    code[(t + c + rep) % NVAL] = k
            self.pcm.append(g)
            self.code.append(code)

    @classmethod
    def get(cls, seed):
        v = cls._cache.get(seed)
        if v is None:
            v = cls._cache[seed] = cls(seed)
        return v

    def targets(self, enc):
        c, t0, s = enc.chan, len(enc.out[enc.chan]), enc.bitshift
        if enc.ftype in S.ULAW_TYPES:
            mm = S.UlawMap.get(s)
            tg = [mm.nearest(self.code[c][(t0 + i) % NVAL]) for i in range(enc.blocksize)]
            if enc.ftype == S.TYPE_AU1:   # no negative zero in the old mu-law type
                tg = [mm.pos[0] if t == mm.minus_zero else t for t in tg]
            return tg
        return [(self.pcm[c][(t0 + i) % NVAL] >> s) << s for i in range(enc.blocksize)]


def make_encoder(h):
    return S.Encoder(h["version"], h["ftype"], h["nchan"], h["bs0"], h["maxnlpc"], h["nmean"])


def enabled(enc, op):
    """structural validity of a command in a model state (the property's precondition)"""
    if op[0] == "QLPC":
        return enc.blocksize >= enc.nwrap and len(op[1]) <= enc.maxnlpc
    if op[0] == "BLOCKSIZE":
        return enc.chan == 0 and op[1] <= enc.bs0
    if op[0] == "BITSHIFT":
        return True   # per block: also between the channels of one frame
    return True


def apply_op(enc, op, vals):
    """append one command; raises S.InvalidTrace if no valid stream contains it here"""
    if op[0] == "DIFF":
        if op[2] == 0:
            enc.diff(op[1], enc.forced_targets("DIFF1"), 0)
        else:
            enc.diff(op[1], vals.targets(enc), op[2])
    elif op[0] == "QLPC":
        enc.qlpc(op[1], vals.targets(enc))
    elif op[0] == "ZERO":
        enc.forced_targets("ZERO")
        enc.zero()
    elif op[0] == "BLOCKSIZE":
        enc.blocksize_cmd(op[1])
    elif op[0] == "BITSHIFT":
        enc.bitshift_cmd(op[1])
    else:
        raise core.HarnessError("unknown op %r" % (op,))


def close_trace(enc, vals, final_short):
    """complete the frame, make sure there is at least one frame, optional shorter final block, QUIT"""
    while enc.chan != 0 or enc.frames() == 0:
        apply_op(enc, FILLER, vals)
    if final_short and enc.blocksize > 1:
        enc.blocksize_cmd(enc.blocksize - 1)
        for _ in range(enc.nchan):
            apply_op(enc, ["DIFF", 2, "min"], vals)
    enc.quit()


# ------------------------------------------------------------------ the real decoder


class DecodeTimeout(Exception):
    """the decoder did not return (e.g. a bit reader spinning on an exhausted stream)"""


def _on_alarm(signum, frame):
    raise DecodeTimeout("no result after %d s" % DECODE_LIMIT_S)


DECODE_LIMIT_S = 20      # the streams decode in well under 1 s; this only turns a hang into a verdict


def hung(viol):
    return any(v["tags"].get("exc") == "DecodeTimeout" for v in viol)


HANG_CAP = "stopped the point after 2 decoder hangs (%d s each)" % DECODE_LIMIT_S


def real_decode(filebytes, dtype=None):
    from pydrobert.speech import util

    old = signal.signal(signal.SIGALRM, _on_alarm)
    signal.setitimer(signal.ITIMER_REAL, DECODE_LIMIT_S)
    try:
        with warnings.catch_warnings(record=True) as wl:
            warnings.simplefilter("always")
            try:
                r = util.read_signal(io.BytesIO(filebytes), dtype=dtype, force_as="sph")
            except Exception as e:  # the oracle decides
                return ("exc", e, [str(w.message) for w in wl])
        return ("ok", r, [str(w.message) for w in wl])
    finally:
        signal.setitimer(signal.ITIMER_REAL, 0)
        signal.signal(signal.SIGALRM, old)


def _want(enc, raw):
    if raw:
        a = np.array(enc.out, dtype=np.uint8).T
    else:
        a = np.array(S.expected_pcm(enc), dtype=np.int16).T
    return a[:, 0] if enc.nchan == 1 else a


def _base_tags(h):
    return dict(version=h["version"], ftype=h["ftype"], nmean_pos=h["nmean"] > 0)


def check_decode(h, enc, case, raw=False):
    """decode enc's stream with the real decoder and compare; -> list of violations"""
    fb = enc.sphere_file()
    case = dict(case, raw=raw)
    r = real_decode(fb, np.uint8 if raw else None)
    tags = _base_tags(h)
    tags["raw"] = raw
    names = [b[3] for b in enc.blocks]
    shown = " ".join(names[:30]) + (" ... (%d blocks)" % len(names) if len(names) > 30 else "")
    if r[0] == "exc":
        tags.update(what="exception", exc=type(r[1]).__name__,
                    any_bitshift=any(b[5] for b in enc.blocks),
                    any_qlpc=any(n.startswith("QLPC") for n in names))
        return [core.violation(tags, "valid stream (%s) raised %s: %s" % (
            shown, type(r[1]).__name__, str(r[1])[:200]), case)]
    got, want = r[1], _want(enc, raw)
    if not isinstance(got, np.ndarray) or got.shape != want.shape or got.dtype != want.dtype:
        tags.update(what="decode_mismatch", aspect="shape_dtype", multi=h["nchan"] > 1)
        return [core.violation(tags, "expected %s %s, decoder returned %s %s (warnings %s)" % (
            want.shape, want.dtype, getattr(got, "shape", None), getattr(got, "dtype", None), r[2]),
            case)]
    if np.array_equal(got, want):
        return []
    g2, w2 = got.reshape(want.shape[0], -1), want.reshape(want.shape[0], -1)
    i, c = [int(x) for x in np.argwhere(g2 != w2)[0]]
    b = enc.block_of(c, i)
    tags.update(what="decode_mismatch", aspect="values", cmd=b[3], bitshift_pos=b[5] > 0,
                short_block=b[4] < enc.nwrap, multi=h["nchan"] > 1)
    return [core.violation(tags, "commands %s: first difference at sample %d channel %d (block %s, "
                           "offset %d in block, block size %d, shift %d): expected %s got %s" % (
                               shown, i, c, b[3], i - b[1], b[4], b[5],
                               w2[max(0, i - 2):i + 3, c].tolist(), g2[max(0, i - 2):i + 3, c].tolist()),
                           case)]


def run_trace(h, ops, seed, mode="both"):
    """-> (status, violations, encoder) for one complete trace (ops are JSON commands)"""
    vals = Values.get(seed)
    enc = make_encoder(h)
    try:
        for op in ops:
            if not enabled(enc, op):
                return "disabled", [], None
            apply_op(enc, op, vals)
        close_trace(enc, vals, h.get("final_short", False))
    except S.InvalidTrace:
        return "invalid", [], None
    case = dict(kind="trace", header=h, ops=ops)
    ulaw = h["ftype"] in S.ULAW_TYPES
    viol = []
    if mode != "raw" or not ulaw:
        viol = check_decode(h, enc, case)
    if mode != "pcm" and ulaw and not viol:
        viol = check_decode(h, enc, case, raw=True)
    return "ok", viol, enc


def replay_trace(case, seed):
    st, viol, enc = run_trace(case["header"], case["ops"], seed, mode="raw" if case.get("raw") else "pcm")
    if st != "ok":
        raise core.HarnessError("replayed trace is %s" % st)
    return core.result(viol, obs=core.sig_hash(enc.out))


# ------------------------------------------------------------------ (a) exhaustive sequences


def headers24():
    out = []
    for version, ftype, nchan, nmean in itertools.product((1, 2), (3, 5, 8, 0), (1, 2), (0, 4)):
        out.append(dict(version=version, ftype=ftype, nchan=nchan, nmean=nmean, bs0=4, maxnlpc=3,
                        final_short=False))
    return out


def core_headers():
    """4 core headers (version x {S16HL, mu-law}, 2 channels, mean length 4) and their variants"""
    out = []
    for version, ftype in itertools.product((1, 2), (3, 8)):
        base = dict(version=version, ftype=ftype, nchan=2, nmean=4, bs0=4, maxnlpc=3, final_short=False)
        out.append(base)
        out.append(dict(base, nchan=3))
        out.append(dict(base, bs0=2))
        out.append(dict(base, nmean=1))
        out.append(dict(base, final_short=True))
        out.append(dict(base, nchan=1, maxnlpc=4, nmean=1, final_short=True))
    return out


def _seq_point(p, seed):
    """every valid extension (up to p['depth'] commands) of the prefix p['prefix']"""
    h, depth = p["header"], p["depth"]
    alpha = alphabet(h)
    vals = Values.get(seed)
    enc0 = make_encoder(h)
    st = dict(evals=0, skipped=0, viol=[], digest=[], blocks=0, hung=0)
    try:
        for k in p["prefix"]:
            if not enabled(enc0, alpha[k]):
                return core.result([], nontrivial=False, evals=0, nontrivial_count=0, skipped=0,
                                   impl_calls=0, obs="disabled-prefix")
            apply_op(enc0, alpha[k], vals)
    except S.InvalidTrace:
        return core.result([], nontrivial=False, evals=0, nontrivial_count=0, skipped=1,
                           impl_calls=0, obs="invalid-prefix")

    def leaf(enc, seq):
        if st["hung"] >= 2:
            return
        e = enc.copy()
        try:
            close_trace(e, vals, h.get("final_short", False))
        except S.InvalidTrace:
            st["skipped"] += 1
            return
        case = dict(kind="trace", header=h, ops=[alpha[k] for k in seq])
        v = check_decode(h, e, case)
        st["evals"] += 1
        if p.get("raw_too") and h["ftype"] in S.ULAW_TYPES and not v:
            v = check_decode(h, e, case, raw=True)
            st["evals"] += 1
        st["blocks"] += len(e.blocks)
        st["digest"].append(hash(e.w.acc))
        if v and len(st["viol"]) < 6:
            st["viol"].extend(v)
        st["hung"] += hung(v)

    def rec(enc, seq):
        leaf(enc, seq)
        if len(seq) >= depth or st["hung"] >= 2:
            return
        for k, op in enumerate(alpha):
            if not enabled(enc, op):
                continue
            e = enc.copy()
            try:
                apply_op(e, op, vals)
            except S.InvalidTrace:
                st["skipped"] += 1
                continue
            rec(e, seq + [k])

    rec(enc0, list(p["prefix"]))
    return core.result(st["viol"], nontrivial=st["evals"] > 0, evals=st["evals"],
                       nontrivial_count=st["evals"], skipped=st["skipped"], impl_calls=st["evals"],
                       obs=core.sig_hash(st["digest"]), capped=HANG_CAP if st["hung"] >= 2 else None,
                       sample=dict(header=h, prefix=[op_name(alpha[k]) for k in p["prefix"]],
                                   traces=st["evals"], blocks_decoded=st["blocks"]))


def _seq_points(headers, depth, plen, raw_too):
    pts = []
    for h in headers:
        for shorter in range(1, plen):      # sequences shorter than the point prefix
            for pre in itertools.product(range(len(ALPHABET)), repeat=shorter):
                pts.append(dict(header=h, prefix=list(pre), depth=shorter, raw_too=raw_too))
        for pre in itertools.product(range(len(ALPHABET)), repeat=plen):
            pts.append(dict(header=h, prefix=list(pre), depth=depth, raw_too=raw_too))
    return pts


# ------------------------------------------------------------------ (b) BFS on the model


def _state_key(enc, fine=False):
    key = (enc.w.n % 32,) + enc.control_key()
    if fine:
        # additionally: which kind of command produced the latest block of every channel
        last = [None] * enc.nchan
        for b in enc.blocks:
            last[b[0]] = b[3][:4]
        key += (tuple(last),)
    return key


def bfs_plan(args):
    """BFS on the MODEL only (no implementation call): -> (groups, states, skipped, max depth);
    a group is (history that reaches an expanded state, [command index of every valid
    transition out of it], number of those that discovered a new state)"""
    h, seed, depth, fine = args
    alpha = alphabet(h)
    vals = Values.get(seed)
    e0 = make_encoder(h)
    seen = {_state_key(e0, fine)}
    frontier = deque([(e0, ())])
    groups, skipped, maxd = [], 0, 0
    while frontier:
        e, hist = frontier.popleft()
        if len(hist) >= depth:
            continue
        ks, nnew = [], 0
        for k, op in enumerate(alpha):
            if not enabled(e, op):
                continue
            e2 = e.copy()
            try:
                apply_op(e2, op, vals)
            except S.InvalidTrace:
                skipped += 1
                continue
            key = _state_key(e2, fine)
            if key not in seen:
                seen.add(key)
                frontier.append((e2, hist + (k,)))
                maxd = max(maxd, len(hist) + 1)
                nnew += 1
            ks.append(k)
        groups.append((list(hist), ks, nnew))
    return groups, len(seen), skipped, maxd


def _bfs_point(p, seed):
    h = p["header"]
    alpha = alphabet(h)
    vals = Values.get(seed)
    raw = h["ftype"] in S.ULAW_TYPES     # mu-law: compare the codes themselves (keeps -0 / +0 apart)
    viol, evals, skipped, ntrans, digest, last, nhung = [], 0, 0, 0, [], None, 0
    for hist, ks, _ in p["groups"]:
        if nhung >= 2:
            break
        enc0 = make_encoder(h)
        for k in hist:
            apply_op(enc0, alpha[k], vals)      # valid by construction of the plan
        for k in ks:
            ntrans += 1
            enc = enc0.copy()
            apply_op(enc, alpha[k], vals)
            try:
                close_trace(enc, vals, h.get("final_short", False))
            except S.InvalidTrace:
                skipped += 1     # the frame cannot be completed validly after this transition
                continue
            last = hist + [k]
            v = check_decode(h, enc, dict(kind="trace", header=h, ops=[alpha[j] for j in last]), raw=raw)
            evals += 1
            digest.append(hash(enc.w.acc))
            if v and len(viol) < 6:
                viol.extend(v)
            nhung += hung(v)
            if nhung >= 2:
                break
    return core.result(viol, nontrivial=evals > 0, evals=evals, nontrivial_count=evals,
                       capped=HANG_CAP if nhung >= 2 else None, states=p["new_states"], transitions=ntrans, impl_calls=evals,
                       skipped=skipped + p.get("plan_skipped", 0), obs=core.sig_hash(digest),
                       sample=dict(header=h, trace=[op_name(alpha[k]) for k in (last or [])],
                                   transitions=ntrans, max_depth=p.get("max_depth")))


def bfs_headers(tier):
    hs = []
    for version, ftype, nchan in itertools.product((1, 2), (3, 8), (1, 2)):
        hs.append(dict(version=version, ftype=ftype, nchan=nchan, nmean=4, bs0=4, maxnlpc=3,
                       final_short=False))
    if tier == "thorough":
        hs = [h for h in headers24()]
        for h in core_headers():
            if h not in hs:
                hs.append(h)
    return hs


def _bfs_points(hs, seed, depth, fine=False):
    jobs = [(h, seed, depth, fine) for h in hs]
    if core.NPROC > 1 and len(jobs) > 1:
        ctx = multiprocessing.get_context("fork")
        with ctx.Pool(min(core.NPROC, len(jobs))) as pool:
            plans = pool.map(bfs_plan, jobs, 1)
    else:
        plans = [bfs_plan(j) for j in jobs]
    pts, chunk = [], 400
    for h, (groups, nstates, skipped, maxd) in zip(hs, plans):
        cur, n, first = [], 0, True
        for g in groups + [None]:
            if g is not None:
                cur.append(g)
                n += len(g[1])
            if cur and (g is None or n >= chunk):
                pts.append(dict(header=h, groups=cur, max_depth=maxd,
                                new_states=sum(x[2] for x in cur) + (1 if first else 0),
                                plan_skipped=skipped if first else 0))
                cur, n, first = [], 0, False
        if sum(g[2] for g in groups) + 1 != nstates:
            raise core.HarnessError("BFS bookkeeping")
    return pts


# ------------------------------------------------------------------ faults

FAULT_OPS = [["DIFF", 0, "min"], ["QLPC", [11, 31, -8]], ["BITSHIFT", 2], ["DIFF", 2, "min"], ["ZERO"],
             ["BLOCKSIZE", 1], ["DIFF", 1, 5], ["DIFF", 3, "min"]]


def fault_headers():
    out = []
    for version, ftype, nchan in itertools.product((1, 2), (3, 8), (1, 2)):
        out.append(dict(version=version, ftype=ftype, nchan=nchan, nmean=4, bs0=4, maxnlpc=3,
                        final_short=False))
    out.append(dict(version=2, ftype=5, nchan=3, nmean=0, bs0=3, maxnlpc=0, final_short=False))
    return out


def fault_stream(h, seed, nops=None, bad_code=None):
    """a valid stream with every block command repeated for every channel; optionally an undefined
    function code after the first `nops` commands (then QUIT, so that only the code is wrong)"""
    vals = Values.get(seed)
    enc = make_encoder(h)
    n = 0
    for op in FAULT_OPS:
        if nops is not None and n >= nops:
            break
        if not enabled(enc, op):
            continue
        reps = 1 if op[0] in ("BLOCKSIZE", "BITSHIFT") else h["nchan"]
        for _ in range(reps):
            apply_op(enc, op, vals)
        n += 1
    if bad_code is not None:
        if enc.frames() == 0:
            for _ in range(h["nchan"]):
                apply_op(enc, FILLER, vals)
        enc.raw_command(bad_code)
    enc.quit()
    return enc


def _is_ioerror(e):
    return isinstance(e, OSError)


def _fault_verdict(h, r, what, detail, case, extra=None):
    """r is real_decode's result for a stream that must raise IOError"""
    tags = dict(what=what)
    tags.update(extra or {})
    if tags.get("stage") != "version_byte":     # before the version byte nothing of the header matters
        tags.update(version=h["version"], ftype=h["ftype"])
    if r[0] == "ok":
        return [core.violation(tags, "%s: returned %s instead of raising IOError (warnings %s)" % (
            detail, "array%s" % (getattr(r[1], "shape", "?"),), r[2]), case)]
    if not _is_ioerror(r[1]):
        tags.update(what="exception", fault=what, exc=type(r[1]).__name__)
        return [core.violation(tags, "%s: raised %s (%s) instead of IOError" % (
            detail, type(r[1]).__name__, str(r[1])[:200]), case)]
    return []


def _trunc_point(p, seed):
    h = p["header"]
    enc = fault_stream(h, seed)
    fb = enc.sphere_file()
    first = 1024 + 5                      # SPHERE header, magic, version byte
    last_cmd_bit = enc.cmd_ends[-1]       # stream bits up to and including QUIT
    lengths = [p["length"]] if "length" in p else range(first - 1, len(fb))
    viol, evals, skipped, nhung = [], 0, 0, 0
    for L in lengths:
        if 8 * (L - first) >= last_cmd_bit:
            skipped += 1                  # only padding is cut: nothing demanded
            continue
        r = real_decode(fb[:L])
        evals += 1
        stage = "version_byte" if L < first else \
            "header_fields" if 8 * (L - first) < enc.header_end else "commands"
        v = _fault_verdict(h, r, "truncated_accepted", "prefix of %d/%d bytes (cuts %s)" % (
            L, len(fb), stage), dict(kind="prefix", header=h, length=L), dict(stage=stage))
        if len(viol) < 6:
            viol.extend(v)
        nhung += hung(v)
        if nhung >= 2:
            break
    if len(fb) - first < 8 or last_cmd_bit <= enc.header_end:
        raise core.HarnessError("fault stream too small")
    return core.result(viol, nontrivial=evals > 0, evals=evals, nontrivial_count=evals,
                       skipped=skipped, impl_calls=evals, obs=len(fb), capped=HANG_CAP if nhung >= 2 else None,
                       sample=dict(header=h, file_bytes=len(fb), prefixes=evals,
                                   commands=[b[3] for b in enc.blocks]))


BAD_CODES = list(range(9, 33)) + [63, 64, 100, 255]


def _badcmd_point(p, seed):
    h = p["header"]
    viol, evals, nhung = [], 0, 0
    pairs = [(p["nops"], p["code"])] if "code" in p else \
        [(n, c) for n in range(0, len(FAULT_OPS) + 1) for c in BAD_CODES]
    ends = set()
    for nops, code in pairs:
        enc = fault_stream(h, seed, nops=nops, bad_code=code)
        ends.add((enc.cmd_ends[-3] if len(enc.cmd_ends) > 2 else enc.header_end) % 32)
        r = real_decode(enc.sphere_file())
        evals += 1
        v = _fault_verdict(h, r, "bad_command_accepted",
                           "function code %d after %d valid commands" % (code, len(enc.cmd_ends) - 2),
                           dict(kind="badcmd", header=h, nops=nops, code=code))
        if len(viol) < 6:
            viol.extend(v)
        nhung += hung(v)
        if nhung >= 2:
            break
    # sanity: the same stream without the bad code decodes (the fault is the only thing wrong)
    ok = real_decode(fault_stream(h, seed).sphere_file())
    return core.result(viol, nontrivial=ok[0] == "ok", evals=evals, nontrivial_count=evals,
                       impl_calls=evals + 1, obs=sorted(ends), capped=HANG_CAP if nhung >= 2 else None,
                       sample=dict(header=h, cases=evals))


def _badver_point(p, seed):
    h = p["header"]
    enc = fault_stream(h, seed)
    viol, evals, nhung = [], 0, 0
    for b in ([p["byte"]] if "byte" in p else range(256)):
        if b in (1, 2):
            continue
        r = real_decode(enc.sphere_file(version_byte=b))
        evals += 1
        v = _fault_verdict(h, r, "bad_version_accepted", "version byte %d" % b,
                           dict(kind="badver", header=h, byte=b))
        if len(viol) < 6:
            viol.extend(v)
        nhung += hung(v)
        if nhung >= 2:
            break
    ok = real_decode(enc.sphere_file())
    return core.result(viol, nontrivial=ok[0] == "ok", evals=evals, nontrivial_count=evals,
                       impl_calls=evals + 1, obs=core.sig_hash(h), capped=HANG_CAP if nhung >= 2 else None,
                       sample=dict(header=h, bytes=evals))


# ------------------------------------------------------------------ long streams (reader refills)

LONG_CYCLE = [["DIFF", 0, "min"], ["DIFF", 1, "min"], ["QLPC", [11, 31, -8]], ["DIFF", 2, "min"],
              ["ZERO"], ["DIFF", 1, 9], ["BITSHIFT", 2], ["DIFF", 3, "min"], ["QLPC", [31]],
              ["DIFF", 0, "min"], ["DIFF", 1, 0], ["BITSHIFT", 3], ["QLPC", [31, -8]], ["DIFF", 0, "min"],
              ["BITSHIFT", 1], ["DIFF", 3, "min"], ["DIFF", 0, "min"], ["BITSHIFT", 0], ["DIFF", 2, 10]]
FIRST_READ, REFILL = 16384, 1024      # the reader's first read and the size it tops its buffer up to


def long_headers():
    return [dict(version=2, ftype=3, nchan=2, nmean=4, bs0=256, maxnlpc=3, final_short=True),
            dict(version=1, ftype=8, nchan=1, nmean=4, bs0=256, maxnlpc=3, final_short=True),
            dict(version=2, ftype=5, nchan=3, nmean=0, bs0=64, maxnlpc=3, final_short=True)]


def long_stream(h, seed):
    """block size 256 / 64 like real files, long enough for the reader to refill its buffer at
    least three times, shorter final block"""
    vals = Values.get(seed)
    enc = make_encoder(h)
    k = 0
    while enc.w.n < 8 * (FIRST_READ + 3 * REFILL + 200):
        op = LONG_CYCLE[k % len(LONG_CYCLE)]
        k += 1
        for _ in range(1 if op[0] == "BITSHIFT" else h["nchan"]):
            try:
                apply_op(enc, op, vals)
            except S.InvalidTrace:
                apply_op(enc, FILLER, vals)
    enc.blocksize_cmd(enc.blocksize // 3)
    for _ in range(h["nchan"]):
        apply_op(enc, ["DIFF", 2, "min"], vals)
    enc.quit()
    return enc


def long_cut_groups(h, seed):
    """prefix lengths around the points where the reader runs out of buffered bytes, and the tail"""
    enc = long_stream(h, seed)
    n = len(enc.sphere_file())
    groups = []
    b = 1024 + FIRST_READ
    groups.append(list(range(b - 5, b + 6)))
    b += REFILL - 3                      # 16384 - 5 leaves 3 bytes, topped up to 1024
    while b < n - 12 and len(groups) < 4:
        groups.append(list(range(b - 4, b + 5)))
        b += REFILL
    groups.append(list(range(n - 9, n)))
    return groups


def _long_point(p, seed):
    h = p["header"]
    enc = long_stream(h, seed)
    fb = enc.sphere_file()
    if "cuts" not in p:
        case = dict(kind="long", header=h)
        v = check_decode(h, enc, case)
        if not v and h["ftype"] in S.ULAW_TYPES:
            v = check_decode(h, enc, case, raw=True)
        return core.result(v, obs=len(fb), impl_calls=1,
                           sample=dict(header=h, file_bytes=len(fb), frames=enc.frames(), blocks=len(enc.blocks)))
    viol, evals, skipped, nhung = [], 0, 0, 0
    for L in p["cuts"]:
        if 8 * (L - 1029) >= enc.cmd_ends[-1]:
            skipped += 1
            continue
        r = real_decode(fb[:L])
        evals += 1
        v = _fault_verdict(h, r, "truncated_accepted", "prefix of %d/%d bytes of a long stream" % (L, len(fb)),
                           dict(kind="long", header=h, cuts=[L]), dict(stage="refill"))
        if len(viol) < 6:
            viol.extend(v)
        nhung += hung(v)
        if nhung >= 2:
            break
    return core.result(viol, nontrivial=evals > 0, evals=evals, nontrivial_count=evals, skipped=skipped,
                       impl_calls=evals, obs=p["cuts"][0], capped=HANG_CAP if nhung >= 2 else None,
                       sample=dict(header=h, cuts=p["cuts"]))


def _long_points(seed):
    pts = []
    for h in long_headers():
        pts.append(dict(header=h))
        for g in long_cut_groups(h, seed):
            for i in range(0, len(g), 3):
                pts.append(dict(header=h, cuts=g[i:i + 3]))
    return pts


# ------------------------------------------------------------------ exact lengths at the refill boundaries


def boundary_targets():
    """compressed lengths (magic + version + words) at which the reader's buffer runs dry exactly: the
    first read, and each later top-up"""
    return [FIRST_READ, FIRST_READ + REFILL - 3, FIRST_READ + 2 * REFILL - 3]


def boundary_streams(h, seed, target, window=12):
    """valid COMPLETE streams whose compressed length takes every attainable value (5 + 4k bytes) within
    +-window bytes of `target`: a common body of full-size blocks (all block commands), then frames of
    ever smaller blocks up to just below the window, then 0, 1, 2, ... single-sample frames + QUIT"""
    import copy

    vals = Values.get(seed)
    enc = make_encoder(h)
    limit = 8 * (target - 5 - window) - 40

    def frame(e, op):
        for _ in range(1 if op[0] == "BITSHIFT" else h["nchan"]):
            try:
                apply_op(e, op, vals)
            except S.InvalidTrace:
                apply_op(e, FILLER, vals)

    k = 0
    while True:
        e = copy.deepcopy(enc)
        frame(e, LONG_CYCLE[k % len(LONG_CYCLE)])
        if e.w.n > limit:
            break
        enc = e
        k += 1
    b = h["bs0"]
    while b > 1:
        b = max(1, b // 4)
        enc.blocksize_cmd(b)
        while True:
            e = copy.deepcopy(enc)
            frame(e, ["DIFF", 2, "min"])
            if e.w.n > limit:
                break
            enc = e
    found = {}
    for tweak in range(4):       # 0..3 BITSHIFT commands (a few bits each) shift the whole tail
        tail = copy.deepcopy(enc)
        for t in range(tweak):
            tail.bitshift_cmd((2, 0, 1)[t])
        for j in range(0, 400):
            e = copy.deepcopy(tail)
            e.quit()
            L = len(e.sphere_file()) - 1024
            if abs(L - target) <= window and L not in found:
                found[L] = e
            if L > target + window:
                break
            frame(tail, ["DIFF", 2, "min"])
    return found


def _boundary_point(p, seed):
    h, target = p["header"], p["target"]
    only = p.get("length")
    found = boundary_streams(h, seed, target)
    viol = []
    evals = 0
    for L in sorted(found):
        if only is not None and L != only:
            continue
        evals += 1
        case = dict(kind="boundary", header=h, target=target, length=L)
        v = check_decode(h, found[L], case)
        for x in v:
            x["tags"]["stage"] = "refill"
            x["tags"]["bytes_past_boundary"] = L - target
        viol.extend(v)
    return core.result(viol, nontrivial=(target + 1 in found or target in found) and len(found) >= 4, evals=evals,
                       nontrivial_count=evals, impl_calls=evals, obs=sorted(L - target for L in found),
                       sample=dict(header=h, target=target, lengths=sorted(found)))


# ------------------------------------------------------------------ every kind of file object

KIND_TRACES = [[["DIFF", 2, 1], ["QLPC", [11, -7], ], ["BITSHIFT", 2], ["DIFF", 1, 1], ["ZERO"]],
               [["QLPC", [5]], ["DIFF", 3, 1], ["BLOCKSIZE", 3], ["DIFF", 0, 1]]]


def _kind_point(p, seed):
    """one stream read through one kind of binary file object (named / anonymous / unbuffered / not
    seekable / read()-only ...): exactly the encoded samples, as through io.BytesIO"""
    import tempfile
    from pydrobert.speech import util
    from ..refs import sphere as sphref

    h, which, kind = p["header"], p["which"], p["stream_kind"]
    if which == "long":
        enc = long_stream(h, seed)
    else:
        vals = Values.get(seed)
        enc = make_encoder(h)
        for op in KIND_TRACES[which]:
            if not enabled(enc, op):
                continue
            for _ in range(1 if op[0] in ("BITSHIFT", "BLOCKSIZE") else h["nchan"]):
                try:
                    apply_op(enc, op, vals)
                except S.InvalidTrace:
                    apply_op(enc, FILLER, vals)
        close_trace(enc, vals, True)
    fb = enc.sphere_file()
    want = _want(enc, False)
    case = dict(kind="stream_kind", header=h, which=which, stream_kind=kind)
    tags = dict(_base_tags(h), what="file_object", stream_kind=kind)
    with tempfile.TemporaryDirectory(prefix="c13-kinds-") as tmp:
        with sphref.open_stream(kind, fb, tmp) as f:
            tags["name_attr"] = sphref.name_class(f)
            old = signal.signal(signal.SIGALRM, _on_alarm)
            signal.setitimer(signal.ITIMER_REAL, DECODE_LIMIT_S)
            try:
                r = computers.call(lambda: util.read_signal(f, force_as="sph"))
            finally:
                signal.setitimer(signal.ITIMER_REAL, 0)
                signal.signal(signal.SIGALRM, old)
    if r[0] != "ok":
        return core.result([core.violation(dict(tags, aspect="exception", exc=r[1]),
                                           "valid shorten stream (%d bytes) through a %s object raised %s: %s" % (
                                               len(fb), kind, r[1], r[2]), case)], obs=[kind, "exc"])
    got = r[1]
    if not isinstance(got, np.ndarray) or got.shape != want.shape or got.dtype != want.dtype \
            or not np.array_equal(got, want):
        return core.result([core.violation(dict(tags, aspect="values"),
                                           "shorten stream through a %s object: decoded %s %s differs from the "
                                           "encoded samples %s %s" % (kind, getattr(got, "shape", None),
                                                                      getattr(got, "dtype", None), want.shape,
                                                                      want.dtype), case)], obs=[kind, "diff"])
    return core.result([], obs=[kind, "ok"], impl_calls=1, sample=case)


def _kind_points():
    from ..refs import sphere as sphref

    pts = []
    hs = [dict(version=2, ftype=3, nchan=2, nmean=4, bs0=4, maxnlpc=3, final_short=True),
          dict(version=1, ftype=8, nchan=1, nmean=0, bs0=4, maxnlpc=3, final_short=True)]
    for kind in sphref.STREAM_KINDS:
        for h in hs:
            for which in (0, 1):
                pts.append(dict(header=h, which=which, stream_kind=kind))
        pts.append(dict(header=long_headers()[0], which="long", stream_kind=kind))
    return pts


# ------------------------------------------------------------------ vectors / oracle validation


def _vectors():
    d = os.path.join(core.REPO, "tests", "audio")
    return sorted(os.path.basename(p)[:-8] for p in glob.glob(os.path.join(d, "*_shn.sph")))


def _vector(name):
    from pydrobert.speech import util

    d = os.path.join(core.REPO, "tests", "audio")
    wav = util.read_signal(os.path.join(d, name + ".wav"))
    viol = []
    for access in ("path", "stream"):
        if access == "path":
            r = computers.call(util.read_signal, os.path.join(d, name + "_shn.sph"))
        else:
            with open(os.path.join(d, name + "_shn.sph"), "rb") as f:
                r = computers.call(lambda: util.read_signal(f, force_as="sph"))
        tags = dict(what="vector", access=access)
        if r[0] != "ok":
            viol.append(core.violation(dict(tags, exc=r[1]),
                                       "%s_shn.sph raised %s: %s" % (name, r[1], r[2]),
                                       dict(name=name)))
        elif r[1].shape != wav.shape or not np.array_equal(r[1], wav):
            viol.append(core.violation(dict(tags, exc=None),
                                       "%s_shn.sph decodes to %r, reference wav %r, equal=%s" % (
                                           name, r[1].shape, wav.shape,
                                           r[1].shape == wav.shape and bool(np.all(r[1] == wav))),
                                       dict(name=name)))
    return core.result(viol, obs=name, sample=dict(vector=name, samples=int(wav.shape[0])))


def _model_vector(name):
    """oracle validation: the MODEL decoder must read the real vectors (a failure here is a
    harness error, not a finding about the library)"""
    ((_, ok, msg),) = S.check_vectors(core.REPO, only=name)
    if not ok:
        raise core.HarnessError("the shorten reference model does not decode %s_shn.sph to its WAV" % name)
    return core.result([], obs=msg, sample=dict(vector=name, model=msg))


def _ulaw_table(shift):
    """the independently derived inward order must be the inverse of the decoder's outward table
    on every representable code (else: harness limitation, reported as a harness error)"""
    from pydrobert.speech import _sphere

    mm = S.UlawMap.get(shift)
    row = [int(x) for x in _sphere.ULAW_OUTWARD[shift]]
    bad = []
    for c, v in sorted(mm.inward.items()):
        got = _sphere.NEGATIVE_ULAW_ZERO if v == -1 else row[v + 128] if v >= 0 else row[v + 129]
        if got != c:
            bad.append((c, v, got))
    exp = [c for c in range(256) if S.ulaw_expand(c) != int(_sphere.ULAW2PCM[c])]
    if bad or exp:
        raise core.HarnessError(
            "mu-law order derived from G.711 is not the inverse of the decoder's table at shift %d "
            "(%d codes, e.g. %r; %d expansion differences): the mu-law part of the oracle is not "
            "independent" % (shift, len(bad), bad[:3], len(exp)))
    return core.result([], obs=len(mm.inward), evals=len(mm.inward),
                       sample=dict(shift=shift, representable_codes=len(mm.inward)))


# ------------------------------------------------------------------ sub-checks


def _replay(seed):
    def replay(case):
        k = case.get("kind")
        if k == "trace":
            return replay_trace(case, seed)
        if k == "prefix":
            return _trunc_point(dict(header=case["header"], length=case["length"]), seed)
        if k == "badcmd":
            return _badcmd_point(dict(header=case["header"], nops=case["nops"], code=case["code"]), seed)
        if k == "long":
            return _long_point(dict((kk, v) for kk, v in case.items() if kk != "kind"), seed)
        if k == "boundary":
            return _boundary_point(dict(header=case["header"], target=case["target"], length=case["length"]), seed)
        if k == "stream_kind":
            return _kind_point(dict(header=case["header"], which=case["which"], stream_kind=case["stream_kind"]), seed)
        if k == "badver":
            return _badver_point(dict(header=case["header"], byte=case["byte"]), seed)
        raise core.HarnessError("unknown case %r" % (case,))
    return replay


def subchecks(tier, seed, only=None):
    thorough = tier == "thorough"
    replay = _replay(seed)
    d_all, d_core = (4, 5) if thorough else (3, 4)
    axes_seq = dict(alphabet=[op_name(o) for o in ALPHABET], version=[1, 2], ftype=[3, 5, 8],
                    channels=[1, 2], mean_length=[0, 4], block_size=4, max_lpc=3)
    scs = [
        core.SubCheck(
            "vectors", _vectors(), _vector,
            "each sph2pipe shorten vector decoded from a path and from a stream equals its reference WAV",
            replay=lambda case: _vector(case["name"]), kind="replay"),
        core.SubCheck(
            "model_vectors", _vectors(), _model_vector,
            "the reference model's own decoder reads each sph2pipe vector exactly (oracle validation)",
            kind="replay"),
        core.SubCheck(
            "ulaw_tables", [0, 1, 2, 3, 4], _ulaw_table,
            "mu-law inward order derived by ranking G.711 values vs the decoder's outward table, "
            "for the shifts used (alphabet: 0, 2; long streams: 0-3)", kind="replay"),
        core.SubCheck(
            "sequences", _seq_points(headers24(), d_all, 1 if not thorough else 2, True),
            lambda p: _seq_point(p, seed),
            "every valid command sequence of length 1..%d over the 14-command alphabet x 24 headers, "
            "completed to a frame boundary + QUIT, encoded by the model and decoded by the real "
            "decoder (mu-law additionally as raw codes); a point = header x first command(s); "
            "evaluations = real decodes" % d_all,
            axes=dict(axes_seq, depth=d_all), replay=replay, chunk=1, kind="trace_replay"),
        core.SubCheck(
            "sequences_core", _seq_points(core_headers(), d_core, 1 if not thorough else 2, False),
            lambda p: _seq_point(p, seed),
            "as 'sequences' with length up to %d for the 4 core headers (version x {S16HL, mu-law}, "
            "2 channels, mean length 4, block size 4) and five variants of each: 3 channels; initial "
            "block size 2; mean length 1; a shorter final block; 1 channel with max LPC order 4 "
            "(history 4, the order-3 QLPC replaced by order 4 [11,31,-8,-8]), mean length 1 and a "
            "shorter final block (mu-law as int16 only)" % d_core,
            axes=dict(axes_seq, depth=d_core, variants=["base", "nchan=3", "bs0=2", "nmean=1", "final_short",
                                                        "nchan=1,maxnlpc=4,nmean=1,final_short"]),
            replay=replay, chunk=1, kind="trace_replay"),
    ]
    if only in (None, "model_bfs"):
        depth = 8
        scs.append(core.SubCheck(
            "model_bfs", _bfs_points(bfs_headers(tier), seed, depth), lambda p: _bfs_point(p, seed),
            "BFS to depth %d on the format model, states merged by (bit cursor mod 32, channel, block "
            "size, shift, provenance of history/mean slots); every model transition is replayed as a "
            "complete stream through the real decoder (mu-law compared as raw codes); a point = about 400 transitions of one header" % depth,
            axes=dict(headers=len(bfs_headers(tier)), depth=depth,
                      alphabet=[op_name(o) for o in ALPHABET]),
            replay=replay, chunk=1, kind="model_bfs"))
    if thorough and only in (None, "model_bfs_fine"):
        scs.append(core.SubCheck(
            "model_bfs_fine", _bfs_points(bfs_headers("quick"), seed, 8, fine=True),
            lambda p: _bfs_point(p, seed),
            "as model_bfs for the 8 quick-tier headers with a finer merge key: additionally the kind of "
            "command (DIFF/QLPC/ZERO) that produced the latest block of every channel",
            axes=dict(headers=8, depth=8, alphabet=[op_name(o) for o in ALPHABET]),
            replay=replay, chunk=1, kind="model_bfs"))
    if only in (None, "long_stream"):
        scs.append(core.SubCheck(
            "long_stream", _long_points(seed), lambda p: _long_point(p, seed),
            "3 streams of > 19 KiB (block size 256/64, all block commands, BITSHIFT 0-3, shorter final "
            "block) so that the bit reader tops up its buffer several times: full decode equals the "
            "encoded samples, and byte prefixes ending within +-5 bytes of each of the first reader "
            "refill points or inside the QUIT word must raise IOError",
            replay=replay, chunk=1, kind="trace_replay"))
    if only in (None, "boundary_lengths"):
        scs.append(core.SubCheck(
            "boundary_lengths", [dict(header=h, target=t) for h in long_headers() for t in boundary_targets()],
            lambda p: _boundary_point(p, seed),
            "valid COMPLETE streams whose compressed length takes every attainable value (5 + 4k bytes) within "
            "+-12 bytes of each point where the reader's buffer runs dry (first 16384-byte read, the next two "
            "top-ups), 3 headers: the QUIT word lands on every position relative to the refill; decode equals "
            "the encoded samples; non-trivial = the window is populated on both sides of the boundary",
            replay=replay, chunk=1, kind="trace_replay"))
    if only in (None, "stream_kinds"):
        scs.append(core.SubCheck(
            "stream_kinds", _kind_points(), lambda p: _kind_point(p, seed),
            "2 short traces x 2 headers and one long stream read through every kind of binary file object "
            "(BytesIO, named/unnamed/unbuffered files, fdopen, temporary and spooled files, a pipe, "
            "BufferedReader, gzip, mmap, a read()-only object, odd .name attributes): exactly the encoded samples",
            replay=replay, chunk=4, kind="trace_replay"))
    fh = fault_headers()
    scs += [
        core.SubCheck(
            "truncation", [dict(header=h) for h in fh], lambda p: _trunc_point(p, seed),
            "every byte prefix (the 'ajkg' magic kept, so that the file is a shorten stream) of %d small "
            "streams that cuts the version byte or at least one bit of the stream header or of a "
            "command up to QUIT must raise IOError; prefixes that only cut the zero padding of the "
            "last word are skipped" % len(fh),
            replay=replay, chunk=1, kind="fault"),
        core.SubCheck(
            "bad_command", [dict(header=h) for h in fh], lambda p: _badcmd_point(p, seed),
            "function codes %s placed after 0..%d valid commands (all bit alignments that arise) must "
            "raise IOError" % (BAD_CODES, len(FAULT_OPS)), replay=replay, chunk=1, kind="fault"),
        core.SubCheck(
            "bad_version", [dict(header=h) for h in fh], lambda p: _badver_point(p, seed),
            "every version byte other than 1 and 2 (254 values) must raise IOError", replay=replay,
            chunk=1, kind="fault"),
    ]
    return scs
