"""C08 - alias / JSON configuration builds the same objects as explicit construction (engine L;
exhaustive registry).

registry       walk __subclasses__ transitively from the six abstract families; every class of a
               family is used as the query root, against every alias of all six families plus
               "" and "nope": an alias owned by exactly one class of the queried sub-tree must
               build exactly that class, anything else must raise ValueError
shadowing      every tree-shaped hierarchy of k classes created in order under a fresh private
               root x every pair of classes sharing an alias x every class of the hierarchy as
               query root: the class created last wins
from_arg       alias_factory_subclass_from_arg: instance / str / mapping (alias, name, both) x
               dict / OrderedDict / MappingProxyType; argument mappings compared with a deep copy
nested_config  computer alias x bank alias x scale alias x window alias x key style, built from
               a JSON-round-tripped tree and from explicitly constructed objects
"""
import collections
import collections.abc
import copy
import inspect
import itertools
import json
import types

import numpy as np

from .. import computers, core, sig

LEVEL = "exploration"
ASSUMPTIONS = [
    "the registry is whatever __subclasses__ reports after importing pydrobert.speech.{scales,"
    "filters,compute,pre,post}; classes of other modules (e.g. user code) are not present",
    "hierarchies are trees (single inheritance) of plain classes that each define their own "
    "`aliases` set, created in index order under a private root class; 'registered last' = "
    "'class statement executed last'",
    "nested configurations use one generic 64-sample signal at sampling rate 1000 with 3 filters",
]

FAMILIES = (
    ("pydrobert.speech.scales", "ScalingFunction"),
    ("pydrobert.speech.filters", "LinearFilterBank"),
    ("pydrobert.speech.filters", "WindowFunction"),
    ("pydrobert.speech.compute", "FrameComputer"),
    ("pydrobert.speech.pre", "PreProcessor"),
    ("pydrobert.speech.post", "PostProcessor"),
)
RATE = 1000
TINY_BANK = {"name": "fbank", "num_filts": 3, "low_hz": 0.0, "sampling_rate": RATE}
# values for constructor parameters that have no default, by parameter name
REQUIRED = {
    "low_hz": 20.0,
    "scaling_function": {"name": "mel"},
    "bank": TINY_BANK,
    "num_deltas": 1,
    "num_vectors": 2,
}


# ---------------------------------------------------------------- registry helpers


def _show(r):
    """deterministic text for a computers.call result (no object addresses)"""
    if r[0] == "ok":
        return "a %s instance" % type(r[1]).__name__
    return "%s: %s" % (r[1], r[2])


def _import(mod):
    import importlib

    return importlib.import_module(mod)


def _family(i):
    mod, name = FAMILIES[i]
    return getattr(_import(mod), name)


def _load_all():
    for mod, _ in FAMILIES:
        _import(mod)


def _walk(root):
    """root and all transitive subclasses defined by the library, creation order, no repeats"""
    out, queue = [], [root]
    while queue:
        c = queue.pop(0)
        if c in out:
            continue
        out.append(c)
        queue.extend(k for k in c.__subclasses__() if k.__module__.startswith("pydrobert."))
    return out


def _own_aliases(cls):
    a = vars(cls).get("aliases")
    return sorted(a) if a else []


def _unique_aliases(fam, cls):
    """aliases of cls that no other class of the family owns (shared ones are the registry /
    shadowing sub-checks' business)"""
    others = set(a for c in _walk(fam) if c is not cls for a in _own_aliases(c))
    return [a for a in _own_aliases(cls) if a not in others]


def _inherits_aliases(cls):
    return "aliases" not in vars(cls) and bool(getattr(cls, "aliases", None))


def _winner(owners):
    """the owner created last, when the library's creation order is observable: a single owner, or
    owners that are direct children of one parent (ordered by parent.__subclasses__()); else None"""
    if len(owners) == 1:
        return owners[0]
    bases = set(o.__bases__ for o in owners)
    if len(owners) > 1 and len(bases) == 1 and len(owners[0].__bases__) == 1:
        order = owners[0].__bases__[0].__subclasses__()
        return max(owners, key=order.index)
    return None


def _minimal_args(cls):
    """keyword arguments for the parameters without a default; None if one is unknown"""
    kw = {}
    for name, p in list(inspect.signature(cls.__init__).parameters.items())[1:]:
        if p.kind in (p.VAR_POSITIONAL, p.VAR_KEYWORD) or p.default is not p.empty:
            continue
        if name not in REQUIRED:
            return None
        kw[name] = copy.deepcopy(REQUIRED[name])
    return kw


def _all_aliases():
    _load_all()
    out = set()
    for i in range(len(FAMILIES)):
        for c in _walk(_family(i)):
            out.update(_own_aliases(c))
    return sorted(out)


def _registry_point(fi):
    _load_all()
    fam = _family(fi)
    fname = fam.__name__
    classes = _walk(fam)
    universe = _all_aliases() + ["", "nope"]
    fam_aliases = set(a for c in classes for a in _own_aliases(c))
    viol = []
    evals = nt = skipped = 0
    concrete = 0
    for q in classes:  # query root: the family and every class below it
        sub = _walk(q)
        for alias in universe:
            owners = [c for c in sub if alias in _own_aliases(c)]
            case = dict(family=fi, query=q.__name__, alias=alias)
            if any(_inherits_aliases(c) for c in sub) or (owners and _winner(owners) is None):
                skipped += 1  # creation order not observable here: the shadowing sub-check's business
                continue
            evals += 1
            if not owners:
                kind = ("empty" if alias == "" else "nonsense" if alias == "nope" else
                        "outside_subtree" if alias in fam_aliases else "other_family")
                r = computers.call(q.from_alias, alias)
                if not (r[0] == "exc" and r[1] == "ValueError"):
                    viol.append(core.violation(
                        dict(what="unknown_alias", family=fname, kind=kind,
                             got=("instance" if r[0] == "ok" else r[1])),
                        "%s.from_alias(%r): expected ValueError, got %s" % (
                            q.__name__, alias, _show(r)), case))
                continue
            cls = _winner(owners)
            kw = _minimal_args(cls)
            if kw is None or inspect.isabstract(cls):
                skipped += 1
                continue
            nt += 1
            concrete += q is fam
            r = computers.call(lambda: q.from_alias(alias, **kw))
            if r[0] != "ok":
                viol.append(core.violation(
                    dict(what="registry", family=fname, aspect="exception", exc=r[1]),
                    "%s.from_alias(%r, **%r) raised %s: %s" % (q.__name__, alias, kw, r[1], r[2]), case))
            elif type(r[1]) is not cls:
                viol.append(core.violation(
                    dict(what="registry", family=fname, aspect="wrong_class"),
                    "%s.from_alias(%r) built a %s, the alias belongs to %s" % (
                        q.__name__, alias, type(r[1]).__name__, cls.__name__), case))
    return core.result(viol, evals=evals, nontrivial_count=nt, skipped=skipped,
                       obs=[fname, len(classes), concrete],
                       sample=dict(family=fname, classes=[c.__name__ for c in classes],
                                   aliases=sorted(fam_aliases)))


def _registry_replay(case):
    _load_all()
    fam = _family(case["family"])
    q = [c for c in _walk(fam) if c.__name__ == case["query"]][0]
    alias = case["alias"]
    owners = [c for c in _walk(q) if alias in _own_aliases(c)]
    fam_aliases = set(a for c in _walk(fam) for a in _own_aliases(c))
    if not owners:
        kind = ("empty" if alias == "" else "nonsense" if alias == "nope" else
                "outside_subtree" if alias in fam_aliases else "other_family")
        r = computers.call(q.from_alias, alias)
        if not (r[0] == "exc" and r[1] == "ValueError"):
            return core.result([core.violation(
                dict(what="unknown_alias", family=fam.__name__, kind=kind,
                     got=("instance" if r[0] == "ok" else r[1])), _show(r), case)])
        return core.result([])
    cls = _winner(owners)
    kw = _minimal_args(cls)
    r = computers.call(lambda: q.from_alias(alias, **kw))
    if r[0] != "ok":
        return core.result([core.violation(
            dict(what="registry", family=fam.__name__, aspect="exception", exc=r[1]), _show(r), case)])
    if type(r[1]) is not cls:
        return core.result([core.violation(
            dict(what="registry", family=fam.__name__, aspect="wrong_class"),
            "built %s, expected %s" % (type(r[1]).__name__, cls.__name__), case)])
    return core.result([])


# ---------------------------------------------------------------- class statements executed again


def _redefinition_point(names):
    """a history of class statements under one private root in which NAMES repeat (a class statement
    in a factory function or loop, a re-run notebook cell, importlib.reload): every class carries alias
    'x' (and its own 'n<k>'); after every definition from_alias('x') must build the class OBJECT created
    last, whatever it is called, and 'n<k>' the k-th one"""
    root = _fresh_root()
    created = []
    viol = []
    evals = 0
    for k, name in enumerate(names):
        cls = type(name, (root,), {"aliases": {"x", "n%d" % k}, "__qualname__": name})
        created.append(cls)
        for alias, want in [("x", cls)] + [("n%d" % j, c) for j, c in enumerate(created)]:
            evals += 1
            r = computers.call(root.from_alias, alias)
            if not (r[0] == "ok" and type(r[1]) is want):
                which = created.index(type(r[1])) if r[0] == "ok" and type(r[1]) in created else None
                viol.append(core.violation(
                    dict(what="shadowing", redefinition=True, name_seen_before=name in names[:k],
                         got=("exception:" + r[1]) if r[0] != "ok" else "earlier_class"),
                    "class statements %r executed in this order under one root, all with alias 'x': after #%d "
                    "from_alias(%r) gave %s, expected definition #%d" % (
                        names[:k + 1], k, alias, "definition #%s (%s)" % (which, type(r[1]).__name__)
                        if r[0] == "ok" else _show(r), created.index(want)), dict(names=names)))
                return core.result(viol, evals=evals, nontrivial_count=evals, obs=[len(names), False])
    return core.result(viol, evals=evals, nontrivial_count=evals, obs=[len(names), True],
                       sample=dict(names=names))


# ---------------------------------------------------------------- near misses of registered aliases


def _variants(a):
    return [" " + a, a + " ", a + "\n", "\t" + a, " " + a + " ", a.upper(), a.capitalize(), a.swapcase(),
            a[:-1], a[1:], a + "x", a + a, a + "\x00", "_" + a]


def _near_miss_point(fi):
    """strings that are ALMOST a registered alias (surrounding whitespace, another case, one character
    missing or added) are unknown aliases like any other: ValueError through from_alias, through the bare
    string form of alias_factory_subclass_from_arg and through its mapping forms"""
    from pydrobert.speech import alias as alias_mod

    _load_all()
    fam = _family(fi)
    classes = _walk(fam)
    known = set(a for c in classes for a in _own_aliases(c))
    viol = []
    evals = 0
    sigs = set()
    for a in sorted(known):
        for v in _variants(a):
            if v in known:
                continue
            for route, fn in (("from_alias", lambda: fam.from_alias(v)),
                              ("str", lambda: alias_mod.alias_factory_subclass_from_arg(fam, v)),
                              ("mapping_alias", lambda: alias_mod.alias_factory_subclass_from_arg(fam, {"alias": v})),
                              ("mapping_name", lambda: alias_mod.alias_factory_subclass_from_arg(fam, {"name": v}))):
                evals += 1
                r = computers.call(fn)
                if not (r[0] == "exc" and r[1] == "ValueError"):
                    kind = ("whitespace" if v.strip() == a and v != a else "case" if v.lower() == a.lower()
                            else "edit")
                    t = dict(what="unknown_alias", family=fam.__name__, kind="near_miss_" + kind, route=route,
                             got=("instance" if r[0] == "ok" else r[1]))
                    k = core.sig_hash(t)
                    if k not in sigs:
                        sigs.add(k)
                        viol.append(core.violation(
                            t, "%s %r (a near miss of the registered alias %r): expected ValueError, got %s" % (
                                route, v, a, _show(r)), dict(family=fi)))
    return core.result(viol, evals=evals, nontrivial_count=evals, obs=[fam.__name__, len(known), len(viol) == 0],
                       sample=dict(family=fam.__name__, aliases=len(known), variants_per_alias=14))


# ---------------------------------------------------------------- shadowing


def _fresh_root():
    """a private family: nothing is ever added below the library's own families"""
    from pydrobert.speech.alias import AliasedFactory

    class PrivateRoot(AliasedFactory):
        aliases = set()

        def __init__(self, **kw):
            self.kw = kw

    return PrivateRoot


def _shapes(k):
    """parent of class i is the root (-1) or an earlier class: k! shapes"""
    return [list(p) for p in itertools.product(*[range(-1, i) for i in range(k)])]


def _chain(parents, i):
    out = [i]
    while out[-1] != -1:
        out.append(parents[out[-1]])
    return out  # i, parent, ..., -1


def _later_desc_of_earlier_sibling(parents, i, j):
    """i < j.  At the lowest common ancestor, does j's branch start at a class created before
    the class that starts i's branch?  (Then j is a strict descendant of an earlier-created
    sibling of i's branch.)"""
    ci, cj = _chain(parents, i), _chain(parents, j)
    if i in cj:
        return False  # j descends from i itself
    common = [a for a in ci if a in cj]
    lca = common[0]
    bi = ci[ci.index(lca) - 1]
    bj = cj[cj.index(lca) - 1]
    return bj < bi


def _build(parents, pair):
    root = _fresh_root()
    classes = []
    for i, p in enumerate(parents):
        base = root if p == -1 else classes[p]
        aliases = {"u%d" % i}
        if i in pair:
            aliases.add("x")
        classes.append(type("K%d" % i, (base,), {"aliases": aliases}))
    return root, classes


def _shadow_case(parents, pair):
    """one hierarchy, one sharing pair, every class as query root -> (violations, evals, nontrivial)"""
    i, j = pair
    root, classes = _build(parents, pair)
    flag = _later_desc_of_earlier_sibling(parents, i, j)
    viol = []
    seen = set()
    evals = nt = 0
    for qi in [-1] + list(range(len(parents))):
        q = root if qi == -1 else classes[qi]
        cand = [c for c in (i, j) if qi == -1 or qi in _chain(parents, c)]
        evals += 1
        r = computers.call(q.from_alias, "x")
        case = dict(parents=parents, pair=[i, j], query=qi)
        if not cand:
            if not (r[0] == "exc" and r[1] == "ValueError"):
                tags = dict(what="unknown_alias", family="private", kind="outside_subtree",
                            got=("instance" if r[0] == "ok" else r[1]))
                if core.sig_hash(tags) not in seen:
                    seen.add(core.sig_hash(tags))
                    viol.append(core.violation(tags, "K%d.from_alias('x'): expected ValueError, got %s"
                                               % (qi, _show(r)), case))
            continue
        want = classes[max(cand)]
        nt += int(len(cand) == 2)
        if r[0] == "ok" and type(r[1]) is want:
            continue
        if r[0] != "ok":
            got = "exception:" + r[1]
        elif len(cand) == 2 and type(r[1]) is classes[min(cand)]:
            got = "earlier_class"
        else:
            got = "unrelated_class"
        tags = dict(what="shadowing", later_is_descendant_of_earlier_sibling=bool(flag and len(cand) == 2),
                    got=got)
        if core.sig_hash(tags) in seen:
            continue
        seen.add(core.sig_hash(tags))
        viol.append(core.violation(
            tags, "classes created in order K0..K%d with parents %r (-1 = root); K%d and K%d share alias "
            "'x'; %s.from_alias('x') gave %s, the class created last is %s" % (
                len(parents) - 1, parents, i, j, "root" if qi == -1 else "K%d" % qi,
                _show(r), want.__name__), case))
    # the unshared aliases still resolve
    for c, cls in enumerate(classes):
        evals += 1
        r = computers.call(root.from_alias, "u%d" % c)
        if not (r[0] == "ok" and type(r[1]) is cls):
            tags = dict(what="registry", family="private", aspect="wrong_class")
            if core.sig_hash(tags) not in seen:
                seen.add(core.sig_hash(tags))
                viol.append(core.violation(tags, "unique alias u%d gave %s" % (c, _show(r)),
                                           dict(parents=parents, pair=[i, j], query=-1)))
    return viol, evals, nt, flag


def _shadow_point(parents):
    viol = []
    seen = set()
    evals = nt = flagged = 0
    for pair in itertools.combinations(range(len(parents)), 2):
        v, e, n, flag = _shadow_case(parents, pair)
        evals += e
        nt += n
        flagged += int(flag)
        for x in v:
            h = core.sig_hash(x["tags"])
            if h not in seen:
                seen.add(h)
                viol.append(x)
    return core.result(viol, evals=evals, nontrivial_count=nt,
                       obs=[len(parents), flagged > 0, len(viol) == 0],
                       sample=dict(parents=parents, pairs=len(parents) * (len(parents) - 1) // 2,
                                   pairs_with_later_under_earlier_sibling=flagged))


def _shadow_replay(case):
    v, _, _, _ = _shadow_case(case["parents"], tuple(case["pair"]))
    return core.result(v)


def _shadow_interleaved_case(parents, pair):
    """lookup / register / lookup histories: the classes are created one at a time and after EVERY
    creation every query (root and each existing class, the shared alias and each unique alias) is
    made, so a resolution computed before a later registration is exercised again after it."""
    i, j = pair
    root = _fresh_root()
    classes = []
    viol = []
    seen = set()
    evals = nt = 0
    # queries before any class exists
    r = computers.call(root.from_alias, "x")
    evals += 1
    if not (r[0] == "exc" and r[1] == "ValueError"):
        viol.append(core.violation(dict(what="unknown_alias", family="private", kind="before_creation",
                                        got=("instance" if r[0] == "ok" else r[1])),
                                   "alias 'x' resolved before any class carried it: %s" % _show(r),
                                   dict(parents=parents, pair=[i, j], interleaved=True)))
    for step, p in enumerate(parents):
        base = root if p == -1 else classes[p]
        aliases = {"u%d" % step}
        if step in pair:
            aliases.add("x")
        classes.append(type("K%d" % step, (base,), {"aliases": aliases}))
        existing = [c for c in (i, j) if c <= step]
        for qi in [-1] + list(range(step + 1)):
            q = root if qi == -1 else classes[qi]
            cand = [c for c in existing if qi == -1 or qi in _chain(parents, c)]
            evals += 1
            r = computers.call(q.from_alias, "x")
            case = dict(parents=parents, pair=[i, j], interleaved=True)
            if not cand:
                ok = r[0] == "exc" and r[1] == "ValueError"
                tags = dict(what="unknown_alias", family="private", kind="interleaved",
                            got=("instance" if r[0] == "ok" else r[1]))
            else:
                want = classes[max(cand)]
                nt += int(len(cand) == 2)
                ok = r[0] == "ok" and type(r[1]) is want
                tags = dict(what="shadowing", interleaved=True,
                            stale_after_registration=bool(r[0] == "ok" and len(cand) == 2
                                                          and type(r[1]) is classes[min(cand)]),
                            later_is_descendant_of_earlier_sibling=bool(
                                len(cand) == 2 and _later_desc_of_earlier_sibling(parents, i, j)))
            if not ok and core.sig_hash(tags) not in seen:
                seen.add(core.sig_hash(tags))
                viol.append(core.violation(
                    tags, "after creating K0..K%d (parents %r, K%d/K%d share 'x', queries made after every "
                    "creation): %s.from_alias('x') gave %s" % (
                        step, parents[:step + 1], i, j, "root" if qi == -1 else "K%d" % qi, _show(r)), case))
        for c in range(step + 1):
            evals += 1
            r = computers.call(root.from_alias, "u%d" % c)
            if not (r[0] == "ok" and type(r[1]) is classes[c]):
                tags = dict(what="registry", family="private", aspect="wrong_class", interleaved=True)
                if core.sig_hash(tags) not in seen:
                    seen.add(core.sig_hash(tags))
                    viol.append(core.violation(tags, "unique alias u%d gave %s after step %d" % (
                        c, _show(r), step), dict(parents=parents, pair=[i, j], interleaved=True)))
    return viol, evals, nt


def _shadow_interleaved_point(parents):
    viol = []
    seen = set()
    evals = nt = 0
    for pair in itertools.combinations(range(len(parents)), 2):
        v, e, n = _shadow_interleaved_case(parents, pair)
        evals += e
        nt += n
        for x in v:
            h = core.sig_hash(x["tags"])
            if h not in seen:
                seen.add(h)
                viol.append(x)
    return core.result(viol, evals=evals, nontrivial_count=nt, obs=[len(parents), len(viol) == 0],
                       sample=dict(parents=parents, queries_after_every_creation=True))


def _shadow_interleaved_replay(case):
    v, _, _ = _shadow_interleaved_case(case["parents"], tuple(case["pair"]))
    return core.result(v)


def _inherit_case(parents, inheritor):
    """class `inheritor` does not declare `aliases`: it shares its parent's set by inheritance, so
    it shares every alias of the parent and, being created later, must win them."""
    root = _fresh_root()
    classes = []
    for i, p in enumerate(parents):
        base = root if p == -1 else classes[p]
        body = {} if i == inheritor else {"aliases": {"u%d" % i}}
        classes.append(type("K%d" % i, (base,), body))
    viol = []
    evals = nt = 0
    for a in range(len(parents)):
        if a == inheritor:
            continue
        alias = "u%d" % a
        carriers = [i for i, c in enumerate(classes) if alias in c.aliases]
        for qi in [-1] + list(range(len(parents))):
            q = root if qi == -1 else classes[qi]
            cand = [c for c in carriers if qi == -1 or qi in _chain(parents, c)]
            evals += 1
            r = computers.call(q.from_alias, alias)
            if not cand:
                ok = r[0] == "exc" and r[1] == "ValueError"
            else:
                nt += int(len(cand) > 1)
                ok = r[0] == "ok" and type(r[1]) is classes[max(cand)]
            if not ok:
                viol.append(core.violation(
                    dict(what="shadowing", inherited_aliases=True,
                         got=("parent" if r[0] == "ok" and cand and type(r[1]) is classes[min(cand)] else
                              ("exception:" + r[1] if r[0] != "ok" else "other"))),
                    "parents %r, K%d inherits `aliases` from K%d without redeclaring it; %s.from_alias(%r) "
                    "gave %s, carriers created in order %r" % (
                        parents, inheritor, parents[inheritor], "root" if qi == -1 else "K%d" % qi, alias,
                        _show(r), cand), dict(parents=parents, inheritor=inheritor)))
                return viol, evals, nt
    return viol, evals, nt


def _inherit_point(parents):
    viol, evals, nt = [], 0, 0
    for inh in range(len(parents)):
        if parents[inh] == -1:
            continue  # the root carries no alias to inherit
        v, e, n = _inherit_case(parents, inh)
        viol.extend(v[:1] if viol else v)
        evals += e
        nt += n
    return core.result(viol[:3], evals=evals, nontrivial_count=nt, obs=[len(parents), len(viol) == 0],
                       sample=dict(parents=parents))


def _inherit_replay(case):
    v, _, _ = _inherit_case(case["parents"], case["inheritor"])
    return core.result(v)


# ---------------------------------------------------------------- from_arg

MAPPING_TYPES = ("dict", "OrderedDict", "MappingProxyType", "ChainMap", "ReadOnlyMapping")


class _ReadOnlyMapping(collections.abc.Mapping):
    """a minimal read-only Mapping (no copy(), no pop()): all the documentation asks for"""

    def __init__(self, d):
        self._d = dict(d)

    def __getitem__(self, k):
        return self._d[k]

    def __iter__(self):
        return iter(self._d)

    def __len__(self):
        return len(self._d)


def _as_mapping(kind, d):
    if kind == "dict":
        return dict(d)
    if kind == "OrderedDict":
        return collections.OrderedDict(d)
    if kind == "ChainMap":
        # every key lives in the LOWER layer of the chain (overrides on top are empty)
        return collections.ChainMap({}, dict(d))
    if kind == "ReadOnlyMapping":
        return _ReadOnlyMapping(d)
    return types.MappingProxyType(dict(d))


def _unchanged(m, snapshot):
    if isinstance(m, collections.ChainMap):
        return dict(m) == dict(snapshot) and m.maps[0] == {}
    return dict(m) == snapshot and list(m) == list(snapshot)


def _harness_family():
    root = _fresh_root()

    class K(root):
        aliases = {"k", "kay"}

        def __init__(self, name=None, x=0):
            self.name, self.x = name, x

    class J(root):
        aliases = {"j"}

        def __init__(self, name=None, x=0):
            self.name, self.x = name, x

    return root, K, J


def _from_arg_harness(mt):
    """the contract on a private family whose constructors accept `name`"""
    from pydrobert.speech.alias import alias_factory_subclass_from_arg as afs

    root, K, J = _harness_family()
    viol = []
    n = 0

    def bad(aspect, detail, scen):
        viol.append(core.violation(dict(what="from_arg", aspect=aspect, mapping=mt, target="private"),
                                   detail, dict(part="harness", mapping=mt, scenario=scen)))

    nested = {"deep": {"a": [1, 2], "b": {"c": 3}}}
    scenarios = [
        # name, items, expected class, expected .name, expected .x
        ("alias_only", [("alias", "k"), ("x", 3)], K, None, 3),
        ("alias_only_2nd_alias", [("alias", "kay")], K, None, 0),
        ("name_only", [("name", "k"), ("x", 3)], K, None, 3),
        ("alias_and_name", [("alias", "k"), ("name", "bob"), ("x", 4)], K, "bob", 4),
        ("name_then_alias", [("name", "bob"), ("alias", "k")], K, "bob", 0),
        ("alias_beats_name_that_is_an_alias", [("alias", "k"), ("name", "j")], K, "j", 0),
        ("name_that_is_an_alias_then_alias", [("name", "j"), ("alias", "k")], K, "j", 0),
        ("nested_value", [("name", "j"), ("x", nested)], J, None, nested),
    ]
    for scen, items, cls, wname, wx in scenarios:
        n += 1
        src = collections.OrderedDict(copy.deepcopy(items))
        snap = copy.deepcopy(dict(src))
        snap = collections.OrderedDict((k, snap[k]) for k in src)
        m = _as_mapping(mt, src)
        r = computers.call(afs, root, m)
        if r[0] != "ok":
            bad("exception:" + r[1], "%s %r raised %s: %s" % (mt, dict(snap), r[1], r[2]), scen)
            continue
        o = r[1]
        if type(o) is not cls:
            bad("alias_precedence" if "alias" in snap and "name" in snap else "wrong_class",
                "%r built %s, expected %s" % (dict(snap), type(o).__name__, cls.__name__), scen)
        elif o.name != wname or o.x != wx:
            bad("keyword_arguments", "%r built %s(name=%r, x=%r), expected name=%r x=%r" % (
                dict(snap), cls.__name__, o.name, o.x, wname, wx), scen)
        if not _unchanged(m, snap):
            bad("mapping_modified", "argument changed from %r to %r" % (dict(snap), dict(m)), scen)
    # instance, str, unknown
    inst = K(name="z")
    n += 4
    r = computers.call(afs, root, inst)
    if not (r[0] == "ok" and r[1] is inst):
        bad("instance_not_returned", "instance in, %s out" % ("another object" if r[0] == "ok" else _show(r)), "instance")
    r = computers.call(afs, root, "kay")
    if not (r[0] == "ok" and type(r[1]) is K and r[1].name is None and r[1].x == 0):
        bad("str", "'kay' gave %s" % _show(r), "str")
    r = computers.call(afs, root, "nope")
    if not (r[0] == "exc" and r[1] == "ValueError"):
        bad("unknown_alias", "'nope' gave %s" % _show(r), "str_unknown")
    r = computers.call(afs, root, _as_mapping(mt, {"alias": "nope", "name": "k"}))
    if not (r[0] == "exc" and r[1] == "ValueError"):
        bad("unknown_alias", "{'alias': 'nope', 'name': 'k'} gave %s" % _show(r), "map_unknown")
    # the class registered last wins EVEN IF its constructor rejects the arguments: silently building
    # an older class that shares the alias is not "last registered wins"
    n += 2

    class Old(root):
        aliases = {"shared"}

        def __init__(self, a=0, b=0):
            self.a, self.b = a, b

    class New(root):
        aliases = {"shared"}

        def __init__(self, a=0):
            self.a = a

    r = computers.call(afs, root, _as_mapping(mt, {"alias": "shared", "a": 1}))
    if not (r[0] == "ok" and type(r[1]) is New and r[1].a == 1):
        bad("ctor_mismatch", "{'alias': 'shared', 'a': 1} gave %s, expected the later class New" % _show(r),
            "ctor_ok")
    r = computers.call(afs, root, _as_mapping(mt, {"alias": "shared", "a": 1, "b": 2}))
    if r[0] == "ok":
        bad("ctor_mismatch", "{'alias': 'shared', 'a': 1, 'b': 2}: the class registered last (New) does not "
            "accept b, yet %s was built instead of an error" % _show(r), "ctor_rejects")
    # an 'alias' that is present but falsy still takes precedence over 'name' (and is unknown)
    for scen, m in (("empty_alias_and_name", {"alias": "", "name": "k"}),
                    ("empty_alias_only", {"alias": ""}),
                    ("empty_name_only", {"name": ""})):
        n += 1
        r = computers.call(afs, root, _as_mapping(mt, m))
        if not (r[0] == "exc" and r[1] == "ValueError"):
            bad("falsy_alias", "%r gave %s, expected ValueError (the alias '' is unknown)" % (m, _show(r)), scen)
    # call history: a string means "default arguments" every time, whatever happened to objects
    # built from the same string before
    n += 1
    r1 = computers.call(afs, root, "k")
    if r1[0] == "ok":
        r1[1].x = "scribbled"
        r1[1].name = "scribbled"
        r2 = computers.call(afs, root, "k")
        if not (r2[0] == "ok" and type(r2[1]) is K and r2[1].x == 0 and r2[1].name is None):
            bad("str_history", "second object built from 'k' after the first one was modified: %s x=%r" % (
                _show(r2), getattr(r2[1], "x", None) if r2[0] == "ok" else None), "str_history")
        r3 = computers.call(afs, root, _as_mapping(mt, {"alias": "k"}))
        if not (r3[0] == "ok" and r3[1].x == 0 and r3[1].name is None):
            bad("str_history", "object built from {'alias': 'k'} after an earlier one was modified", "map_history")
    return viol, n


def _nested_required(cls):
    """minimal arguments, with nested components given as mappings (so that nested mappings are
    exercised too)"""
    kw = _minimal_args(cls)
    if kw is None:
        return None
    if "bank" in kw:
        kw["bank"] = {"alias": "gabor", "scaling_function": {"name": "linear", "low_hz": 0.0},
                      "num_filts": 2, "low_hz": 0.0, "sampling_rate": RATE}
        if "window_function" in inspect.signature(cls.__init__).parameters:
            kw["window_function"] = {"name": "gamma", "order": 2}
    return kw


def _from_arg_library(fi, mt):
    from pydrobert.speech.alias import alias_factory_subclass_from_arg as afs

    _load_all()
    fam = _family(fi)
    viol = []
    n = nt = skipped = 0

    def bad(aspect, detail, cls, alias, form):
        viol.append(core.violation(
            dict(what="from_arg", aspect=aspect, mapping=mt, target=fam.__name__), detail,
            dict(part="library", family=fi, mapping=mt, cls=cls.__name__, alias=alias, form=form)))

    for cls in _walk(fam):
        if inspect.isabstract(cls) or not _own_aliases(cls):
            continue
        kw = _nested_required(cls)
        if kw is None:
            skipped += 1
            continue
        r = computers.call(lambda: cls(**copy.deepcopy(kw)))
        if r[0] != "ok":
            # direct construction itself goes through nested aliases (bank, scale, window)
            bad("exception:" + r[1], "%s(**%r) raised %s" % (cls.__name__, kw, _show(r)), cls, None,
                "construct")
            continue
        inst = r[1]
        n += 1
        r = computers.call(afs, fam, inst)
        if not (r[0] == "ok" and r[1] is inst):
            bad("instance_not_returned", "%s instance in, %s out" % (
                cls.__name__, "another object" if r[0] == "ok" else _show(r)), cls, None,
                "instance")
        for alias in _unique_aliases(fam, cls):
            n += 1
            r = computers.call(afs, fam, alias)
            if kw:
                # "a string is an alias with default arguments": this class has none for %r
                if r[0] == "ok" and type(r[1]) is not cls:
                    bad("wrong_class", "%r built %s" % (alias, type(r[1]).__name__), cls, alias, "str")
            elif not (r[0] == "ok" and type(r[1]) is cls):
                bad("str", "%r gave %s, expected a %s" % (alias, _show(r), cls.__name__), cls, alias, "str")
            elif not kw:
                # call history: scribble over the first object, build from the same string again
                n += 1
                first = r[1]
                fresh = computers.canon_value(vars(cls()), 1)
                for name in list(vars(first)):
                    try:
                        setattr(first, name, "scribbled")
                    except Exception:
                        pass
                r2 = computers.call(afs, fam, alias)
                if not (r2[0] == "ok" and type(r2[1]) is cls and r2[1] is not first
                        and computers.canon_value(vars(r2[1]), 1) == fresh):
                    bad("str_history", "%r: the second object built from this string after the first was "
                        "modified is not a default %s: %s" % (alias, cls.__name__, _show(r2)), cls, alias,
                        "str_history")
            for key in ("alias", "name"):
                n += 1
                nt += 1
                src = collections.OrderedDict([(key, alias)] + list(copy.deepcopy(kw).items()))
                snap = copy.deepcopy(src)
                m = _as_mapping(mt, src)
                r = computers.call(afs, fam, m)
                if r[0] != "ok":
                    bad("exception:" + r[1], "%s %r raised %s: %s" % (mt, dict(snap), r[1], r[2]), cls,
                        alias, key)
                elif type(r[1]) is not cls:
                    bad("wrong_class", "%r built %s, expected %s" % (dict(snap), type(r[1]).__name__,
                                                                   cls.__name__), cls, alias, key)
                if not _unchanged(m, snap):
                    bad("mapping_modified", "argument changed from %r to %r" % (dict(snap), dict(m)),
                        cls, alias, key)
    return viol, n, nt, skipped


def _from_arg_point(pt):
    part, fi, mt = pt
    if part == "harness":
        viol, n = _from_arg_harness(mt)
        return core.result(viol, evals=n, nontrivial_count=n, obs=["harness", mt, len(viol) == 0],
                           sample=dict(part=part, mapping=mt))
    viol, n, nt, skipped = _from_arg_library(fi, mt)
    return core.result(viol, evals=n, nontrivial_count=nt, skipped=skipped,
                       obs=[FAMILIES[fi][1], mt, len(viol) == 0],
                       sample=dict(part=part, family=FAMILIES[fi][1], mapping=mt))


def _from_arg_replay(case):
    if case["part"] == "harness":
        viol, _ = _from_arg_harness(case["mapping"])
    else:
        viol, _, _, _ = _from_arg_library(case["family"], case["mapping"])
    return core.result(viol)


# ---------------------------------------------------------------- nested configuration

# optional parameter sets by class name (beyond the constructor's required arguments)
PARAMS = {
    "LinearScaling": [{"low_hz": 0.0}, {"low_hz": 10.0, "slope_hz": 0.5}],
    "OctaveScaling": [{"low_hz": 20.0}],
    "GammaWindow": [{}, {"order": 2, "peak": 0.8}],
    "ComplexGammatoneFilterBank": [{}, {"max_centered": True, "order": 2}],
    "GaborFilterBank": [{}, {"erb": True}],
    "TriangularOverlappingFilterBank": [{}, {"analytic": True}],
    "Fbank": [{}, {"analytic": True}],
}
BANK_COMMON = {"num_filts": 3, "low_hz": 20.0, "sampling_rate": RATE}
COMPUTER_KW = {
    "stft": [{"frame_length_ms": 8.5, "frame_shift_ms": 3.5},
             {"frame_length_ms": 9.5, "frame_shift_ms": 2.5, "include_energy": True, "use_power": True,
              "pad_to_nearest_power_of_two": False, "frame_style": "centered", "kaldi_shift": True}],
    "si": [{"frame_shift_ms": 3.5},
           {"frame_shift_ms": 2.5, "include_energy": True, "use_power": True, "use_log": False,
            "frame_style": "causal"}],
}


def _cls(modname, name):
    return getattr(_import(modname), name)


def _param_sets(cls, tier):
    base = _minimal_args(cls)
    if base is None:
        return []
    base = {k: v for k, v in base.items() if k not in ("scaling_function", "bank")}
    sets = PARAMS.get(cls.__name__, [dict(base)])
    sets = [dict(base, **s) for s in sets]
    return sets if tier == "thorough" else sets[:1]


def _node(key, alias, params, style):
    if style == "str_leaves" and not params:
        return alias
    d = {("alias" if style == "alias" else "name"): alias}
    d.update(params)
    return d


def _nested_case(c, seed):
    """c: JSON-able description -> violations, observation"""
    from pydrobert.speech import compute
    from pydrobert.speech.alias import alias_factory_subclass_from_arg as afs

    _load_all()
    style = c["style"]
    comp_cls = _cls("pydrobert.speech.compute", c["computer"]["cls"])
    bank_cls = _cls("pydrobert.speech.filters", c["bank"]["cls"])
    win_cls = _cls("pydrobert.speech.filters", c["window"]["cls"])
    has_scale = c.get("scale") is not None
    # --- the JSON tree
    bank_node = {("alias" if style == "alias" else "name"): c["bank"]["alias"]}
    bank_node.update(c["bank"]["params"])
    if has_scale:
        scale_cls = _cls("pydrobert.speech.scales", c["scale"]["cls"])
        bank_node["scaling_function"] = _node("scale", c["scale"]["alias"], c["scale"]["params"], style)
    tree = {("alias" if style == "alias" else "name"): c["computer"]["alias"]}
    tree.update(c["computer"]["params"])
    tree["bank"] = bank_node
    tree["window_function"] = _node("window", c["window"]["alias"], c["window"]["params"], style)
    tree = json.loads(json.dumps(tree))
    snap = copy.deepcopy(tree)
    x = sig.signal(seed, 64)
    tags = dict(what="nested_config", computer=comp_cls.__name__, style=style)

    # --- explicit twin
    def explicit():
        kw = dict(c["bank"]["params"])
        if has_scale:
            kw["scaling_function"] = scale_cls(**c["scale"]["params"])
        bank = bank_cls(**kw)
        win = win_cls(**c["window"]["params"])
        return comp_cls(bank, window_function=win, **c["computer"]["params"])

    def via_from_arg():
        return afs(compute.FrameComputer, tree)

    def via_from_alias():
        t = copy.deepcopy(snap)
        name = t.pop("alias" if style == "alias" else "name")
        return compute.FrameComputer.from_alias(name, **t)

    re_ = computers.call(explicit)
    viol = []
    obs = None
    for how, build in (("from_arg", via_from_arg), ("from_alias", via_from_alias)):
        ra = computers.call(build)
        if re_[0] != "ok" or ra[0] != "ok":
            if re_[0] != "ok" and ra[0] != "ok" and re_[1] == ra[1]:
                obs = "unconstructible:" + re_[1]  # the configuration itself is invalid, both ways
                continue
            viol.append(core.violation(
                dict(tags, aspect="construction", via=how),
                "explicit construction: %r; from configuration %s: %r" % (
                    re_[:2] if re_[0] != "ok" else "ok", json.dumps(snap), ra[:3] if ra[0] != "ok" else "ok"),
                c))
            continue
        ce, ca = re_[1], ra[1]
        if type(ca) is not comp_cls or type(ca.bank) is not bank_cls:
            viol.append(core.violation(
                dict(tags, aspect="wrong_class", via=how),
                "configuration %s built %s with a %s" % (json.dumps(snap), type(ca).__name__,
                                                        type(ca.bank).__name__), c))
            continue
        fe = computers.call(ce.compute_full, sig.ro(x))
        fa = computers.call(ca.compute_full, sig.ro(x))
        if fe[0] != "ok" or fa[0] != "ok":
            if fe[0] == fa[0] and fe[1] == fa[1]:
                obs = "compute_raises:" + fe[1]
                continue
            viol.append(core.violation(dict(tags, aspect="compute_exception", via=how),
                                       "explicit %r, configured %r" % (fe[:2], fa[:2]), c))
            continue
        if not (fe[1].shape == fa[1].shape and np.array_equal(fe[1], fa[1], equal_nan=True)):
            viol.append(core.violation(
                dict(tags, aspect="features_differ", via=how, bank=bank_cls.__name__),
                "configuration %s: features differ from the explicitly built twin (shapes %r / %r%s)" % (
                    json.dumps(snap), fa[1].shape, fe[1].shape,
                    ", max |diff| %.3g" % float(np.max(np.abs(fe[1] - fa[1])))
                    if fe[1].shape == fa[1].shape and fe[1].size else ""), c))
        obs = "frames" if fe[1].shape[0] and np.all(np.isfinite(fe[1])) else "empty_or_nonfinite"
    if tree != snap:
        viol.append(core.violation(dict(tags, aspect="mapping_modified", via="from_arg"),
                                   "the configuration tree changed from %s to %s" % (
                                       json.dumps(snap), json.dumps(tree)), c))
    return viol, obs


def _nested_point(c, seed):
    viol, obs = _nested_case(c, seed)
    return core.result(viol, nontrivial=(obs == "frames"), skipped=str(obs).startswith("unconstructible"),
                       obs=[c["computer"]["alias"], c["bank"]["cls"], obs],
                       sample=dict(computer=c["computer"]["alias"], bank=c["bank"]["alias"],
                                   scale=(c["scale"] or {}).get("alias"), window=c["window"]["alias"],
                                   style=c["style"]))


def _nested_points(tier):
    _load_all()
    from pydrobert.speech import compute, filters, scales

    def concrete(root):
        return [k for k in _walk(root) if not inspect.isabstract(k) and _own_aliases(k)]

    pts = []
    for comp in concrete(compute.FrameComputer):
        sigp = inspect.signature(comp.__init__).parameters
        if "bank" not in sigp or "window_function" not in sigp:
            continue
        for ca in _unique_aliases(compute.FrameComputer, comp):
            cparams = COMPUTER_KW.get(ca, [{}])
            cparams = cparams if tier == "thorough" else cparams[:1]
            for cp in cparams:
                for bank in concrete(filters.LinearFilterBank):
                    takes_scale = "scaling_function" in inspect.signature(bank.__init__).parameters
                    for ba in _unique_aliases(filters.LinearFilterBank, bank):
                        for bp in _param_sets(bank, tier):
                            bp = dict(BANK_COMMON, **bp)
                            scale_axis = []
                            if takes_scale:
                                for sc in concrete(scales.ScalingFunction):
                                    for sa in _unique_aliases(scales.ScalingFunction, sc):
                                        for sp in _param_sets(sc, tier):
                                            scale_axis.append(dict(cls=sc.__name__, alias=sa, params=sp))
                            else:
                                scale_axis.append(None)
                            for scale in scale_axis:
                                for win in concrete(filters.WindowFunction):
                                    for wa in _unique_aliases(filters.WindowFunction, win):
                                        for wp in _param_sets(win, tier):
                                            for style in ("name", "alias", "str_leaves"):
                                                pts.append(dict(
                                                    computer=dict(cls=comp.__name__, alias=ca, params=cp),
                                                    bank=dict(cls=bank.__name__, alias=ba, params=bp),
                                                    scale=scale,
                                                    window=dict(cls=win.__name__, alias=wa, params=wp),
                                                    style=style))
    return pts


# ---------------------------------------------------------------- sub-checks


def _family_aliases(fi):
    out = set()
    for c in _walk(_family(fi)):
        out.update(_own_aliases(c))
    return out


def _nested_foreign_point(kind):
    """an alias that belongs to ANOTHER family, given in a nested slot (bank / scaling_function /
    window_function of a computer configuration), is unknown THERE and must raise ValueError - each
    slot is resolved within its own family"""
    from pydrobert.speech.alias import alias_factory_subclass_from_arg as afs
    from pydrobert.speech.compute import FrameComputer

    _load_all()
    fam_index = {f[1]: i for i, f in enumerate(FAMILIES)}
    slots = {"scaling_function": "ScalingFunction", "bank": "LinearFilterBank",
             "window_function": "WindowFunction"}
    viol = []
    evals = 0
    base = {"name": kind, "bank": {"name": "gabor", "scaling_function": "mel", "num_filts": 2, "low_hz": 0.0,
                                   "sampling_rate": RATE}, "window_function": "hamming"}
    for slot, famname in slots.items():
        own = _family_aliases(fam_index[famname])
        foreign = sorted(set(_all_aliases()) - own)
        for alias in foreign:
            for form in ("str", "name", "alias"):
                cfgd = copy.deepcopy(base)
                val = alias if form == "str" else {form: alias}
                if slot == "scaling_function":
                    cfgd["bank"]["scaling_function"] = val
                else:
                    cfgd[slot] = val
                evals += 1
                r = computers.call(afs, FrameComputer, cfgd)
                if not (r[0] == "exc" and r[1] == "ValueError"):
                    viol.append(core.violation(
                        dict(what="nested_config", aspect="foreign_alias", slot=slot, computer=kind,
                             got=("instance" if r[0] == "ok" else r[1])),
                        "%r in slot %s of a %r configuration (an alias of another family) gave %s, expected "
                        "ValueError" % (val, slot, kind, _show(r)), dict(kind=kind)))
                    break
            else:
                continue
            break
    return core.result(viol, evals=evals, nontrivial_count=evals, obs=[kind, len(viol) == 0],
                       sample=dict(computer=kind, slots=sorted(slots)))


def subchecks(tier, seed):
    core.setup_repo_path()
    kmax = 5 if tier == "quick" else 7
    shapes = [p for k in range(1, kmax + 1) for p in _shapes(k)]
    fa_pts = [("harness", -1, mt) for mt in MAPPING_TYPES] + \
             [("library", fi, mt) for fi in range(len(FAMILIES)) for mt in MAPPING_TYPES]
    npts = _nested_points(tier)
    return [
        core.SubCheck(
            "registry", list(range(len(FAMILIES))), _registry_point,
            "per family: every class of the family as query root x every alias registered in any of the "
            "six families + '' + 'nope'; an alias owned by one class of the queried sub-tree builds "
            "exactly that class (minimal constructor arguments), every other alias raises ValueError; "
            "non-trivial = an instance had to be built",
            axes=dict(family=[f[1] for f in FAMILIES], alias="all registered + '' + 'nope'"),
            replay=_registry_replay, serial=True),
        core.SubCheck(
            "redefinition", [list(n) for k in range(1, 6) for n in itertools.product("ABC", repeat=k)],
            _redefinition_point,
            "every sequence of 1..5 class statements over the NAMES {A, B, C} (names repeat: a class statement "
            "executed again) under one private root, all carrying alias 'x': after every definition the alias "
            "builds the class object created last and every private alias its own definition",
            replay=lambda case: _redefinition_point(case["names"])),
        core.SubCheck(
            "near_miss_aliases", list(range(len(FAMILIES))), _near_miss_point,
            "per family: every registered alias x 14 near misses (surrounding whitespace, other case, one "
            "character dropped / added, doubled) that are not themselves registered x {from_alias, bare string, "
            "mapping with alias, mapping with name}: ValueError",
            replay=lambda case: _near_miss_point(case["family"])),
        core.SubCheck(
            "shadowing", shapes, _shadow_point,
            "every tree of k <= %d classes created in index order under a fresh private root (parent of "
            "class i in {root, 0..i-1}: k! shapes) x every pair sharing alias 'x' x every class as query "
            "root: from_alias('x') builds the later-created class of the pair inside the queried sub-tree "
            "(ValueError if neither is inside); non-trivial = both classes are inside" % kmax,
            axes=dict(k=list(range(1, kmax + 1)), shapes=len(shapes)),
            replay=_shadow_replay),
        core.SubCheck(
            "shadowing_interleaved", [p for k in range(1, kmax) for p in _shapes(k)],
            _shadow_interleaved_point,
            "lookup/register/lookup histories: the same trees (k <= %d) are created ONE CLASS AT A TIME and "
            "after every creation every query (root and every existing class; shared and unique aliases) "
            "is repeated, so a resolution made before a later registration must be superseded by it; "
            "non-trivial = both classes of the pair exist and are inside the queried sub-tree" % (kmax - 1),
            axes=dict(k=list(range(1, kmax))), replay=_shadow_interleaved_replay),
        core.SubCheck(
            "inherited_aliases", [p for k in range(2, kmax) for p in _shapes(k)], _inherit_point,
            "the same trees with one class that does NOT declare `aliases` (it shares its parent's set by "
            "inheritance): for every alias of the parent and every query root the latest-created carrier "
            "inside the queried sub-tree wins; non-trivial = more than one carrier inside",
            axes=dict(k=list(range(2, kmax))), replay=_inherit_replay),
        core.SubCheck(
            "from_arg", fa_pts, _from_arg_point,
            "alias_factory_subclass_from_arg over (private family with constructors accepting `name` | "
            "each library family x concrete class x alias) x form (instance, str, mapping with alias / "
            "name / both in either order / a name that is itself another class's alias) x mapping type; "
            "identity for instances, exact class, keyword arguments passed on, argument mapping (incl. "
            "nested mappings) equal to a deep copy taken before the call",
            axes=dict(mapping=MAPPING_TYPES, family=["private"] + [f[1] for f in FAMILIES]),
            replay=_from_arg_replay, serial=True),
        core.SubCheck(
            "nested_foreign", ["stft", "si"], _nested_foreign_point,
            "computer {stft, si} x nested slot {bank, scaling_function, window_function} x every alias that "
            "belongs to another family x form {str, name, alias}: ValueError (each slot resolves within its "
            "own family)", replay=lambda case: _nested_foreign_point(case["kind"]), serial=True),
        core.SubCheck(
            "nested_config", npts, lambda c: _nested_point(c, seed),
            "computer alias x bank alias x scale alias x window alias (x parameter sets) x key style "
            "(name / alias / bare strings for parameterless leaves): json.loads(json.dumps(tree)) built "
            "through alias_factory_subclass_from_arg(FrameComputer, tree) and FrameComputer.from_alias vs "
            "explicitly constructed scale, bank, window, computer: same classes and array_equal "
            "compute_full on a 64-sample signal; non-trivial = at least one finite frame",
            axes=dict(points=len(npts), style=["name", "alias", "str_leaves"]),
            replay=lambda c: core.result(_nested_case(c, seed)[0])),
    ]
