"""C20 - windows and helper functions follow their documented closed forms (engine L).

windows           every width 0..Wmax x every window class (+ gamma order x peak)
circshift_fourier dft_size (explicit 1..12, and the documented default None) x segment length x
                  start index x every integer shift in -2D..2D x copy x dtype, against
                  roll(ifft(pad(in)), shift)
gauss_quant       geometric grid of q in [1e-20, 0.5] and p = fl(1 - q) < 1 (whose complement is exact), against
                  lower-tail bisection (mc/refs/gauss_ref.py); monotone over the grid; affine
hz <-> angular    grid x sampling rates, both compositions
"""
import math

import numpy as np

from .. import computers, core, sig
from ..refs import gauss_ref

LEVEL = "exploration"
ASSUMPTIONS = [
    "numpy.bartlett/blackman/hamming/hanning are the shapes the property names (trusted); "
    "numpy.fft.ifft, numpy.roll, math.erfc, math.lgamma are trusted",
    "circshift_fourier data values: one generic complex segment per length (mc/sig.py); shifts are "
    "integers (a circular shift by a fraction of a sample has no roll() oracle)",
    "gauss_quant: the open interval (0,1) is represented by a geometric grid of q = min(p,1-p) from "
    "1e-20 to 0.5; window parameters by order in {1,2,4} x peak in {.5,.75,.9}",
]

NUMPY_WINDOWS = {
    # class name -> (numpy shape, documented area per (width - 1))
    "BartlettWindow": ("bartlett", 0.5),
    "BlackmanWindow": ("blackman", 0.42),
    "HammingWindow": ("hamming", 0.54),
    "HannWindow": ("hanning", 0.5),
}
GAMMA_ORDERS = (1, 2, 4)
GAMMA_PEAKS = (0.5, 0.75, 0.9)


# ---------------------------------------------------------------- windows


def _window_cfgs(tier):
    out = [dict(cls=c) for c in NUMPY_WINDOWS]
    orders = GAMMA_ORDERS if tier == "quick" else GAMMA_ORDERS + (3, 7)
    peaks = GAMMA_PEAKS if tier == "quick" else GAMMA_PEAKS + (0.6, 0.99)
    for o in orders:
        for p in peaks:
            out.append(dict(cls="GammaWindow", order=o, peak=p))
    return out


def _make_window(cfg):
    from pydrobert.speech import filters

    cls = getattr(filters, cfg["cls"])
    if cfg["cls"] == "GammaWindow":
        return cls(order=cfg["order"], peak=cfg["peak"])
    return cls()


def _window_case(cfg, width):
    """-> (violations, observation)"""
    win = _make_window(cfg)
    name = cfg["cls"]
    case = dict(cfg=cfg, width=width)
    base = dict(window=name)
    if name == "GammaWindow":
        base["order_one"] = cfg["order"] == 1
    r = computers.call(win.get_impulse_response, width)
    if r[0] != "ok":
        return [core.violation(dict(base, what="window_len", aspect="exception", exc=r[1],
                                    tiny=width < 2),
                               "get_impulse_response(%d) raised %s: %s" % (width, r[1], r[2]), case)], "exc"
    w = r[1]
    if not isinstance(w, np.ndarray) or w.shape != (width,):
        return [core.violation(dict(base, what="window_len", aspect="shape", tiny=width < 2),
                               "get_impulse_response(%d) returned shape %r" % (
                                   width, getattr(w, "shape", type(w))), case)], "shape"
    viol = []
    w = np.asarray(w, dtype=np.float64)
    if width and not np.all(w >= -1e-12):  # also catches NaN
        viol.append(core.violation(dict(base, what="window_values", aspect="nonneg", tiny=width < 2),
                                   "width %d: min %r" % (width, float(np.min(w))), case))
    if name in NUMPY_WINDOWS:
        shape, area = NUMPY_WINDOWS[name]
        if width >= 2:
            want = getattr(np, shape)(width) / (area * (width - 1))
            if not np.all(np.abs(w - want) <= 1e-15 * np.abs(want) + 1e-18):
                i = int(np.argmax(np.abs(w - want)))
                viol.append(core.violation(
                    dict(base, what="window_values", aspect="shape_over_area"),
                    "width %d: sample %d is %r, numpy.%s/(%.2f*(width-1)) gives %r" % (
                        width, i, float(w[i]), shape, area, float(want[i])), case))
        if width >= 8 and not abs(float(np.sum(w)) - 1.0) <= 4.0 / width:
            viol.append(core.violation(
                dict(base, what="window_values", aspect="sum"),
                "width %d: samples sum to %r (|sum-1| <= 4/width expected)" % (width, float(np.sum(w))),
                case))
        return viol, "np"
    # gamma window
    n, peak = cfg["order"], cfg["peak"]
    if width < 2:
        # documented corner: [] and [1]
        want = np.ones(width)
        if not np.array_equal(w, want):
            viol.append(core.violation(dict(base, what="window_values", aspect="tiny_width", tiny=True),
                                       "width %d: %r" % (width, w.tolist()), case))
        return viol, "tiny"
    t = np.arange(width - 1, -1, -1, dtype=np.float64)  # time-reversed
    if n == 1:
        # a reversed order-1 gamma density a*exp(-a t); the rate is not pinned by the property
        # (an exponential has no interior maximum), so it is read off the t = 0 sample
        a = float(w[-1])
        ok = a > 0 and math.isfinite(a)
        if ok:
            want = a * np.exp(-a * t)
            ok = bool(np.all(np.abs(w - want) <= 1e-12 * np.abs(want) + 1e-300))
        if not ok:
            viol.append(core.violation(
                dict(base, what="window_values", aspect="gamma_density"),
                "width %d order 1: not rate*exp(-rate*t) reversed (rate read at t=0: %r)" % (width, a),
                case))
        return viol, "gamma1"
    alpha = (n - 1) / (width - peak * width)
    with np.errstate(divide="ignore"):
        logw = n * math.log(alpha) - math.lgamma(n) + (n - 1) * np.log(t) - alpha * t
    want = np.exp(logw)  # t = 0 -> exp(-inf) = 0
    if not np.all(np.abs(w - want) <= 1e-12 * np.abs(want) + 1e-300):
        i = int(np.argmax(np.abs(w - want) - 1e-12 * np.abs(want)))
        viol.append(core.violation(
            dict(base, what="window_values", aspect="gamma_density"),
            "width %d order %d peak %r: sample %d is %r, reversed gamma density gives %r" % (
                width, n, peak, i, float(w[i]), float(want[i])), case))
    am = int(np.argmax(w))
    pw = peak * width
    # the continuous maximum of the reversed density sits at peak*width - 1, so the discrete
    # arg-max is its floor or ceiling: int(peak*width) in {argmax, argmax + 1}
    if not (am - 1e-9 <= pw < am + 2 + 1e-9):
        viol.append(core.violation(
            dict(base, what="window_values", aspect="argmax"),
            "width %d order %d peak %r: arg-max %d, peak*width = %r" % (width, n, peak, am, pw), case))
    return viol, "gamma"


def _window_point(pt):
    cfg, lo, hi = pt
    viol = []
    obs = set()
    sigs = set()
    for width in range(lo, hi + 1):
        v, o = _window_case(cfg, width)
        obs.add(o)
        for x in v:  # one witness per signature per point
            k = core.sig_hash(x["tags"])
            if k not in sigs:
                sigs.add(k)
                viol.append(x)
    n = hi - lo + 1
    return core.result(viol, evals=n, nontrivial_count=sum(1 for w in range(lo, hi + 1) if w >= 2),
                       obs=[cfg["cls"], sorted(obs)], sample=dict(cfg=cfg, widths=[lo, hi]))


def _window_replay(case):
    v, _ = _window_case(case["cfg"], case["width"])
    return core.result(v)


ARG_WIDTHS = (0, 1, 2, 7, 64, 255, 1024, 4096, 32767, 40000, 70001)


def _window_argtype_point(cfg):
    """the width given as numpy integer types (what len()/shape arithmetic with numpy values produces),
    and the window object after copy.copy / deepcopy / pickle round trip: same samples as the
    constructed object called with a Python int"""
    import copy
    import pickle

    viol = []
    evals = 0
    win = _make_window(cfg)
    routes = {"constructed": win}
    for name, fn in (("copy", copy.copy), ("deepcopy", copy.deepcopy),
                     ("pickle", lambda o: pickle.loads(pickle.dumps(o)))):
        r = computers.call(fn, win)
        if r[0] != "ok":
            viol.append(core.violation(dict(window=cfg["cls"], what="window_transport", aspect="exception",
                                            route=name, exc=r[1]), "%s raised %s: %s" % (name, r[1], r[2]),
                                       dict(kind="argtype", cfg=cfg)))
            continue
        routes[name] = r[1]
    for width in ARG_WIDTHS:
        ref_r = computers.call(_make_window(cfg).get_impulse_response, int(width))
        if ref_r[0] != "ok":
            continue
        for route, obj in routes.items():
            for tname, typ in (("int", int), ("int16", np.int16), ("int32", np.int32), ("int64", np.int64),
                               ("intp", np.intp)):
                if route != "constructed" and tname != "int":
                    continue
                if tname == "int16" and width > 32767:
                    continue
                if route == "constructed" and tname == "int":
                    continue
                evals += 1
                r = computers.call(obj.get_impulse_response, typ(width))
                if route == "constructed" and tname == "int32":
                    # once more with numpy's floating-point error state set to 'raise' by the caller
                    with np.errstate(all="raise"):
                        r2 = computers.call(_make_window(cfg).get_impulse_response, int(width))
                    evals += 1
                    if not (r2[0] == "ok" and np.shape(r2[1]) == np.shape(ref_r[1]) and np.allclose(
                            r2[1], ref_r[1], rtol=1e-13, atol=1e-300, equal_nan=True)):
                        viol.append(core.violation(
                            dict(window=cfg["cls"], what="window_environment", env="errstate_all_raise",
                                 exc=r2[1] if r2[0] != "ok" else None),
                            "%r width %d under np.errstate(all='raise'): %s; in the default state the window has "
                            "%d finite samples" % (cfg, width, str(r2[1:])[:120] if r2[0] != "ok" else "differs",
                                                   len(ref_r[1])), dict(kind="argtype", cfg=cfg)))
                        break
                ok = r[0] == "ok" and np.shape(r[1]) == np.shape(ref_r[1]) and np.allclose(
                    r[1], ref_r[1], rtol=1e-13, atol=1e-300, equal_nan=True)
                if not ok:
                    viol.append(core.violation(
                        dict(window=cfg["cls"], what="window_argument", arg=tname, route=route),
                        "%r: get_impulse_response(%s(%d)) on the %s object gave %s, with a Python int on a "
                        "fresh object %s" % (cfg, tname, width, route,
                                             ("max|diff| %.3g" % float(np.max(np.abs(np.asarray(r[1]) - ref_r[1])))
                                              if r[0] == "ok" and np.shape(r[1]) == np.shape(ref_r[1]) and width
                                              else str(r[1:])[:120]), "shape %r" % (np.shape(ref_r[1]),)),
                        dict(kind="argtype", cfg=cfg)))
                    break
    return core.result(viol[:6], evals=evals, nontrivial_count=evals, obs=[cfg["cls"], len(viol) == 0],
                       sample=dict(cfg=cfg, widths=list(ARG_WIDTHS)))


# ---------------------------------------------------------------- circshift_fourier

CS_DTYPES = ("complex128", "float64", "complex64")


def _segment(seed, n, dtype):
    re = sig.signal(seed, n)
    if dtype == "float64":
        return re.copy()
    im = sig.signal(seed, n, offset=3)
    return (re + 1j * im).astype(dtype)


def _pad(seg, start, D):
    full = np.zeros(D, dtype=np.complex128)
    for j, v in enumerate(np.asarray(seg).astype(np.complex128)):
        full[(start + j) % D] += v
    return full


def _cs_case(seed, dft, n, start, shift, copy, dtype, time_in=None):
    """one call of circshift_fourier; dft None = the documented default len(filt) + start_idx"""
    from pydrobert.speech import util

    D = dft if dft is not None else n + start
    seg = _segment(seed, n, dtype)
    before = seg.copy()
    case = dict(dft=dft, n=n, start=start, shift=shift, copy=copy, dtype=dtype)
    none = dft is None
    if none:
        r = computers.call(lambda: util.circshift_fourier(seg, shift, start_idx=start, copy=copy))
    else:
        r = computers.call(lambda: util.circshift_fourier(seg, shift, start_idx=start, dft_size=dft,
                                                          copy=copy))
    if r[0] != "ok":
        return [core.violation(dict(what="circshift", dft_size_none=none, aspect="exception", exc=r[1]),
                               "circshift_fourier(len %d %s, shift=%d, start_idx=%d, dft_size=%r, "
                               "copy=%s) raised %s: %s" % (n, dtype, shift, start, dft, copy, r[1], r[2]),
                               case)]
    out = r[1]
    viol = []
    tags = dict(what="circshift", dft_size_none=none, exc=None, copy=copy, dtype=dtype)
    if not isinstance(out, np.ndarray) or out.shape != (n,):
        return [core.violation(dict(tags, aspect="shape"), "returned %r" % (getattr(out, "shape", type(out)),),
                               case)]
    if time_in is None:
        time_in = np.fft.ifft(_pad(before, start, D))
    want = np.roll(time_in, shift)
    got = np.fft.ifft(_pad(out, start, D))
    if not np.all(np.abs(got - want) <= 1e-12):
        viol.append(core.violation(
            dict(tags, aspect="values"),
            "D=%d: ifft(out) differs from roll(ifft(in), %d) by %.3g" % (
                D, shift, float(np.max(np.abs(got - want)))), case))
    if copy and not (seg.dtype == before.dtype and np.array_equal(seg, before)):
        viol.append(core.violation(dict(tags, aspect="input_modified"),
                                   "copy=True but the input changed", case))
    return viol


def _cs_point(pt, seed):
    dft, n = pt
    viol = []
    sigs = set()
    evals = nt = 0
    if dft is None:
        starts = range(0, 9)
    else:
        starts = range(0, dft)
    for start in starts:
        D = dft if dft is not None else n + start
        for dtype in CS_DTYPES:
            time_in = np.fft.ifft(_pad(_segment(seed, n, dtype), start, D))
            for shift in range(-2 * D, 2 * D + 1):
                for copy in (True, False):
                    evals += 1
                    nt += int(shift % D != 0)
                    for x in _cs_case(seed, dft, n, start, shift, copy, dtype, time_in):
                        k = core.sig_hash(x["tags"])
                        if k not in sigs:
                            sigs.add(k)
                            viol.append(x)
    return core.result(viol, evals=evals, nontrivial_count=nt, obs=[dft is None, len(viol) == 0, n % 2],
                       sample=dict(dft_size=dft, segment_len=n,
                                   inner="start_idx x dtype x shift -2D..2D x copy"))


COPY_SPELLINGS = {"np.True_": lambda: np.True_, "1": lambda: 1, "array_element_true": lambda: np.array([True])[0],
                  "np.False_": lambda: np.False_, "0": lambda: 0, "array_element_false": lambda: np.array([False])[0]}


def _cs_spelling_point(pt, seed):
    """flags and integers handed over in their numpy / int spellings: copy as np.True_ / 1 / an element
    of a bool array (and the falsy counterparts), start_idx and dft_size as numpy integers: same result
    as with Python True / False / int, input untouched whenever the flag is truthy"""
    dft, n = pt
    viol = []
    sigs = set()
    evals = 0
    for start in (0, 1, dft - 1):
        for dtype in CS_DTYPES:
            for shift in (1, -1, dft // 2 + 1, dft + 3):
                for sp, mk in COPY_SPELLINGS.items():
                    for ints in ("int", "int32", "int64"):
                        evals += 1
                        conv = int if ints == "int" else getattr(np, ints)
                        v = _cs_case(seed, conv(dft), n, conv(start), shift, mk(), dtype)
                        for x in v:
                            x["tags"].update(copy=bool(mk()), copy_spelling=sp, int_spelling=ints)
                            x["case"].update(copy=bool(mk()), copy_spelling=sp, int_spelling=ints, dft=dft,
                                             start=start)
                            k = core.sig_hash(x["tags"])
                            if k not in sigs:
                                sigs.add(k)
                                viol.append(x)
    return core.result(viol, evals=evals, nontrivial_count=evals, obs=[dft, len(viol) == 0],
                       sample=dict(dft_size=dft, segment_len=n, spellings=sorted(COPY_SPELLINGS)))


def _cs_replay(case, seed):
    shift = case["shift"]
    if case.get("shift_type") in ("int32", "int64"):
        shift = getattr(np, case["shift_type"])(shift)
    if case.get("copy_spelling"):
        conv = int if case["int_spelling"] == "int" else getattr(np, case["int_spelling"])
        v = _cs_case(seed, conv(case["dft"]), case["n"], conv(case["start"]), shift,
                     COPY_SPELLINGS[case["copy_spelling"]](), case["dtype"])
        for x in v:
            x["tags"].update(copy=bool(case["copy"]), copy_spelling=case["copy_spelling"],
                             int_spelling=case["int_spelling"])
        return core.result(v)
    v = _cs_case(seed, case["dft"], case["n"], case["start"], shift, case["copy"], case["dtype"])
    for x in v:
        if case.get("large_dft"):
            x["tags"]["large_dft"] = True
        if case.get("shift_type"):
            x["tags"]["shift_type"] = case["shift_type"]
    return core.result(v)


# ---------------------------------------------------------------- gauss_quant

AFFINE = ((3.0, 2.0), (-1.5, 0.25), (10.0, 1e-3), (0.0, 7.0))


def _p_grid(npts):
    qs = [10.0 ** (-20.0 + (math.log10(0.5) + 20.0) * i / (npts - 1)) for i in range(npts)]
    qs[0], qs[-1] = 1e-20, 0.5
    ps = set(qs)
    for q in qs:
        p = 1.0 - q  # rounded; for 0.5 <= p < 1 the complement 1 - p is exact in float64
        if 0.5 <= p < 1.0:  # (Sterbenz), so the oracle sees exactly the tail mass the library sees
            ps.add(p)
    return sorted(ps)


def _gq_eval(ps, first_index):
    from pydrobert.speech import util

    viol = []
    sigs = set()

    def add(aspect, tail, detail, i, **more):
        tags = dict(what="gauss_quant", aspect=aspect, tail=tail, **more)
        k = core.sig_hash(tags)
        if k not in sigs:
            sigs.add(k)
            viol.append(core.violation(tags, detail, dict(index=i)))

    prev = None
    n = 0
    for off, p in enumerate(ps):
        i = first_index + off
        tail = "lower" if p <= 0.5 else "upper"
        q = p if p <= 0.5 else 1.0 - p
        r = computers.call(util.gauss_quant, p)
        if r[0] != "ok":
            add("exception", tail, "gauss_quant(%r) raised %s: %s" % (p, r[1], r[2]), i, exc=r[1])
            prev = None
            continue
        z = float(r[1])
        zr = gauss_ref.lower_quantile(q)
        want = zr if p <= 0.5 else -zr
        n += 1
        if not abs(z - want) <= 1e-6:
            add("accuracy", tail, "gauss_quant(%r) = %r, bisection gives %r (min(p,1-p) = %r)" % (
                p, z, want, q), i)
        if prev is not None and not z > prev[1]:
            add("monotone", tail, "gauss_quant(%r) = %r is not above gauss_quant(%r) = %r" % (
                p, z, prev[0], prev[1]), i - 1)
        prev = (p, z)
        for mu, std in AFFINE:
            ra = computers.call(util.gauss_quant, p, mu, std)
            lin = z * std + mu
            if ra[0] != "ok":
                add("exception", tail, "gauss_quant(%r, %r, %r) raised %s" % (p, mu, std, ra[1]), i,
                    exc=ra[1])
            elif not abs(float(ra[1]) - lin) <= 4 * np.spacing(max(abs(z * std), abs(mu))):
                add("affine", tail, "gauss_quant(%r, mu=%r, std=%r) = %r, z*std+mu = %r" % (
                    p, mu, std, float(ra[1]), lin), i)
    return viol, n


def _gq_point(pt, npts):
    lo, hi = pt
    ps = _p_grid(npts)
    viol, n = _gq_eval(ps[lo:hi + 1], lo)
    return core.result(viol, evals=(hi - lo + 1) * (1 + len(AFFINE)), nontrivial_count=n,
                       obs=[ps[lo] <= 0.5, ps[hi] <= 0.5, len(viol) == 0],
                       sample=dict(p_first=ps[lo], p_last=ps[hi], n=hi - lo + 1))


def _gq_replay(case, npts):
    ps = _p_grid(npts)
    i = case["index"]
    hi = min(len(ps) - 1, i + 1)
    viol, _ = _gq_eval(ps[i:hi + 1], i)
    return core.result(viol)


# ---------------------------------------------------------------- hertz <-> angular

RATES = (1.0, 1000.0, 8000.0, 16000.0, 44100.0, 22050.5, 3.0)


def _hz_values():
    vals = [0.0]
    for k in range(1, 401):
        vals += [37.5 * k, -37.5 * k, 0.1 * k / 3.0]
    vals += [1e-6, 1e6, math.pi, 1.0 / 3.0]
    return vals


def _hz_case(rate, v, direction):
    from pydrobert.speech import util

    if direction == "hz":
        f, g = util.hertz_to_angular, util.angular_to_hertz
    else:
        f, g = util.angular_to_hertz, util.hertz_to_angular
    r = computers.call(lambda: g(f(v, rate), rate))
    case = dict(rate=rate, v=v, direction=direction)
    if r[0] != "ok":
        return [core.violation(dict(what="hz_ang", aspect="exception", exc=r[1], start=direction),
                               "%r" % (r[1:],), case)]
    if not abs(float(r[1]) - v) <= 4e-15 * abs(v):
        return [core.violation(dict(what="hz_ang", aspect="roundtrip", start=direction),
                               "%s(%s(%r, %r), %r) = %r" % (g.__name__, f.__name__, v, rate, rate,
                                                            float(r[1])), case)]
    return []


def _hz_point(rate):
    viol = []
    sigs = set()
    vals = _hz_values()
    for v in vals:
        for d in ("hz", "angular"):
            x = v if d == "hz" else v * math.pi / 15000.0  # angles in about [-pi, pi]
            for w in _hz_case(rate, x, d):
                k = core.sig_hash(w["tags"])
                if k not in sigs:
                    sigs.add(k)
                    viol.append(w)
    return core.result(viol, evals=2 * len(vals), nontrivial_count=2 * (len(vals) - 1),
                       obs=[rate, len(viol) == 0], sample=dict(rate=rate, values=len(vals)))


# ---------------------------------------------------------------- sub-checks


# ---------------------------------------------------------------- window call histories


WH_WIDTHS = (7, 8, 64)


def _window_history(pt):
    """sequences of get_impulse_response calls on one window object and on a second object of the same
    configuration; the caller SCRIBBLES over every array it has been given (in-place renormalisation
    is ordinary use) before the next call.  Every result, at the moment it is returned, must equal what
    a never-used object returns, and two results must not share memory."""
    cfg, seq = pt
    objs = {"A": _make_window(cfg), "B": _make_window(cfg)}
    given = []
    viol = []
    case = dict(kind="window_history", cfg=cfg, seq=seq)
    # reference values are taken (and copied) BEFORE anything is scribbled on, so that a cache shared
    # between objects cannot pollute the oracle as well
    ref0 = {}
    for width in sorted(set(w for _, w in seq)):
        rr = computers.call(_make_window(cfg).get_impulse_response, width)
        ref0[width] = (rr[0], np.array(rr[1], copy=True)) if rr[0] == "ok" else rr
    for step, (who, width) in enumerate(seq):
        r = computers.call(objs[who].get_impulse_response, width)
        ref = ref0[width]
        if r[0] != "ok" or ref[0] != "ok":
            if r[:2] != ref[:2]:
                viol.append(core.violation(dict(what="window_history", window=cfg["cls"], aspect="exception"),
                                           "%r step %d: %s vs fresh %s" % (seq, step, r[1:], ref[1:]), case))
            break
        if r[1].shape != ref[1].shape or r[1].tobytes() != ref[1].tobytes():
            viol.append(core.violation(
                dict(what="window_history", window=cfg["cls"], aspect="stale_or_shared",
                     same_object=bool(any(w == who for w, _ in seq[:step])),
                     same_width=bool(any(x == width for _, x in seq[:step]))),
                "%s: calls %r, the caller having overwritten each earlier result in place: call #%d "
                "(width %d on object %s) differs from a never-used object" % (cfg, seq, step, width, who), case))
            break
        for g in given:
            if r[1].size and np.shares_memory(r[1], g):
                viol.append(core.violation(dict(what="window_history", window=cfg["cls"], aspect="alias"),
                                           "%r: result #%d shares memory with an earlier result" % (seq, step), case))
                break
        given.append(r[1])
        if r[1].flags.writeable:
            r[1][...] = np.nan
    return core.result(viol, obs=[cfg["cls"], len(viol) == 0], sample=case)


def _window_history_points(tier):
    import itertools

    calls = [(w, n) for w in ("A", "B") for n in WH_WIDTHS[:2 if tier == "quick" else 3]]
    depth = 3 if tier == "quick" else 4
    cfgs = [dict(cls=c) for c in NUMPY_WINDOWS] + [dict(cls="GammaWindow", order=4, peak=0.75),
                                                  dict(cls="GammaWindow", order=1, peak=0.75)]
    return [(cfg, [list(c) for c in seq]) for cfg in cfgs for seq in itertools.product(calls, repeat=depth)]


def _cs_large_point(pt, seed):
    """large DFT sizes (index * shift products beyond 2^31): segment at the top of the spectrum,
    shifts -1, 1, D-1, D+1, 3D+7 and a mid-range value, both copy settings"""
    D, n, none = pt
    start = D - n
    viol = []
    evals = 0
    shifts = [-1, 1, D // 2 + 1, D - 1, D + 1, 3 * D + 7, -(2 * D + 5)]
    # the same shifts as numpy integers (fixed-width arithmetic) where they fit
    shifts += [np.int32(D - 1), np.int64(3 * D + 7), np.int32(-1)]
    for shift in shifts:
        for copy in (True, False):
            evals += 1
            v = _cs_case(seed, None if none else D, n, start, shift, copy, "complex128")
            for x in v:
                x["tags"]["large_dft"] = True
                x["tags"]["shift_type"] = type(shift).__name__
                x["case"]["shift_type"] = type(shift).__name__
                x["case"]["large_dft"] = True
            viol.extend(v)
            if len(viol) > 4:
                break
    return core.result(viol, evals=evals, nontrivial_count=evals, obs=[D, len(viol) == 0],
                       sample=dict(dft_size=D, segment=n, start_idx=start, default_dft=none))


def subchecks(tier, seed):
    wmax = 4096 if tier == "quick" else 12288
    wchunk = 128
    wpts = []
    for cfg in _window_cfgs(tier):
        for lo in range(0, wmax + 1, wchunk):
            wpts.append((cfg, lo, min(wmax, lo + wchunk - 1)))
    dmax = 12 if tier == "quick" else 16
    cs_explicit = [(D, n) for D in range(1, dmax + 1) for n in range(1, D + 1)]
    cs_none = [(None, n) for n in range(1, (8 if tier == "quick" else 12) + 1)]
    npts = 2000 if tier == "quick" else 20000
    ngrid = len(_p_grid(npts))
    gchunk = 100
    gpts = [(lo, min(ngrid - 1, lo + gchunk)) for lo in range(0, ngrid - 1, gchunk)]
    return [
        core.SubCheck(
            "windows", wpts, _window_point,
            "every width 0..%d x window configuration: length = width, samples >= -1e-12, numpy shape / "
            "(area*(width-1)) to 1e-15 rel (width >= 2), |sum-1| <= 4/width (width >= 8, numpy-shaped "
            "only), gamma = reversed gamma density with alpha=(order-1)/(width-peak*width) to 1e-12 rel "
            "and int(peak*width) in {argmax, argmax+1}; widths 0/1 give [] / [1] for gamma; "
            "non-trivial = width >= 2" % wmax,
            axes=dict(window=_window_cfgs(tier), width=[0, wmax]), replay=_window_replay),
        core.SubCheck(
            "window_histories", _window_history_points(tier), _window_history,
            "every sequence of 3 (thorough 4) get_impulse_response calls over {object A, object B} x widths "
            "%r for every window class, the caller overwriting each returned array in place before the next "
            "call: each result equals a never-used object's, no two results share memory" % (WH_WIDTHS,),
            replay=lambda c: _window_history((c["cfg"], c["seq"])), kind="explore"),
        core.SubCheck(
            "circshift", cs_explicit, lambda p: _cs_point(p, seed),
            "explicit dft_size D 1..%d x segment length 1..D (points) x start_idx 0..D-1 x dtype x every "
            "integer shift -2D..2D x copy: ifft(pad(out)) = roll(ifft(pad(in)), shift) to 1e-12, input "
            "unchanged when copy; non-trivial = shift not a multiple of D" % dmax,
            axes=dict(dft_size=[1, dmax], dtype=CS_DTYPES, copy=[True, False]),
            replay=lambda c: _cs_replay(c, seed)),
        core.SubCheck(
            "circshift_large", [(D, n, none) for D in ((46340, 46341, 46342, 48000, 65536, 100003) if tier == "quick"
                                                       else (46340, 46341, 46342, 48000, 50000, 60000, 65536, 100003, 262147))
                                for n in (1, 5) for none in (False, True)],
            lambda p: _cs_large_point(p, seed),
            "DFT sizes around and beyond 46341 (index x shift reaches 2^31), a segment at the top of the "
            "spectrum, shifts {-1, 1, D/2+1, D-1, D+1, 3D+7, -(2D+5)} x copy, dft_size explicit or defaulted: "
            "same shift-theorem oracle",
            replay=lambda c: _cs_replay(c, seed)),
        core.SubCheck(
            "circshift_default_dft", cs_none, lambda p: _cs_point(p, seed),
            "dft_size left at its documented default (None => len(filt)+start_idx): segment length "
            "(points) x start_idx 0..8 x dtype x every integer shift -2D..2D x copy, same oracle",
            axes=dict(segment_len=[1, len(cs_none)], start_idx=[0, 8], dtype=CS_DTYPES,
                      copy=[True, False]),
            replay=lambda c: _cs_replay(c, seed)),
        core.SubCheck(
            "circshift_spelling", [(d, n) for d in (8, 9, 16) for n in (1, 3, d)], lambda p: _cs_spelling_point(p, seed),
            "circshift_fourier with copy spelled np.True_ / 1 / bool-array element (and falsy counterparts) and "
            "start_idx / dft_size as numpy int32 / int64: shift-theorem oracle, input untouched when the flag is "
            "truthy", replay=lambda c: _cs_replay(c, seed)),
        core.SubCheck(
            "window_argtypes", _window_cfgs(tier), _window_argtype_point,
            "every window configuration x widths {0..70001} given as numpy int16/int32/int64/intp, and the "
            "window object after copy.copy / deepcopy / pickle round trip, and the call made under "
            "np.errstate(all='raise'): same samples (1e-13) as a fresh object called with a Python int",
            axes=dict(widths=list(ARG_WIDTHS), arg=["int16", "int32", "int64", "intp"],
                      route=["copy", "deepcopy", "pickle"]),
            replay=lambda c: _window_argtype_point(c["cfg"])),
        core.SubCheck(
            "gauss_quant", gpts, lambda p: _gq_point(p, npts),
            "p over the sorted grid {q} u {fl(1-q) < 1} (1-p is exact there), q geometric 1e-20..0.5 (%d values): |z - "
            "bisection| <= 1e-6, strictly increasing between adjacent grid values, "
            "gauss_quant(p,mu,std) = z*std+mu to 4 ulp for %d (mu,std) pairs" % (npts, len(AFFINE)),
            axes=dict(q=[1e-20, 0.5], grid_values=ngrid, affine=AFFINE),
            replay=lambda c: _gq_replay(c, npts)),
        core.SubCheck(
            "hz_angular", list(RATES), _hz_point,
            "angular_to_hertz(hertz_to_angular(v, r), r) = v and the reverse composition to 4e-15 rel "
            "over 1205 values x rates",
            replay=lambda c: core.result(_hz_case(c["rate"], c["v"], c["direction"]))),
    ]
