"""C17 - saved normalisation statistics reload to the same transform.

Engine E: breadth-first search over histories of {accumulate(piece), save(path, key, compress,
overwrite)} on one real Standardize and one scratch directory, to a depth bound, from several
initial (statistics, directory) configurations.  A state is (real object, the files of the
scratch directory); the directory is re-materialised from the state before every transition,
so every transition is a real `save` onto real files.  States are merged on the canonical
form of the object plus the DECODED contents of every file (zip time stamps would make raw
bytes path-dependent).

Oracle after every save:
  * without statistics it must raise ValueError;
  * with statistics it must succeed, whatever already exists at the path;
  * Standardize(rfilename=path, key=..., force_as="file" for raw) must give an apply() that is
    array_equal to the saving object's apply();
  * for .npz the archive contains exactly what the save docstring promises: with
    overwrite=False the entries that were there before plus the new one, with overwrite=True
    only the new one; the new one under `key`, or under the first unused 'arr_N';
  * no other file of the directory changes.

Engine L (sub-check data_alphabet): the DATA rather than the history is varied - constant and
nearly constant coefficients, a single frame, zeros, large / tiny / mixed magnitudes, float32 /
float64, 1..1000 frames - saved to a fresh path of every target kind and reloaded; the reloaded
object's apply() must be bit-identical to the saving object's.
"""
import copy
import hashlib
import io
import os
import shutil
import tempfile
import warnings

import numpy as np

from .. import computers, core, explorer, sig

LEVEL = "model_checking"
ASSUMPTIONS = [
    "histories are bounded by depth (3 quick / 4 thorough) from 16 initial configurations "
    "(statistics in {none, positive, negative, float32 mixed, small negative, big, constant non-integer "
    "frames, a single frame} x directory in "
    "{empty, pre-existing foreign files}); alphabet: 3 accumulate pieces and 20 save calls over "
    "paths {a.npy, a.npz, a.bin (raw), b.npz}, keys {None,'k','other'}, compress, overwrite",
    "data values: three 3x2 pieces with fixed sign structure (positive sums, negative sums, float32 "
    "with one positive and one negative coefficient), magnitudes from mc/sig.py",
    "data_alphabet: 12 kinds of data (generic, constant coefficients 0.1 / 1/3 / log(1e-6) / 2.0 / mixed, one "
    "constant coefficient, all zeros, large, tiny, mixed magnitudes, nearly constant) x float32/float64 x "
    "frame counts {1,2,3,7,10,100,257,1000}, accumulated as one tensor or frame by frame; where apply() is not "
    "defined by a formula (zero variance) the reloaded object is compared with the saving object only",
    "numpy.load / numpy.save(z) and zipfile are trusted to decode what was written; raw files are "
    "reloaded with force_as='file' and no dtype, npz entries with key=<name> (no key for 'arr_0')",
]

F = 2
PIECES = ("pos", "neg", "f32")


def _piece(seed, name):
    i = dict(pos=0, neg=1, f32=2, small_neg=3, big=4, const=5, single=6)[name]
    s = np.abs(sig.signal(seed, 3 * F, offset=30 + i).reshape(3, F)) + 0.5
    s = s + np.arange(3)[:, None]  # three distinct vectors: no zero variance
    if name == "const":
        # every frame the same non-integer vector (a band clamped to its floor): zero variance
        x = np.tile(np.array([0.1, -1.0 / 3.0]), (3, 1))
    elif name == "single":
        x = -s[:1]  # one frame only
    elif name == "pos":
        x = s
    elif name == "neg":
        x = -3.0 * s
    elif name == "f32":
        x = (s * np.array([1.0, -1.0])).astype(np.float32)
    elif name == "small_neg":
        x = -1e-3 * s
    else:
        x = 1e4 * s
    return sig.ro(x)


def _save_alphabet():
    ops = [["save", "a.npy", None, False, True], ["save", "a.bin", None, False, True]]
    for path, keys, comps in (("a.npz", (None, "k", "other"), (False, True)),
                              ("b.npz", (None, "k"), (False,))):
        for key in keys:
            for compress in comps:
                for overwrite in (True, False):
                    ops.append(["save", path, key, compress, overwrite])
    # arguments that do not apply to the target must be harmless
    ops += [["save", "a.npy", "k", True, False], ["save", "a.bin", "k", True, False]]
    return ops


SAVES = _save_alphabet()


def _kind(name):
    return "npy" if name.endswith(".npy") else "npz" if name.endswith(".npz") else "raw"


def _arr(a):
    a = np.asarray(a)
    return (a.dtype.str, tuple(a.shape), a.tobytes())


def _decode(name, data):
    """decoded, hashable contents of one file"""
    try:
        if name.endswith(".npy"):
            return ("npy", _arr(np.load(io.BytesIO(data), allow_pickle=False)))
        if name.endswith(".npz"):
            with np.load(io.BytesIO(data), allow_pickle=False) as z:
                return ("npz", tuple(sorted((k, _arr(z[k])) for k in z.files)))
    except Exception as e:
        return ("undecodable", type(e).__name__, hashlib.sha1(data).hexdigest())
    return ("raw", data)


class Ctx:
    def __init__(self, c, seed, scratch):
        self.c, self.dir = c, scratch
        self.depth = c["depth"]
        self.norm_var = bool(c.get("norm_var", True))
        self.pieces = dict((n, _piece(seed, n)) for n in PIECES + ("small_neg", "big", "const", "single"))
        p = sig.signal(seed, 3 * F, offset=40).reshape(3, F) * 2.0 - 1.0
        self.probes = [sig.ro(p), sig.ro(p[1])]

    def sums(self, acc):
        s = [0.0] * F
        for n in acc:
            for row in self.pieces[n]:
                for f in range(F):
                    s[f] += float(row[f])
        return s

    def materialise(self, files):
        for n in os.listdir(self.dir):
            os.remove(os.path.join(self.dir, n))
        for n, data in files.items():
            with open(os.path.join(self.dir, n), "wb") as f:
                f.write(data)

    def read_all(self):
        out = {}
        for n in sorted(os.listdir(self.dir)):
            with open(os.path.join(self.dir, n), "rb") as f:
                out[n] = f.read()
        return out

    def initial_files(self):
        if self.c["dir"] == "empty":
            return {}
        d = tempfile.mkdtemp(prefix="verif-")
        try:
            np.savez(os.path.join(d, "a.npz"), other=np.array([1.0, 2.0, 3.0]), arr_0=np.array([[9.0]]))
            np.savez(os.path.join(d, "b.npz"), k=np.arange(4, dtype=np.int32), arr_1=np.zeros(2))
            np.save(os.path.join(d, "a.npy"), np.arange(3.0))
            with open(os.path.join(d, "a.bin"), "wb") as f:
                f.write(b"\x01" * 10)
            out = {}
            for n in sorted(os.listdir(d)):
                with open(os.path.join(d, n), "rb") as f:
                    out[n] = f.read()
            return out
        finally:
            shutil.rmtree(d, ignore_errors=True)


class St:
    __slots__ = ("obj", "acc", "files", "dec", "depth")

    def __init__(self, obj, acc, files, depth):
        self.obj, self.acc, self.files, self.depth = obj, acc, files, depth
        self.dec = dict((n, _decode(n, d)) for n, d in files.items())


def _key(s):
    return (computers.canon_value(s.obj), computers.class_state(type(s.obj)),
            tuple(sorted(s.dec.items())))


def _apply_all(ctx, obj):
    out = []
    with warnings.catch_warnings():
        warnings.simplefilter("ignore")
        for x in ctx.probes:
            out.append(obj.apply(x, -1))
    return out


def _expected_npz(prev, key, overwrite):
    """names -> previous array (or None for the new entry), and the new entry's name, as the
    save docstring describes them"""
    entries = {}
    if not overwrite and prev is not None and prev[0] == "npz":
        entries = dict(prev[1])
    if key is None:
        n = 0
        while "arr_%d" % n in entries:
            n += 1
        key = "arr_%d" % n
    entries[key] = None
    return entries, key


def _step(ctx, s, op):
    from pydrobert.speech import post

    obj = copy.deepcopy(s.obj)
    if op[0] == "acc":
        r = computers.call(obj.accumulate, ctx.pieces[op[1]], -1)
        if r[0] != "ok":
            return None, [core.violation(dict(what="accumulate_exception", piece=op[1], exc=r[1]),
                                         "accumulate raised %s: %s" % (r[1], r[2]))], ("acc", "exc")
        return St(obj, s.acc + (op[1],), s.files, s.depth + 1), [], ("acc", op[1])
    _, name, key, compress, overwrite = op
    target = _kind(name)
    path = os.path.join(ctx.dir, name)
    existed = name in s.files
    ctx.materialise(s.files)
    with warnings.catch_warnings():
        warnings.simplefilter("ignore")
        r = computers.call(obj.save, path, key, compress, overwrite)
    s2 = St(obj, s.acc, ctx.read_all(), s.depth + 1)
    viol = []
    base = dict(target=target, existing_file=existed)
    if not s.acc:
        # no statistics: ValueError, nothing else is demanded
        if r[0] == "exc" and r[1] == "ValueError":
            return s2, [], ("save", target, "refused")
        if r[0] == "ok":
            viol.append(core.violation(dict(what="no_stats_accepted", target=target),
                                       "save(%r) without accumulated statistics returned normally" % name))
        else:
            viol.append(core.violation(dict(what="no_stats_wrong_exception", target=target, exc=r[1]),
                                       "save(%r) without statistics raised %s: %s" % (name, r[1], r[2])))
        return s2, viol, ("save", target, "no_stats", r[0])
    neg = bool(any(v < 0 for v in ctx.sums(s.acc)))
    if r[0] != "ok":
        t = dict(base, what="save_raises", exc=r[1])
        if target == "npz":
            t["overwrite"] = bool(overwrite)
        viol.append(core.violation(
            t, "save(%r, key=%r, compress=%r, overwrite=%r) onto %s raised %s: %s" % (
                name, key, compress, overwrite,
                "an existing file" if existed else "a new path", r[1], r[2])))
    else:
        reload_key = None
        do_reload = True
        got = s2.dec.get(name)
        if got is None:
            viol.append(core.violation(dict(base, what="nothing_written"),
                                       "save(%r) returned but the file does not exist" % name))
            do_reload = False
        elif target == "npz":
            want, used = _expected_npz(s.dec.get(name), key, overwrite)
            t = dict(base, what="archive_contents", overwrite=bool(overwrite))
            if got[0] != "npz":
                viol.append(core.violation(dict(t, sub="not_an_archive"),
                                           "save(%r) did not leave a readable archive: %r" % (name, got[:2])))
                do_reload = False
            else:
                have = dict(got[1])
                kept = [k for k, v in want.items() if v is not None]
                lost = [k for k in kept if k not in have or have[k] != want[k]]
                extra = [k for k in have if k not in want]
                desc = "save(%r, key=%r, overwrite=%r) onto %s: archive has %s, docstring promises %s" % (
                    name, key, overwrite,
                    "an archive holding %s" % sorted(dict(s.dec[name][1])) if existed and
                    s.dec[name][0] == "npz" else "a new path",
                    sorted(have), sorted(want))
                if lost:
                    viol.append(core.violation(dict(t, sub="entries_lost"), desc + "; lost/changed %s" % lost))
                if used not in have:
                    # the new entry is not where the docstring puts it (when entries were lost
                    # this is a consequence, not a second finding)
                    if not lost:
                        viol.append(core.violation(dict(t, sub="new_entry_name"), desc))
                elif extra and overwrite:
                    viol.append(core.violation(dict(t, sub="entries_kept"), desc + "; kept %s" % extra))
                elif extra:
                    viol.append(core.violation(dict(t, sub="unexpected_entries"), desc))
                if viol:
                    do_reload = False  # report the cause only, not what follows from it
                reload_key = used
        if do_reload:
            kw = {}
            if target == "raw":
                kw["force_as"] = "file"
            if target == "npz" and reload_key != "arr_0":
                kw["key"] = reload_key
            if not ctx.norm_var:
                kw["norm_var"] = False
            rr = computers.call(lambda: post.Standardize(path, **kw))
            t = dict(base, negative_sums=neg)
            how = "Standardize(%r%s)" % (name, "".join(", %s=%r" % kv for kv in sorted(kw.items())))
            if rr[0] != "ok":
                viol.append(core.violation(
                    dict(t, what="reload_raises", exc=rr[1]),
                    "%s after save raised %s: %s (coefficient sums %s)" % (
                        how, rr[1], rr[2], ["%.3g" % v for v in ctx.sums(s.acc)])))
            else:
                a = computers.call(_apply_all, ctx, rr[1])
                b = _apply_all(ctx, obj)
                if a[0] != "ok":
                    viol.append(core.violation(
                        dict(t, what="reload_apply_raises", exc=a[1]),
                        "%s loaded, but its apply() raised %s: %s" % (how, a[1], a[2])))
                elif not all(x.shape == y.shape and x.dtype == y.dtype and np.array_equal(x, y)
                             for x, y in zip(a[1], b)):
                    viol.append(core.violation(
                        dict(t, what="reload_differs"),
                        "%s: apply() differs from the saving object's: %r vs %r" % (
                            how, a[1][0].tolist(), b[0].tolist())))
    for n in set(s.dec) | set(s2.dec):
        if n != name and s.dec.get(n) != s2.dec.get(n):
            viol.append(core.violation(dict(what="other_file_changed", target=target, other=_kind(n)),
                                       "save(%r) changed %r" % (name, n)))
    return s2, viol, ("save", target, bool(key), bool(compress), bool(overwrite), existed, neg,
                      r[0], len(s2.dec))


def _ops(ctx, s):
    if s.depth >= ctx.depth:
        return
    for op in SAVES[:2]:
        yield op
    for n in PIECES:
        yield ["acc", n]
    for op in SAVES[2:]:
        yield op


def _initial(ctx):
    from pydrobert.speech import post

    obj = post.Standardize(norm_var=ctx.norm_var)
    acc = ()
    if ctx.c["stats"] != "none":
        acc = (ctx.c["stats"],)
        obj.accumulate(ctx.pieces[ctx.c["stats"]], -1)
    return St(obj, acc, ctx.initial_files(), 0)


def explore_config(c, seed, replay_ops=None):
    scratch = tempfile.mkdtemp(prefix="verif-")
    try:
        ctx = Ctx(c, seed, scratch)
        s0 = _initial(ctx)
        if replay_ops is not None:
            viol, s = [], s0
            ctx.depth = len(replay_ops) + 1
            for op in replay_ops:
                s2, v, _ = _step(ctx, s, op)
                viol.extend(v)
                if s2 is None:
                    break
                s = s2
            for v in viol:
                v["case"] = dict(config=c, ops=replay_ops)
            return core.result(viol)
        st = explorer.bfs(lambda: s0, lambda s: _ops(ctx, s), lambda s, op: _step(ctx, s, op), _key,
                          max_states=400000, max_viol=10 ** 9)
    finally:
        shutil.rmtree(scratch, ignore_errors=True)
    seen, uniq, counts = {}, [], {}
    for v in st.violations:
        h = core.sig_hash(v["tags"])
        counts[h] = counts.get(h, 0) + 1
        if h not in seen:
            seen[h] = v
            v["case"] = dict(v.get("case") or {}, config=c)
            uniq.append(v)
    for v in uniq:
        v["detail"] += " [%d transitions with this signature in this exploration]" % counts[
            core.sig_hash(v["tags"])]
    saves = sum(1 for o in st.observations if o[0] == "save")
    return core.result(
        uniq, nontrivial=saves > 4, obs=(st.states, len(st.observations)),
        states=st.states, transitions=st.transitions, impl_calls=2 * st.transitions,
        capped=st.capped if (st.capped and not uniq) else None,
        sample=dict(config=c, states=st.states, transitions=st.transitions, max_depth=st.max_depth,
                    closed_within_depth=st.closed, distinct_observations=len(st.observations),
                    violating_transitions=len(st.violations)))


def _configs(tier):
    depth = 3 if tier == "quick" else 4
    out = []
    for d in ("foreign", "empty"):
        for stats in ("pos", "neg", "f32", "none", "small_neg", "big", "const", "single"):
            out.append(dict(stats=stats, dir=d, depth=depth))
    if tier == "thorough":
        out += [dict(stats=s, dir="foreign", depth=3, norm_var=False) for s in ("pos", "neg", "f32")]
    return out


# ------------------------------------------------------------------ data alphabet (engine L)
#
# The property quantifies over "any accumulated data".  The search above varies the HISTORY of
# saves over three generic pieces; this lattice varies the DATA: constant and nearly constant
# coefficients (sums of squares within an ulp of count * mean^2), a single frame, all zeros,
# large / tiny / mixed magnitudes, float32 and float64, 1..1000 frames, saved to every kind of
# target and reloaded.  Oracle: only what C17 states - save succeeds, the reload succeeds and
# its apply() is bit-identical to the saving object's (also where a zero variance leaves the
# value of apply() itself undefined: original and reloaded object are compared, no formula).

AF = 3
A_KINDS = ("generic", "const:0.1", "const:third", "const:logfloor", "const:2", "const:mixed", "one_const",
           "zeros", "large", "tiny", "mixed_magnitude", "near_const")
A_COUNTS = (1, 2, 3, 7, 10, 100, 257, 1000)
A_DTYPES = ("float64", "float32")
A_TARGETS = (("npy", "s.npy", None, False), ("npz", "s.npz", None, False), ("npz", "s.npz", "k", False),
             ("npz", "s.npz", None, True), ("npz", "s.npz", "k", True), ("raw", "s.bin", None, False),
             ("raw", "s.stats", None, False))


def _alpha_data(seed, kind, n, dtype):
    g = sig.signal(seed, n * AF, offset=50).reshape(n, AF)
    one = np.ones((n, AF))
    if kind == "generic":
        x = g * 2.0 - 1.0
    elif kind == "const:0.1":
        x = 0.1 * one
    elif kind == "const:third":
        x = one / 3.0
    elif kind == "const:logfloor":
        x = one * float(np.log(1e-6))
    elif kind == "const:2":
        x = 2.0 * one
    elif kind == "const:mixed":
        x = one * np.array([0.1, -1.0 / 3.0, 7.3])
    elif kind == "one_const":
        x = g * 2.0 - 1.0
        x[:, 0] = 0.1
    elif kind == "zeros":
        x = 0.0 * one
    elif kind == "large":
        x = 1e6 * (1.0 + 1e-3 * g)
    elif kind == "tiny":
        x = 1e-6 * g
    elif kind == "mixed_magnitude":
        x = g * np.array([1e8, 1e-8, 1.0])
    elif kind == "near_const":
        x = 0.1 + 1e-9 * g
    else:
        raise core.HarnessError("unknown data kind %r" % kind)
    return sig.ro(x.astype(dtype))


def _alpha_apply(obj, probes):
    """apply() of every probe; an exception is part of the observation"""
    out = []
    with warnings.catch_warnings():
        warnings.simplefilter("ignore")
        with np.errstate(all="ignore"):
            for x, axis in probes:
                r = computers.call(obj.apply, x, axis)
                out.append(("exc", r[1]) if r[0] != "ok" else
                           ("ok", r[1].dtype.str, r[1].shape, r[1].tobytes()))
    return out


def _alpha_one(seed, kind, dtype, n, pres, norm_var, target, scratch):
    from pydrobert.speech import post

    tkind, name, key, compress = target
    data = _alpha_data(seed, kind, n, dtype)
    constant = bool(np.any(np.all(data == data[0], axis=0)))
    tags = dict(check="data", target=tkind, constant_coefficient=constant)
    case = dict(kind=kind, dtype=dtype, n=n, pres=pres, norm_var=norm_var, target=list(target))
    obj = post.Standardize(norm_var=norm_var)
    if pres == "tensor":
        r = computers.call(obj.accumulate, data, -1)
    else:
        r = ("ok", None)
        for row in data:
            r = computers.call(obj.accumulate, row)
            if r[0] != "ok":
                break
    if r[0] != "ok":
        return [core.violation(dict(tags, what="accumulate_exception", exc=r[1]),
                               "accumulate raised %s: %s" % (r[1], r[2]), case)], None
    g = sig.signal(seed, 3 * AF, offset=51).reshape(3, AF) * 2.0 - 1.0
    probes = [(sig.ro(g), -1), (sig.ro(g[0]), -1), (sig.ro(g.T), 0),
              (sig.ro(np.asarray(data[:3], dtype=np.float64)), -1), (sig.ro(data[0]), -1)]
    path = os.path.join(scratch, name)
    if os.path.exists(path):
        os.remove(path)
    r = computers.call(obj.save, path, key, compress)
    if r[0] != "ok":
        return [core.violation(dict(tags, what="save_raises", exc=r[1]),
                               "save(%r, key=%r, compress=%r) raised %s: %s" % (name, key, compress, r[1], r[2]),
                               case)], None
    kw = {}
    if tkind == "raw":
        kw["force_as"] = "file"
    if key is not None:
        kw["key"] = key
    if not norm_var:
        kw["norm_var"] = False
    how = "Standardize(%r%s)" % (name, "".join(", %s=%r" % kv for kv in sorted(kw.items())))
    rr = computers.call(lambda: post.Standardize(path, **kw))
    if rr[0] != "ok":
        return [core.violation(
            dict(tags, what="reload_raises", exc=rr[1]),
            "%s after save raised %s: %s (statistics %s)" % (how, rr[1], rr[2],
                                                            np.asarray(obj._stats).tolist()
                                                            if hasattr(obj, "_stats") else "?"), case)], None
    a, b = _alpha_apply(rr[1], probes), _alpha_apply(obj, probes)
    if a != b:
        i = [x != y for x, y in zip(a, b)].index(True)

        def show(o):
            return o[1] if o[0] == "exc" else np.frombuffer(o[3], dtype=o[1]).ravel()[:4].tolist()
        return [core.violation(dict(tags, what="reload_differs"),
                               "%s: apply(probe %d) gives %r, the saving object %r" % (
                                   how, i, show(a[i]), show(b[i])), case)], None
    return [], (tkind, kind.split(":")[0], constant, all(o[0] == "ok" for o in b))


def _eval_alpha(pt, seed):
    kind, dtype, n = pt
    scratch = tempfile.mkdtemp(prefix="verif-")
    viol, evals, obs = [], 0, set()
    try:
        for pres in ("tensor", "frames"):
            for norm_var in (True, False):
                for target in A_TARGETS:
                    v, o = _alpha_one(seed, kind, dtype, n, pres, norm_var, target, scratch)
                    evals += 1
                    viol.extend(v)
                    if o is not None:
                        obs.add(o)
    finally:
        shutil.rmtree(scratch, ignore_errors=True)
    return core.result(viol, evals=evals, nontrivial_count=evals, obs=sorted(map(str, obs)), obs_is_set=True,
                       sample=dict(kind=kind, dtype=dtype, frames=n,
                                   inner="presentation {tensor, frame by frame} x norm_var x 7 targets"))


def _replay_alpha(case, seed):
    scratch = tempfile.mkdtemp(prefix="verif-")
    try:
        v, _ = _alpha_one(seed, case["kind"], case["dtype"], case["n"], case["pres"], case["norm_var"],
                          tuple(case["target"]), scratch)
    finally:
        shutil.rmtree(scratch, ignore_errors=True)
    return core.result(v)


def subchecks(tier, seed):
    cs = _configs(tier)
    return [core.SubCheck(
        "save_history_bfs", cs, lambda c: explore_config(c, seed),
        "BFS over every history of accumulate/save calls up to the depth bound on one real "
        "Standardize and one scratch directory; after every save: reload gives array_equal "
        "apply(), npz contents as the docstring promises, other files untouched, ValueError "
        "without statistics; non-trivial = more than 4 distinct save observations",
        axes=dict(initial_stats=["pos", "neg", "f32", "none", "small_neg", "big", "const", "single"],
                  initial_dir=["foreign (a.npy, a.bin, a.npz{other,arr_0}, b.npz{k,arr_1})", "empty"],
                  depth=3 if tier == "quick" else 4,
                  accumulate=list(PIECES), saves=SAVES),
        replay=lambda case: explore_config(case["config"], seed, replay_ops=case["ops"]),
        chunk=1, kind="explore"),
        core.SubCheck(
            "data_alphabet", [[k, d, n] for k in A_KINDS for d in A_DTYPES for n in A_COUNTS],
            lambda p: _eval_alpha(p, seed),
            "every (kind of data, dtype, frame count): accumulate (one tensor / frame by frame) x norm_var x "
            "every target kind, save to a fresh path, reload, apply() of 5 probes bit-identical to the saving "
            "object's; non-trivial = the reload was compared",
            axes=dict(kind=list(A_KINDS), dtype=list(A_DTYPES), frames=list(A_COUNTS),
                      presentation=["tensor", "frames"], norm_var=[True, False],
                      target=[list(t) for t in A_TARGETS]),
            replay=lambda case: _replay_alpha(case, seed))]
