"""C17 - saved normalisation statistics reload to the same transform.

Engine E: breadth-first search over histories of {accumulate(piece), save(path, key, compress,
overwrite)} on one real Standardize and one scratch directory, to a depth bound, from several
initial (statistics, directory) configurations.  A state is (real object, the files of the
scratch directory); the directory is re-materialised from the state before every transition,
so every transition is a real `save` onto real files.  States are merged on the canonical
form of the object plus the DECODED contents of every file (zip time stamps would make raw
bytes path-dependent).

Oracle after every save:
  * without statistics it must raise ValueError;
  * with statistics it must succeed, whatever already exists at the path;
  * Standardize(rfilename=path, key=..., force_as="file" for raw) must give an apply() that is
    array_equal to the saving object's apply();
  * for .npz the archive contains exactly what the save docstring promises: with
    overwrite=False the entries that were there before plus the new one, with overwrite=True
    only the new one; the new one under `key`, or under the first unused 'arr_N';
  * no other file of the directory changes.

Engine L (sub-check data_alphabet): the DATA rather than the history is varied - constant and
nearly constant coefficients, a single frame, zeros, large / tiny / mixed magnitudes, float32 /
float64, 1..1000 frames - saved to a fresh path of every target kind and reloaded; the reloaded
object's apply() must be bit-identical to the saving object's.

Engine L (sub-check resave): what the path holds BEFORE the save is varied - statistics of another
feature dimension (wider / narrower / equal) saved there by a real object, or the bytes of another
target kind's writer - so that the new contents are shorter or longer than the old ones.

Engine L (sub-check npz_keys): the KEY STRING of an .npz target is varied over strings another addressing
convention could claim (digits only, explicit 'arr_N', number-like, non-ASCII digits) in every sequence of
up to three keyed saves into one archive; every entry is reloaded by its key.
"""
import copy
import hashlib
import io
import os
import shutil
import tempfile
import warnings

import numpy as np

from .. import computers, core, explorer, sig

LEVEL = "model_checking"
ASSUMPTIONS = [
    "histories are bounded by depth (3 quick / 4 thorough) from 16 initial configurations "
    "(statistics in {none, positive, negative, float32 mixed, small negative, big, constant non-integer "
    "frames, a single frame} x directory in "
    "{empty, pre-existing foreign files}); alphabet: 3 accumulate pieces and 20 save calls over "
    "paths {a.npy, a.npz, a.bin (raw), b.npz}, keys {None,'k','other'}, compress, overwrite",
    "data values: three 3x2 pieces with fixed sign structure (positive sums, negative sums, float32 "
    "with one positive and one negative coefficient), magnitudes from mc/sig.py",
    "data_alphabet: 12 kinds of data (generic, constant coefficients 0.1 / 1/3 / log(1e-6) / 2.0 / mixed, one "
    "constant coefficient, all zeros, large, tiny, mixed magnitudes, nearly constant) x float32/float64 x "
    "frame counts {1,2,3,7,10,100,257,1000}, accumulated as one tensor or frame by frame; where apply() is not "
    "defined by a formula (zero variance) the reloaded object is compared with the saving object only",
    "resave: F1, F2 in {1, 2, 3, 5} coefficients, 4 frames of generic data (first writer positive, second "
    "negative sums), float32/float64, 11 targets; foreign first contents are numpy.save / numpy.savez / tobytes "
    "of the first object's statistics matrix; an .npz target with overwrite=False over a non-archive is left "
    "open by the docstring ('loaded first if possible') and not in the lattice",
    "live_histories: 9 letters (3 accumulate pieces, 5 save calls on a.npy / a.bin / a.npz, 'go on with another "
    "object that accumulated the negative piece'), every sequence of 3 (quick) / 5 (thorough) letters from "
    "{pos, none} x {empty, foreign}; one new directory per history, so state keyed by file name cannot leak "
    "between histories; a violation of save_history_bfs that does not show when its history runs alone is "
    "tagged needs_other_histories and replayed by re-running the search up to that transition",
    "the pre-existing foreign a.bin of save_history_bfs is 200 bytes, longer than any statistics saved there",
    "numpy.load / numpy.save(z) and zipfile are trusted to decode what was written; raw files are "
    "reloaded with force_as='file' and no dtype, npz entries with key=<name> (no key for 'arr_0')",
]

F = 2
PIECES = ("pos", "neg", "f32")


def _piece(seed, name):
    i = dict(pos=0, neg=1, f32=2, small_neg=3, big=4, const=5, single=6)[name]
    s = np.abs(sig.signal(seed, 3 * F, offset=30 + i).reshape(3, F)) + 0.5
    s = s + np.arange(3)[:, None]  # three distinct vectors: no zero variance
    if name == "const":
        # every frame the same non-integer vector (a band clamped to its floor): zero variance
        x = np.tile(np.array([0.1, -1.0 / 3.0]), (3, 1))
    elif name == "single":
        x = -s[:1]  # one frame only
    elif name == "pos":
        x = s
    elif name == "neg":
        x = -3.0 * s
    elif name == "f32":
        x = (s * np.array([1.0, -1.0])).astype(np.float32)
    elif name == "small_neg":
        x = -1e-3 * s
    else:
        x = 1e4 * s
    return sig.ro(x)


def _save_alphabet():
    ops = [["save", "a.npy", None, False, True], ["save", "a.bin", None, False, True]]
    for path, keys, comps in (("a.npz", (None, "k", "other"), (False, True)),
                              ("b.npz", (None, "k"), (False,))):
        for key in keys:
            for compress in comps:
                for overwrite in (True, False):
                    ops.append(["save", path, key, compress, overwrite])
    # arguments that do not apply to the target must be harmless
    ops += [["save", "a.npy", "k", True, False], ["save", "a.bin", "k", True, False]]
    return ops


SAVES = _save_alphabet()


def _kind(name):
    return "npy" if name.endswith(".npy") else "npz" if name.endswith(".npz") else "raw"


def _arr(a):
    a = np.asarray(a)
    return (a.dtype.str, tuple(a.shape), a.tobytes())


_DECODED = {}


def _decode(name, data):
    """decoded, hashable contents of one file (memoised on suffix and bytes: pure)"""
    k = (name[-4:], data)
    if k not in _DECODED:
        if len(_DECODED) > 20000:
            _DECODED.clear()
        _DECODED[k] = _decode_bytes(name, data)
    return _DECODED[k]


def _decode_bytes(name, data):
    try:
        if name.endswith(".npy"):
            return ("npy", _arr(np.load(io.BytesIO(data), allow_pickle=False)))
        if name.endswith(".npz"):
            with np.load(io.BytesIO(data), allow_pickle=False) as z:
                return ("npz", tuple(sorted((k, _arr(z[k])) for k in z.files)))
    except Exception as e:
        return ("undecodable", type(e).__name__, hashlib.sha1(data).hexdigest())
    return ("raw", data)


class Ctx:
    def __init__(self, c, seed, scratch):
        self.c, self.dir, self.root, self.count = c, scratch, scratch, 0
        self.depth = c["depth"]
        self.norm_var = bool(c.get("norm_var", True))
        self.pieces = dict((n, _piece(seed, n)) for n in PIECES + ("small_neg", "big", "const", "single"))
        p = sig.signal(seed, 3 * F, offset=40).reshape(3, F) * 2.0 - 1.0
        self.probes = [sig.ro(p), sig.ro(p[1])]

    def sums(self, acc):
        s = [0.0] * F
        for n in acc:
            for row in self.pieces[n]:
                for f in range(F):
                    s[f] += float(row[f])
        return s

    def new_dir(self):
        """a directory nothing in this process has used before: state the implementation keys by
        file NAME (a cache of loaded statistics) cannot leak from one live history into another,
        so every reported history replays exactly on its own"""
        if self.dir != self.root:
            shutil.rmtree(self.dir, ignore_errors=True)
        self.count += 1
        self.dir = os.path.join(self.root, "d%d" % self.count)
        os.mkdir(self.dir)

    def materialise(self, files):
        for n in os.listdir(self.dir):
            os.remove(os.path.join(self.dir, n))
        for n, data in files.items():
            with open(os.path.join(self.dir, n), "wb") as f:
                f.write(data)

    def read_all(self):
        out = {}
        for n in sorted(os.listdir(self.dir)):
            with open(os.path.join(self.dir, n), "rb") as f:
                out[n] = f.read()
        return out

    def initial_files(self):
        if self.c["dir"] == "empty":
            return {}
        d = tempfile.mkdtemp(prefix="verif-")
        try:
            np.savez(os.path.join(d, "a.npz"), other=np.array([1.0, 2.0, 3.0]), arr_0=np.array([[9.0]]))
            np.savez(os.path.join(d, "b.npz"), k=np.arange(4, dtype=np.int32), arr_1=np.zeros(2))
            np.save(os.path.join(d, "a.npy"), np.arange(3.0))
            with open(os.path.join(d, "a.bin"), "wb") as f:
                # LONGER than any statistics of this search (2 x 3 float64 = 48 bytes): a raw save
                # that does not truncate leaves a tail (shorter existing files: sub-check resave)
                f.write(b"\x01" * 200)
            out = {}
            for n in sorted(os.listdir(d)):
                with open(os.path.join(d, n), "rb") as f:
                    out[n] = f.read()
            return out
        finally:
            shutil.rmtree(d, ignore_errors=True)


class St:
    __slots__ = ("obj", "acc", "files", "dec", "depth")

    def __init__(self, obj, acc, files, depth):
        self.obj, self.acc, self.files, self.depth = obj, acc, files, depth
        self.dec = dict((n, _decode(n, d)) for n, d in files.items())


def _key(s):
    return (computers.canon_value(s.obj), computers.class_state(type(s.obj)),
            tuple(sorted(s.dec.items())))


def _apply_all(ctx, obj):
    out = []
    with warnings.catch_warnings():
        warnings.simplefilter("ignore")
        for x in ctx.probes:
            out.append(obj.apply(x, -1))
    return out


def _expected_npz(prev, key, overwrite):
    """names -> previous array (or None for the new entry), and the new entry's name, as the
    save docstring describes them"""
    entries = {}
    if not overwrite and prev is not None and prev[0] == "npz":
        entries = dict(prev[1])
    if key is None:
        n = 0
        while "arr_%d" % n in entries:
            n += 1
        key = "arr_%d" % n
    entries[key] = None
    return entries, key


def _step(ctx, s, op, live=False):
    """live=False (search): the object is deep-copied and the directory re-materialised;
    live=True (sub-check live_histories): the same object and directory go on"""
    from pydrobert.speech import post

    obj = s.obj if live else copy.deepcopy(s.obj)
    if op[0] == "fresh":
        # the caller goes on with ANOTHER object that accumulated one piece (live histories only)
        obj = post.Standardize(norm_var=ctx.norm_var)
        obj.accumulate(ctx.pieces[op[1]], -1)
        return St(obj, (op[1],), s.files, s.depth + 1), [], ("fresh",)
    if op[0] == "acc":
        r = computers.call(obj.accumulate, ctx.pieces[op[1]], -1)
        if r[0] != "ok":
            return None, [core.violation(dict(what="accumulate_exception", piece=op[1], exc=r[1]),
                                         "accumulate raised %s: %s" % (r[1], r[2]))], ("acc", "exc")
        return St(obj, s.acc + (op[1],), s.files, s.depth + 1), [], ("acc", op[1])
    _, name, key, compress, overwrite = op
    target = _kind(name)
    path = os.path.join(ctx.dir, name)
    existed = name in s.files
    if not live:
        ctx.materialise(s.files)
    with warnings.catch_warnings():
        warnings.simplefilter("ignore")
        r = computers.call(obj.save, path, key, compress, overwrite)
    s2 = St(obj, s.acc, ctx.read_all(), s.depth + 1)
    viol = []
    base = dict(target=target, existing_file=existed)
    if not s.acc:
        # no statistics: ValueError, nothing else is demanded
        if r[0] == "exc" and r[1] == "ValueError":
            return s2, [], ("save", target, "refused")
        if r[0] == "ok":
            viol.append(core.violation(dict(what="no_stats_accepted", target=target),
                                       "save(%r) without accumulated statistics returned normally" % name))
        else:
            viol.append(core.violation(dict(what="no_stats_wrong_exception", target=target, exc=r[1]),
                                       "save(%r) without statistics raised %s: %s" % (name, r[1], r[2])))
        return s2, viol, ("save", target, "no_stats", r[0])
    neg = bool(any(v < 0 for v in ctx.sums(s.acc)))
    if r[0] != "ok":
        t = dict(base, what="save_raises", exc=r[1])
        if target == "npz":
            t["overwrite"] = bool(overwrite)
        viol.append(core.violation(
            t, "save(%r, key=%r, compress=%r, overwrite=%r) onto %s raised %s: %s" % (
                name, key, compress, overwrite,
                "an existing file" if existed else "a new path", r[1], r[2])))
    else:
        reload_key = None
        do_reload = True
        got = s2.dec.get(name)
        if got is None:
            viol.append(core.violation(dict(base, what="nothing_written"),
                                       "save(%r) returned but the file does not exist" % name))
            do_reload = False
        elif target == "npz":
            want, used = _expected_npz(s.dec.get(name), key, overwrite)
            t = dict(base, what="archive_contents", overwrite=bool(overwrite))
            if got[0] != "npz":
                viol.append(core.violation(dict(t, sub="not_an_archive"),
                                           "save(%r) did not leave a readable archive: %r" % (name, got[:2])))
                do_reload = False
            else:
                have = dict(got[1])
                kept = [k for k, v in want.items() if v is not None]
                lost = [k for k in kept if k not in have or have[k] != want[k]]
                extra = [k for k in have if k not in want]
                desc = "save(%r, key=%r, overwrite=%r) onto %s: archive has %s, docstring promises %s" % (
                    name, key, overwrite,
                    "an archive holding %s" % sorted(dict(s.dec[name][1])) if existed and
                    s.dec[name][0] == "npz" else "a new path",
                    sorted(have), sorted(want))
                if lost:
                    viol.append(core.violation(dict(t, sub="entries_lost"), desc + "; lost/changed %s" % lost))
                if used not in have:
                    # the new entry is not where the docstring puts it (when entries were lost
                    # this is a consequence, not a second finding)
                    if not lost:
                        viol.append(core.violation(dict(t, sub="new_entry_name"), desc))
                elif extra and overwrite:
                    viol.append(core.violation(dict(t, sub="entries_kept"), desc + "; kept %s" % extra))
                elif extra:
                    viol.append(core.violation(dict(t, sub="unexpected_entries"), desc))
                if viol:
                    do_reload = False  # report the cause only, not what follows from it
                reload_key = used
        if do_reload:
            kw = {}
            if target == "raw":
                kw["force_as"] = "file"
            if target == "npz" and reload_key != "arr_0":
                kw["key"] = reload_key
            if not ctx.norm_var:
                kw["norm_var"] = False
            rr = computers.call(lambda: post.Standardize(path, **kw))
            t = dict(base, negative_sums=neg)
            how = "Standardize(%r%s)" % (name, "".join(", %s=%r" % kv for kv in sorted(kw.items())))
            if rr[0] != "ok":
                viol.append(core.violation(
                    dict(t, what="reload_raises", exc=rr[1]),
                    "%s after save raised %s: %s (coefficient sums %s)" % (
                        how, rr[1], rr[2], ["%.3g" % v for v in ctx.sums(s.acc)])))
            else:
                a = computers.call(_apply_all, ctx, rr[1])
                b = _apply_all(ctx, obj)
                if a[0] != "ok":
                    viol.append(core.violation(
                        dict(t, what="reload_apply_raises", exc=a[1]),
                        "%s loaded, but its apply() raised %s: %s" % (how, a[1], a[2])))
                elif not all(x.shape == y.shape and x.dtype == y.dtype and np.array_equal(x, y)
                             for x, y in zip(a[1], b)):
                    viol.append(core.violation(
                        dict(t, what="reload_differs"),
                        "%s: apply() differs from the saving object's: %r vs %r" % (
                            how, a[1][0].tolist(), b[0].tolist())))
    for n in set(s.dec) | set(s2.dec):
        if n != name and s.dec.get(n) != s2.dec.get(n):
            viol.append(core.violation(dict(what="other_file_changed", target=target, other=_kind(n)),
                                       "save(%r) changed %r" % (name, n)))
    return s2, viol, ("save", target, bool(key), bool(compress), bool(overwrite), existed, neg,
                      r[0], len(s2.dec))


def _ops(ctx, s):
    if s.depth >= ctx.depth:
        return
    for op in SAVES[:2]:
        yield op
    for n in PIECES:
        yield ["acc", n]
    for op in SAVES[2:]:
        yield op


def _initial(ctx, files=None):
    from pydrobert.speech import post

    obj = post.Standardize(norm_var=ctx.norm_var)
    acc = ()
    if ctx.c["stats"] != "none":
        acc = (ctx.c["stats"],)
        obj.accumulate(ctx.pieces[ctx.c["stats"]], -1)
    return St(obj, acc, ctx.initial_files() if files is None else files, 0)


class _Stop(Exception):
    def __init__(self, viol):
        Exception.__init__(self)
        self.viol = viol


def _isolated(c, seed, ops):
    """the history `ops` alone, from the initial state, in a scratch directory of its own (this is
    also what --replay runs): list of violations"""
    scratch = tempfile.mkdtemp(prefix="verif-")
    try:
        ctx = Ctx(c, seed, scratch)
        ctx.depth = len(ops) + 1
        viol, s = [], _initial(ctx)
        for op in ops:
            s2, v, _ = _step(ctx, s, op)
            viol.extend(v)
            if s2 is None:
                break
            s = s2
    finally:
        shutil.rmtree(scratch, ignore_errors=True)
    for v in viol:
        v["case"] = dict(config=c, ops=[list(o) for o in ops])
    return viol


def explore_config(c, seed, replay_ops=None, stop_at=None):
    """stop_at=N: re-run the search and return the violations of its N-th transition (replay of
    a violation that does not show when its history runs alone, see below)"""
    if replay_ops is not None and stop_at is None:
        return core.result(_isolated(c, seed, replay_ops))
    scratch = tempfile.mkdtemp(prefix="verif-")
    tn = [0]
    try:
        ctx = Ctx(c, seed, scratch)
        s0 = _initial(ctx)

        def step(s, op):
            s2, v, o = _step(ctx, s, op)
            tn[0] += 1
            for w in v:
                w["transition"] = tn[0]
            if stop_at is not None and tn[0] == stop_at:
                raise _Stop(v)
            return s2, v, o

        try:
            st = explorer.bfs(lambda: s0, lambda s: _ops(ctx, s), step, _key,
                              max_states=400000, max_viol=10 ** 9)
        except _Stop as e:
            for v in e.viol:
                v["tags"] = dict(v["tags"], needs_other_histories=True)
                v["case"] = dict(config=c, ops=replay_ops, bfs_transition=stop_at)
            return core.result(e.viol)
        if stop_at is not None:
            return core.result([])
    finally:
        shutil.rmtree(scratch, ignore_errors=True)
    seen, uniq, counts = {}, [], {}
    for v in st.violations:
        h = core.sig_hash(v["tags"])
        counts[h] = counts.get(h, 0) + 1
        if h not in seen:
            seen[h] = v
            v["case"] = dict(v.get("case") or {}, config=c)
            uniq.append(v)
    for v in uniq:
        v["detail"] += " [%d transitions with this signature in this exploration]" % counts[
            core.sig_hash(v["tags"])]
    # The search runs all its histories in one process and one directory.  A violation is
    # reported with its history as the case only if that history ALONE reproduces it; otherwise
    # (state leaking from one history into another outside the object, e.g. keyed by file name)
    # the case is the search itself up to that transition, which replays exactly.
    for v in uniq[:40]:
        h = core.sig_hash(v["tags"])
        alone = _isolated(c, seed, v["case"]["ops"])
        if not any(core.sig_hash(w["tags"]) == h for w in alone):
            v["tags"] = dict(v["tags"], needs_other_histories=True)
            v["case"] = dict(v["case"], bfs_transition=v["transition"])
            v["detail"] += " [does not show when this history runs alone in a new process: replayed by " \
                           "re-running the search up to transition %d]" % v["transition"]
    uniq = uniq[:40]
    for v in uniq:
        v.pop("transition", None)
    saves = sum(1 for o in st.observations if o[0] == "save")
    return core.result(
        uniq, nontrivial=saves > 4, obs=(st.states, len(st.observations)),
        states=st.states, transitions=st.transitions, impl_calls=2 * st.transitions,
        capped=st.capped if (st.capped and not uniq) else None,
        sample=dict(config=c, states=st.states, transitions=st.transitions, max_depth=st.max_depth,
                    closed_within_depth=st.closed, distinct_observations=len(st.observations),
                    violating_transitions=len(st.violations)))


# ------------------------------------------------------------------ live histories (no copies)
#
# The search above deep-copies the object and re-creates the directory for every transition
# (that is what makes merging possible), so state that survives OUTSIDE the object - a cache of
# loaded statistics keyed by file name, a file handle kept open - never meets the same path
# twice.  Here every sequence of accumulate / save / "go on with another object" calls runs on
# live objects in ONE directory of its own, from scratch, with the oracle of the search after
# every save (the reload is part of it: the same path is loaded again and again in one process).

LIVE_LETTERS = [["acc", "pos"], ["acc", "neg"], ["acc", "f32"],
                ["save", "a.npy", None, False, True], ["save", "a.bin", None, False, True],
                ["save", "a.npz", None, False, True], ["save", "a.npz", "k", False, False],
                ["save", "a.npz", None, True, False], ["fresh", "neg"]]


def _run_live(ctx, s0_files, ops):
    """one history on live objects in a new directory; violations carry the shortest prefix"""
    ctx.new_dir()
    ctx.materialise(s0_files)
    s = _initial(ctx, s0_files)
    viol, obs = [], []
    for i, op in enumerate(ops):
        s2, v, o = _step(ctx, s, op, live=True)
        for w in v:
            w["case"] = dict(config=ctx.c, ops=[list(x) for x in ops[:i + 1]], live=True)
            w["tags"] = dict(w["tags"], live=True, saves_before=min(2, sum(1 for x in ops[:i] if x[0] == "save")))
        viol.extend(v)
        obs.append(o)
        if s2 is None:
            break
        s = s2
    return viol, obs


def _eval_live(c, seed, replay_ops=None):
    scratch = tempfile.mkdtemp(prefix="verif-")
    viol, obs, hists, steps = [], set(), 0, 0
    try:
        ctx = Ctx(c, seed, scratch)
        files = ctx.initial_files()
        if replay_ops is not None:
            ctx.depth = len(replay_ops) + 1
            v, _ = _run_live(ctx, files, replay_ops)
            return core.result(v)
        ctx.depth = c["depth"] + 1
        import itertools

        for rest in itertools.product(LIVE_LETTERS, repeat=c["depth"] - 1):
            ops = (LIVE_LETTERS[c["first"]],) + rest
            v, o = _run_live(ctx, files, ops)
            hists += 1
            steps += len(o)
            viol.extend(v)
            obs.update(o)
            if len(viol) >= 300:
                break
    finally:
        shutil.rmtree(scratch, ignore_errors=True)
    seen, uniq = set(), []
    for v in viol:
        h = core.sig_hash(v["tags"])
        if h not in seen:
            seen.add(h)
            uniq.append(v)
    return core.result(uniq, nontrivial=hists > 0, obs=sorted(map(str, obs)), obs_is_set=True, evals=hists,
                       nontrivial_count=hists, impl_calls=2 * steps,
                       sample=dict(config=c, histories=hists, steps=steps))


def _live_configs(tier):
    depth = 3 if tier == "quick" else 5
    return [dict(stats=stats, dir=d, depth=depth, first=i) for stats in ("pos", "none")
            for d in ("empty", "foreign") for i in range(len(LIVE_LETTERS))]


def _configs(tier):
    depth = 3 if tier == "quick" else 4
    out = []
    for d in ("foreign", "empty"):
        for stats in ("pos", "neg", "f32", "none", "small_neg", "big", "const", "single"):
            out.append(dict(stats=stats, dir=d, depth=depth))
    if tier == "thorough":
        out += [dict(stats=s, dir="foreign", depth=3, norm_var=False) for s in ("pos", "neg", "f32")]
    return out


# ------------------------------------------------------------------ data alphabet (engine L)
#
# The property quantifies over "any accumulated data".  The search above varies the HISTORY of
# saves over three generic pieces; this lattice varies the DATA: constant and nearly constant
# coefficients (sums of squares within an ulp of count * mean^2), a single frame, all zeros,
# large / tiny / mixed magnitudes, float32 and float64, 1..1000 frames, saved to every kind of
# target and reloaded.  Oracle: only what C17 states - save succeeds, the reload succeeds and
# its apply() is bit-identical to the saving object's (also where a zero variance leaves the
# value of apply() itself undefined: original and reloaded object are compared, no formula).

AF = 3
A_KINDS = ("generic", "const:0.1", "const:third", "const:logfloor", "const:2", "const:mixed", "one_const",
           "zeros", "large", "tiny", "mixed_magnitude", "near_const")
A_COUNTS = (1, 2, 3, 7, 10, 100, 257, 1000)
A_DTYPES = ("float64", "float32")
A_TARGETS = (("npy", "s.npy", None, False), ("npz", "s.npz", None, False), ("npz", "s.npz", "k", False),
             ("npz", "s.npz", None, True), ("npz", "s.npz", "k", True), ("raw", "s.bin", None, False),
             ("raw", "s.stats", None, False))


def _alpha_data(seed, kind, n, dtype):
    g = sig.signal(seed, n * AF, offset=50).reshape(n, AF)
    one = np.ones((n, AF))
    if kind == "generic":
        x = g * 2.0 - 1.0
    elif kind == "const:0.1":
        x = 0.1 * one
    elif kind == "const:third":
        x = one / 3.0
    elif kind == "const:logfloor":
        x = one * float(np.log(1e-6))
    elif kind == "const:2":
        x = 2.0 * one
    elif kind == "const:mixed":
        x = one * np.array([0.1, -1.0 / 3.0, 7.3])
    elif kind == "one_const":
        x = g * 2.0 - 1.0
        x[:, 0] = 0.1
    elif kind == "zeros":
        x = 0.0 * one
    elif kind == "large":
        x = 1e6 * (1.0 + 1e-3 * g)
    elif kind == "tiny":
        x = 1e-6 * g
    elif kind == "mixed_magnitude":
        x = g * np.array([1e8, 1e-8, 1.0])
    elif kind == "near_const":
        x = 0.1 + 1e-9 * g
    else:
        raise core.HarnessError("unknown data kind %r" % kind)
    return sig.ro(x.astype(dtype))


def _alpha_apply(obj, probes):
    """apply() of every probe; an exception is part of the observation"""
    out = []
    with warnings.catch_warnings():
        warnings.simplefilter("ignore")
        with np.errstate(all="ignore"):
            for x, axis in probes:
                r = computers.call(obj.apply, x, axis)
                out.append(("exc", r[1]) if r[0] != "ok" else
                           ("ok", r[1].dtype.str, r[1].shape, r[1].tobytes()))
    return out


_CASE_NO = [0]


def _case_dir(scratch):
    """a directory no earlier case of this process has used (see Ctx.new_dir)"""
    _CASE_NO[0] += 1
    d = os.path.join(scratch, "c%d" % _CASE_NO[0])
    os.mkdir(d)
    return d


def _alpha_one(seed, kind, dtype, n, pres, norm_var, target, scratch):
    d = _case_dir(scratch)
    try:
        return _alpha_one_in(seed, kind, dtype, n, pres, norm_var, target, d)
    finally:
        shutil.rmtree(d, ignore_errors=True)


def _alpha_one_in(seed, kind, dtype, n, pres, norm_var, target, scratch):
    from pydrobert.speech import post

    tkind, name, key, compress = target
    data = _alpha_data(seed, kind, n, dtype)
    constant = bool(np.any(np.all(data == data[0], axis=0)))
    tags = dict(check="data", target=tkind, constant_coefficient=constant)
    case = dict(kind=kind, dtype=dtype, n=n, pres=pres, norm_var=norm_var, target=list(target))
    obj = post.Standardize(norm_var=norm_var)
    if pres == "tensor":
        r = computers.call(obj.accumulate, data, -1)
    else:
        r = ("ok", None)
        for row in data:
            r = computers.call(obj.accumulate, row)
            if r[0] != "ok":
                break
    if r[0] != "ok":
        return [core.violation(dict(tags, what="accumulate_exception", exc=r[1]),
                               "accumulate raised %s: %s" % (r[1], r[2]), case)], None
    g = sig.signal(seed, 3 * AF, offset=51).reshape(3, AF) * 2.0 - 1.0
    probes = [(sig.ro(g), -1), (sig.ro(g[0]), -1), (sig.ro(g.T), 0),
              (sig.ro(np.asarray(data[:3], dtype=np.float64)), -1), (sig.ro(data[0]), -1)]
    path = os.path.join(scratch, name)
    if os.path.exists(path):
        os.remove(path)
    r = computers.call(obj.save, path, key, compress)
    if r[0] != "ok":
        return [core.violation(dict(tags, what="save_raises", exc=r[1]),
                               "save(%r, key=%r, compress=%r) raised %s: %s" % (name, key, compress, r[1], r[2]),
                               case)], None
    kw = {}
    if tkind == "raw":
        kw["force_as"] = "file"
    if key is not None:
        kw["key"] = key
    if not norm_var:
        kw["norm_var"] = False
    how = "Standardize(%r%s)" % (name, "".join(", %s=%r" % kv for kv in sorted(kw.items())))
    rr = computers.call(lambda: post.Standardize(path, **kw))
    if rr[0] != "ok":
        return [core.violation(
            dict(tags, what="reload_raises", exc=rr[1]),
            "%s after save raised %s: %s (statistics %s)" % (how, rr[1], rr[2],
                                                            np.asarray(obj._stats).tolist()
                                                            if hasattr(obj, "_stats") else "?"), case)], None
    a, b = _alpha_apply(rr[1], probes), _alpha_apply(obj, probes)
    if a != b:
        i = [x != y for x, y in zip(a, b)].index(True)

        def show(o):
            return o[1] if o[0] == "exc" else np.frombuffer(o[3], dtype=o[1]).ravel()[:4].tolist()
        return [core.violation(dict(tags, what="reload_differs"),
                               "%s: apply(probe %d) gives %r, the saving object %r" % (
                                   how, i, show(a[i]), show(b[i])), case)], None
    return [], (tkind, kind.split(":")[0], constant, all(o[0] == "ok" for o in b))


def _eval_alpha(pt, seed):
    kind, dtype, n = pt
    scratch = tempfile.mkdtemp(prefix="verif-")
    viol, evals, obs = [], 0, set()
    try:
        for pres in ("tensor", "frames"):
            for norm_var in (True, False):
                for target in A_TARGETS:
                    v, o = _alpha_one(seed, kind, dtype, n, pres, norm_var, target, scratch)
                    evals += 1
                    viol.extend(v)
                    if o is not None:
                        obs.add(o)
    finally:
        shutil.rmtree(scratch, ignore_errors=True)
    return core.result(viol, evals=evals, nontrivial_count=evals, obs=sorted(map(str, obs)), obs_is_set=True,
                       sample=dict(kind=kind, dtype=dtype, frames=n,
                                   inner="presentation {tensor, frame by frame} x norm_var x 7 targets"))


def _replay_alpha(case, seed):
    scratch = tempfile.mkdtemp(prefix="verif-")
    try:
        v, _ = _alpha_one(seed, case["kind"], case["dtype"], case["n"], case["pres"], case["norm_var"],
                          tuple(case["target"]), scratch)
    finally:
        shutil.rmtree(scratch, ignore_errors=True)
    return core.result(v)


# ------------------------------------------------------------------ re-saving over other contents (engine L)
#
# "Saving is repeatable: saving again to an existing file of any of these kinds succeeds" - the
# search above re-saves statistics of ONE feature dimension, so an existing file is always as
# long as the new contents.  Here the path already holds (a) statistics of ANOTHER dimension F1
# (wider, narrower, equal; float64 / float32 data) saved there by a real Standardize with the same
# target arguments, or (b) the bytes another target kind's writer produces for them (numpy.save /
# numpy.savez / tofile), and a second object with F2 coefficients saves to it.  Oracle: the second
# save succeeds, the reload (key as the docstring assigns it) has an apply() bit-identical to the
# second object's, and for .npz with overwrite=False the earlier entries are still there.
# Out of the lattice (the property leaves it open): an .npz target with overwrite=False over a
# file that is not an archive ("other key-values will be loaded first if possible").

R_DIMS = (1, 2, 3, 5)
R_TARGETS = [("npy", "s.npy", None, False, True), ("raw", "s.bin", None, False, True),
             ("raw", "s.stats", None, False, True)] + \
            [("npz", "s.npz", key, compress, overwrite) for key in (None, "k") for compress in (False, True)
             for overwrite in (True, False)]
R_FIRST = ("object", "npy_bytes", "npz_bytes", "raw_bytes")


def _r_data(seed, Fdim, dtype, which):
    g = sig.signal(seed, 4 * Fdim, offset=55 + which).reshape(4, Fdim)
    x = g * 2.0 + (1.5 if which == 0 else -3.0)  # first writer: positive sums, second: negative
    return sig.ro(x.astype(dtype))


def _r_one(seed, target, F1, F2, d1, d2, first, scratch):
    d = _case_dir(scratch)
    try:
        return _r_one_in(seed, target, F1, F2, d1, d2, first, d)
    finally:
        shutil.rmtree(d, ignore_errors=True)


def _r_one_in(seed, target, F1, F2, d1, d2, first, scratch):
    from pydrobert.speech import post

    tkind, name, key, compress, overwrite = target
    tags = dict(check="resave", target=tkind, first_writer=first,
                existing="wider" if F1 > F2 else "narrower" if F1 < F2 else "same_width")
    if tkind == "npz":
        tags["overwrite"] = bool(overwrite)
    case = dict(target=list(target), F1=F1, F2=F2, dtype1=d1, dtype2=d2, first=first)
    path = os.path.join(scratch, name)
    if os.path.exists(path):
        os.remove(path)
    a, b = post.Standardize(), post.Standardize()
    a.accumulate(_r_data(seed, F1, d1, 0), -1)
    b.accumulate(_r_data(seed, F2, d2, 1), -1)
    if first == "object":
        r = computers.call(a.save, path, key, compress, overwrite)
        if r[0] != "ok":
            return [core.violation(dict(tags, what="first_save_raises", exc=r[1]),
                                   "save(%r) to a new path raised %s: %s" % (name, r[1], r[2]), case)], None
        # the first file is loaded once, so that the path has been read before it is saved to again
        kw1 = dict(force_as="file") if tkind == "raw" else dict(key=key) if key is not None else {}
        r1 = computers.call(lambda: post.Standardize(path, **kw1))
        g1 = sig.signal(seed, 3 * F1, offset=58).reshape(3, F1) * 2.0 - 1.0
        p1 = [(sig.ro(g1), -1)]
        if r1[0] != "ok" or _alpha_apply(r1[1], p1) != _alpha_apply(a, p1):
            return [core.violation(dict(tags, what="first_reload_differs"),
                                   "Standardize(%r) after the first save to a new path: %s" % (
                                       name, "apply() differs from the saving object's" if r1[0] == "ok" else
                                       "raised %s: %s" % r1[1:]), case)], None
    else:
        # what another kind's writer leaves for the statistics matrix of the first object
        stats = np.zeros((2, F1 + 1))
        x = np.asarray(_r_data(seed, F1, d1, 0), dtype=np.float64)
        stats[0, :-1], stats[1, :-1], stats[0, -1] = x.sum(0), (x * x).sum(0), len(x)
        buf = io.BytesIO()
        if first == "npy_bytes":
            np.save(buf, stats)
        elif first == "npz_bytes":
            np.savez(buf, arr_0=stats, other=np.arange(3.0))
        else:
            buf.write(stats.tobytes())
        with open(path, "wb") as f:
            f.write(buf.getvalue())
    with open(path, "rb") as f:
        prev = _decode(name, f.read())
    with warnings.catch_warnings():
        warnings.simplefilter("ignore")
        r = computers.call(b.save, path, key, compress, overwrite)
    if r[0] != "ok":
        return [core.violation(dict(tags, what="save_raises", exc=r[1]),
                               "save(%r, key=%r, compress=%r, overwrite=%r) of %d-coefficient statistics over %s "
                               "raised %s: %s" % (name, key, compress, overwrite, F2,
                                                  _r_existing(first, F1), r[1], r[2]), case)], None
    kw = {}
    if tkind == "raw":
        kw["force_as"] = "file"
    if tkind == "npz":
        want, used = _expected_npz(prev, key, overwrite)
        with open(path, "rb") as f:
            got = _decode(name, f.read())
        if got[0] != "npz":
            return [core.violation(dict(tags, what="archive_contents", sub="not_an_archive"),
                                   "save(%r) over %s did not leave a readable archive" % (
                                       name, _r_existing(first, F1)), case)], None
        have = dict(got[1])
        lost = [k for k, v in want.items() if v is not None and have.get(k) != v]
        extra = [k for k in have if k not in want]
        if lost or used not in have or extra:
            return [core.violation(
                dict(tags, what="archive_contents",
                     sub="entries_lost" if lost else "new_entry_name" if used not in have else
                     "entries_kept" if overwrite else "unexpected_entries"),
                "save(%r, key=%r, overwrite=%r) over %s: archive has %s, docstring promises %s" % (
                    name, key, overwrite, _r_existing(first, F1), sorted(have), sorted(want)), case)], None
        if used != "arr_0":
            kw["key"] = used
    how = "Standardize(%r%s)" % (name, "".join(", %s=%r" % kv for kv in sorted(kw.items())))
    rr = computers.call(lambda: post.Standardize(path, **kw))
    if rr[0] != "ok":
        return [core.violation(
            dict(tags, what="reload_raises", exc=rr[1]),
            "%s after saving %d-coefficient statistics over %s raised %s: %s (file has %d bytes)" % (
                how, F2, _r_existing(first, F1), rr[1], rr[2], os.path.getsize(path)), case)], None
    g = sig.signal(seed, 3 * F2, offset=57).reshape(3, F2) * 2.0 - 1.0
    probes = [(sig.ro(g), -1), (sig.ro(g[0]), -1), (sig.ro(g.T), 0)]
    x, y = _alpha_apply(rr[1], probes), _alpha_apply(b, probes)
    if x != y:
        i = [p != q for p, q in zip(x, y)].index(True)

        def show(o):
            return o[1] if o[0] == "exc" else np.frombuffer(o[3], dtype=o[1]).ravel()[:4].tolist()
        return [core.violation(
            dict(tags, what="reload_differs"),
            "%s after saving %d-coefficient statistics over %s: apply(probe %d) gives %r, the saving object %r "
            "(file has %d bytes)" % (how, F2, _r_existing(first, F1), i, show(x[i]), show(y[i]),
                                    os.path.getsize(path)), case)], None
    return [], (tkind, first, tags["existing"], bool(overwrite))


def _r_existing(first, F1):
    return ("a file saved by a Standardize with %d coefficients" % F1 if first == "object" else
            "the %s of a %d-coefficient statistics matrix" % (first.replace("_", " "), F1))


def _r_in_lattice(target, first):
    tkind, _, _, _, overwrite = target
    if first == "object":
        return True
    if first.startswith(tkind):
        return False  # the same kind's writer: that is first == "object"
    if tkind == "npz" and not overwrite:
        return False  # "loaded first if possible": left open for something that is not an archive
    return True


def _eval_resave(pt, seed):
    ti, F1, F2 = pt
    target = R_TARGETS[ti]
    scratch = tempfile.mkdtemp(prefix="verif-")
    viol, evals, skipped, obs = [], 0, 0, set()
    try:
        for first in R_FIRST:
            if not _r_in_lattice(target, first):
                skipped += 1
                continue
            for d1 in A_DTYPES:
                for d2 in A_DTYPES:
                    v, o = _r_one(seed, target, F1, F2, d1, d2, first, scratch)
                    evals += 1
                    viol.extend(v)
                    if o is not None:
                        obs.add(o)
    finally:
        shutil.rmtree(scratch, ignore_errors=True)
    return core.result(viol, evals=evals, nontrivial_count=evals, obs=sorted(map(str, obs)), obs_is_set=True,
                       skipped=skipped or None,
                       sample=dict(target=list(target), F1=F1, F2=F2,
                                   inner="first writer {object, npy/npz/raw bytes} x dtype x dtype"))


def _replay_resave(case, seed):
    scratch = tempfile.mkdtemp(prefix="verif-")
    try:
        v, _ = _r_one(seed, tuple(case["target"]), case["F1"], case["F2"], case["dtype1"], case["dtype2"],
                      case["first"], scratch)
    finally:
        shutil.rmtree(scratch, ignore_errors=True)
    return core.result(v)



# ------------------------------------------------------------------ the alphabet of .npz keys (engine L + short histories)
#
# "`key` ... data will be indexed by `key` in the archive": a key is a NAME, whatever it looks like.  The
# searches above use the keys None / 'k' / 'other'; here the KEY STRING is varied over strings that another
# addressing convention could claim (digits only: a position; 'arr_N' given explicitly: the default names;
# a sign, a decimal point, a non-ASCII digit, another case), and several keyed saves (one object with its
# own statistics per save, overwrite=False) go into ONE archive in every order.  After every save every
# entry the archive should hold is reloaded BY ITS KEY (and 'arr_0' also without a key) and must give the
# apply() of the object that saved it; numpy.load must list exactly the expected names.

K_KEYS = (None, "0", "1", "1001", "007", "arr_0", "arr_1", "k", "-1", "１", "K")
K_DEPTH = 3


def _k_class(key):
    if key is None:
        return "none"
    if key.isascii() and key.isdigit():
        return "digits"
    if key.startswith("arr_"):
        return "default_name"
    if key.isdigit():
        return "unicode_digit"
    if key.lstrip("-").replace(".", "", 1).isdigit():
        return "number_like"
    return "name"


def _k_stats(seed, i):
    """statistics of the i-th save of a sequence: 4 frames x 3 coefficients, different for every i"""
    g = sig.signal(seed, 4 * AF, offset=70 + i).reshape(4, AF)
    return sig.ro((g * 2.0 - 1.0) * (1.0 + i) + np.array([0.0, -3.0, 5.0]) * (i + 1))


def _k_run(seed, keys, compress, scratch):
    """one sequence of keyed saves into one new archive -> (violations, observation)"""
    from pydrobert.speech import post

    d = _case_dir(scratch)
    try:
        path = os.path.join(d, "s.npz")
        g = sig.signal(seed, 3 * AF, offset=51).reshape(3, AF) * 2.0 - 1.0
        probes = [(sig.ro(g), -1), (sig.ro(g[0]), -1)]
        model = {}            # entry name -> (apply() of the object that saved it, number of the save)
        case = dict(keys=list(keys), compress=bool(compress))
        for i, key in enumerate(keys):
            obj = post.Standardize()
            obj.accumulate(_k_stats(seed, i), -1)
            name = key
            if name is None:
                n = 0
                while "arr_%d" % n in model:
                    n += 1
                name = "arr_%d" % n
            tags = dict(check="npz_keys", key_class=_k_class(key), entries_before=min(len(model), 2),
                        replaces=(name in model))
            r = computers.call(obj.save, path, key, compress, False)
            if r[0] != "ok":
                return [core.violation(dict(tags, what="save_raises", exc=r[1]),
                                       "save %d of keys %r (save(path, key=%r, compress=%r, overwrite=False)) "
                                       "raised %s: %s" % (i + 1, list(keys), key, compress, r[1], r[2]), case)], None
            model[name] = (_alpha_apply(obj, probes), i)
            with np.load(path) as z:
                listed = sorted(z.files)
            if listed != sorted(model):
                return [core.violation(dict(tags, what="npz_entries"),
                                       "after save %d of keys %r the archive lists %r, expected %r" % (
                                           i + 1, list(keys), listed, sorted(model)), case)], None
            for nm in sorted(model):
                for kw in ([dict(key=nm)] + ([{}] if nm == "arr_0" else [])):
                    t = dict(check="npz_keys", key_class=_k_class(nm) if kw else "none",
                             entries=min(len(model), 3), keyed_reload=bool(kw))
                    how = "after saves under %r: Standardize('s.npz'%s)" % (
                        list(keys[:i + 1]), ", key=%r" % nm if kw else "")
                    rr = computers.call(lambda: post.Standardize(path, **kw))
                    if rr[0] != "ok":
                        return [core.violation(dict(t, what="reload_raises", exc=rr[1]),
                                               "%s raised %s: %s" % (how, rr[1], rr[2]), case)], None
                    if _alpha_apply(rr[1], probes) != model[nm][0]:
                        other = [o for o in sorted(model) if o != nm and
                                 _alpha_apply(rr[1], probes) == model[o][0]]
                        return [core.violation(
                            dict(t, what="reload_differs", is_another_entry=bool(other)),
                            "%s does not give the apply() of the object saved under that name (save %d)%s" % (
                                how, model[nm][1] + 1,
                                "; it gives that of entry %r" % other[0] if other else ""), case)], None
        return [], (len(model), tuple(sorted(set(_k_class(k) for k in keys))))
    finally:
        shutil.rmtree(d, ignore_errors=True)


def _eval_keys(pt, seed):
    first, compress = pt
    first = [None if k == "<none>" else k for k in first]
    scratch = tempfile.mkdtemp(prefix="verif-")
    viol, evals, nontriv, obs = [], 0, 0, set()
    try:
        import itertools

        # a one-key point is that sequence alone; a two-key point is the pair and every longer sequence
        for n in (range(0, 1) if len(first) == 1 else range(0, K_DEPTH - len(first) + 1)):
            for rest in itertools.product(K_KEYS, repeat=n):
                keys = list(first) + list(rest)
                v, o = _k_run(seed, keys, compress, scratch)
                evals += 1
                nontriv += len(keys) > 1
                viol.extend(v)
                if o is not None:
                    obs.add(o)
                if len(viol) >= 40:
                    break
    finally:
        shutil.rmtree(scratch, ignore_errors=True)
    return core.result(viol, evals=evals, nontrivial_count=nontriv, obs=sorted(map(str, obs)), obs_is_set=True,
                       sample=dict(first_keys=first, compress=compress,
                                   inner="the sequence alone" if len(first) == 1 else
                                   "every continuation by 0..%d further keys" % (K_DEPTH - len(first))))


def _replay_keys(case, seed):
    scratch = tempfile.mkdtemp(prefix="verif-")
    try:
        v, _ = _k_run(seed, case["keys"], case["compress"], scratch)
    finally:
        shutil.rmtree(scratch, ignore_errors=True)
    return core.result(v)


# ------------------------------------------------------------------ how the path is spelt (engine L)
#
# "saved by Standardize.save and loaded again through Standardize(rfilename=...)": the target is named by a
# str path, and a path may be spelt in many ways.  Every spelling below names ONE file (`want`, relative to the
# case's scratch directory, which is the current directory while the case runs - restored afterwards).  The
# unchanged tree accepts all of them; pathlib.Path and bytes paths are rejected by it (save dispatches on
# str.endswith) and are not enumerated.  Oracle: the save succeeds (twice: a first save and a re-save), creates
# exactly that file and nothing else, leaves the current directory alone, and the reload THROUGH THE SAME
# SPELLING and through the absolute path has an apply() bit-identical to the saving object's.

P_SPELLINGS = ("bare", "dot_slash", "subdir", "subdir_dotdot", "double_slash", "absolute", "absolute_dotdot",
               "dotdot_cwd")
P_NAMES = (("npy", "stats.npy"), ("npy", "a.b.c.npy"), ("npy", ".npy"), ("npy", "st ats.npy"),
           ("npz", "stats.npz"), ("npz", "a.b.npz"), ("raw", "stats"), ("raw", "stats."), ("raw", "stats.x.y"),
           ("raw", "stats.cmvn"), ("raw", ".hidden"), ("raw", "npy"))
P_ARGS = {"npy": ((None, False),), "npz": ((None, False), ("k", False), (None, True), ("k", True)),
          "raw": ((None, False),)}


def _spell(spelling, name, root):
    """-> (the path string handed to the library, the file it names relative to root); cwd is root"""
    base = os.path.basename(root)
    if spelling == "bare":
        return name, name
    if spelling == "dot_slash":
        return "./" + name, name
    if spelling == "subdir":
        return "sub/" + name, os.path.join("sub", name)
    if spelling == "subdir_dotdot":
        return "sub/../" + name, name
    if spelling == "double_slash":
        return "sub//" + name, os.path.join("sub", name)
    if spelling == "absolute":
        return os.path.join(root, name), name
    if spelling == "absolute_dotdot":
        return os.path.join(root, "sub", "..", name), name
    if spelling == "dotdot_cwd":
        return "../" + base + "/" + name, name
    raise core.HarnessError("unknown spelling %r" % (spelling,))


def _listing(root):
    out = []
    for d, _, files in os.walk(root):
        out += [os.path.relpath(os.path.join(d, f), root) for f in files]
    return sorted(out)


def _path_one(seed, spelling, tkind, name, key, compress, scratch):
    from pydrobert.speech import post

    root = _case_dir(scratch)
    os.mkdir(os.path.join(root, "sub"))
    tags = dict(check="path", target=tkind, spelling=spelling, has_directory_part=(spelling != "bare"))
    case = dict(spelling=spelling, target=[tkind, name, key, compress])
    old_cwd = os.getcwd()
    viol = []
    try:
        os.chdir(root)
        path, want = _spell(spelling, name, root)
        obj = post.Standardize()
        obj.accumulate(sig.ro(_alpha_data(seed, "generic", 7, "float64")), -1)
        g = sig.signal(seed, 3 * AF, offset=51).reshape(3, AF) * 2.0 - 1.0
        probes = [(sig.ro(g), -1), (sig.ro(g[0]), -1)]
        b = _alpha_apply(obj, probes)
        kw = {}
        if tkind == "raw":
            kw["force_as"] = "file"
        if key is not None:
            kw["key"] = key
        for rnd in ("first_save", "resave"):
            r = computers.call(obj.save, path, key, compress)
            here = os.getcwd()
            if here != root:
                os.chdir(root)
                viol.append(core.violation(dict(tags, what="cwd_changed", round=rnd),
                                           "save(%r) left the current directory at %r" % (path, here), case))
            if r[0] != "ok":
                viol.append(core.violation(
                    dict(tags, what="save_raises", exc=r[1], round=rnd),
                    "current directory = the scratch directory; save(%r, key=%r, compress=%r) (%s) raised %s: %s" % (
                        path, key, compress, rnd, r[1], r[2]), case))
                break
            got = _listing(root)
            if got != [want]:
                viol.append(core.violation(
                    dict(tags, what="wrong_files", round=rnd),
                    "save(%r) from the scratch directory: files below it are %r, expected exactly %r" % (
                        path, got, [want]), case))
                break
            for via, rp in (("same_spelling", path), ("absolute", os.path.join(root, want))):
                rr = computers.call(lambda: post.Standardize(rp, **kw))
                if rr[0] != "ok":
                    viol.append(core.violation(
                        dict(tags, what="reload_raises", exc=rr[1], round=rnd, via=via),
                        "Standardize(%r) after save(%r) raised %s: %s" % (rp, path, rr[1], rr[2]), case))
                elif _alpha_apply(rr[1], probes) != b:
                    viol.append(core.violation(
                        dict(tags, what="reload_differs", round=rnd, via=via),
                        "Standardize(%r) after save(%r): apply() differs from the saving object's" % (rp, path), case))
            if viol:
                break
    finally:
        os.chdir(old_cwd)
        shutil.rmtree(root, ignore_errors=True)
    return viol


def _eval_paths(pt, seed):
    spelling, tkind, name = pt
    scratch = tempfile.mkdtemp(prefix="verif-")
    viol, evals = [], 0
    try:
        for key, compress in P_ARGS[tkind]:
            evals += 1
            viol += _path_one(seed, spelling, tkind, name, key, compress, scratch)
    finally:
        shutil.rmtree(scratch, ignore_errors=True)
    return core.result(viol, evals=evals, nontrivial_count=evals, obs=(spelling, tkind, len(viol) == 0),
                       sample=dict(spelling=spelling, name=name))


def _replay_paths(case, seed):
    scratch = tempfile.mkdtemp(prefix="verif-")
    try:
        t = case["target"]
        return core.result(_path_one(seed, case["spelling"], t[0], t[1], t[2], t[3], scratch))
    finally:
        shutil.rmtree(scratch, ignore_errors=True)


def _key_points():
    enc = [("<none>" if k is None else k) for k in K_KEYS]
    return [[[a, b], c] for a in enc for b in enc for c in (False, True)] + \
        [[[a], c] for a in enc for c in (False, True)]


def subchecks(tier, seed):
    cs = _configs(tier)
    return [core.SubCheck(
        "save_history_bfs", cs, lambda c: explore_config(c, seed),
        "BFS over every history of accumulate/save calls up to the depth bound on one real "
        "Standardize and one scratch directory; after every save: reload gives array_equal "
        "apply(), npz contents as the docstring promises, other files untouched, ValueError "
        "without statistics; non-trivial = more than 4 distinct save observations",
        axes=dict(initial_stats=["pos", "neg", "f32", "none", "small_neg", "big", "const", "single"],
                  initial_dir=["foreign (a.npy, a.bin, a.npz{other,arr_0}, b.npz{k,arr_1})", "empty"],
                  depth=3 if tier == "quick" else 4,
                  accumulate=list(PIECES), saves=SAVES),
        replay=lambda case: explore_config(case["config"], seed, replay_ops=case["ops"],
                                           stop_at=case.get("bfs_transition")),
        chunk=1, kind="explore"),
        core.SubCheck(
            "data_alphabet", [[k, d, n] for k in A_KINDS for d in A_DTYPES for n in A_COUNTS],
            lambda p: _eval_alpha(p, seed),
            "every (kind of data, dtype, frame count): accumulate (one tensor / frame by frame) x norm_var x "
            "every target kind, save to a fresh path, reload, apply() of 5 probes bit-identical to the saving "
            "object's; non-trivial = the reload was compared",
            axes=dict(kind=list(A_KINDS), dtype=list(A_DTYPES), frames=list(A_COUNTS),
                      presentation=["tensor", "frames"], norm_var=[True, False],
                      target=[list(t) for t in A_TARGETS]),
            replay=lambda case: _replay_alpha(case, seed)),
        core.SubCheck(
            "live_histories", _live_configs(tier), lambda c: _eval_live(c, seed),
            "every sequence of `depth` calls over {accumulate x 3 pieces, save x 5 targets, go on with another "
            "object} on LIVE objects (no deep copies) in one directory of its own, re-executed from scratch; the "
            "oracle of save_history_bfs after every save (reload of the same path again and again in one "
            "process)",
            axes=dict(initial_stats=["pos", "none"], initial_dir=["empty", "foreign"],
                      depth=3 if tier == "quick" else 5, letters=LIVE_LETTERS),
            replay=lambda case: _eval_live(case["config"], seed, replay_ops=case["ops"]),
            kind="explore"),
        core.SubCheck(
            "resave", [[ti, F1, F2] for ti in range(len(R_TARGETS)) for F1 in R_DIMS for F2 in R_DIMS],
            lambda p: _eval_resave(p, seed),
            "every (target, F1, F2): the path holds statistics of F1 coefficients (saved there by a real object, "
            "or the bytes of another kind's writer), an object with F2 coefficients saves to it: the save "
            "succeeds, the reload's apply() of 3 probes is bit-identical to the saving object's, .npz entries as "
            "the docstring promises; non-trivial = the reload was compared",
            axes=dict(target=[list(t) for t in R_TARGETS], F1=list(R_DIMS), F2=list(R_DIMS),
                      first_writer=list(R_FIRST), dtype=list(A_DTYPES),
                      pruning="npz target with overwrite=False over a non-archive: left open by the docstring"),
            replay=lambda case: _replay_resave(case, seed)),
        core.SubCheck(
            "npz_keys", _key_points(), lambda p: _eval_keys(p, seed),
            "the KEY STRING of an .npz target: every sequence of 1..%d saves (one object with its own statistics "
            "per save, overwrite=False, compress fixed per point) into one new archive under keys from %r "
            "(None = the first unused 'arr_N'; digit-only keys, explicitly given default names, number-like and "
            "non-ASCII-digit keys, two cases; repeated keys replace); after every save numpy.load lists exactly the "
            "expected names and every entry reloaded BY ITS KEY (arr_0 also without key) gives the apply() of the "
            "object that saved it, bit-identical on 2 probes; a point is one key alone, or two keys and "
            "every continuation by 0..%d further keys; non-trivial = more than one save" % (
                K_DEPTH, list(K_KEYS), K_DEPTH - 2),
            axes=dict(keys=[("<none>" if k is None else k) for k in K_KEYS], depth=K_DEPTH, compress=[False, True]),
            replay=lambda case: _replay_keys(case, seed)),
        core.SubCheck(
            "path_spellings", [[sp, t, n] for sp in P_SPELLINGS for t, n in P_NAMES], lambda p: _eval_paths(p, seed),
            "how the target is SPELT: %r (the scratch directory of the case is the current directory while it runs) "
            "x file names %r (several dots, a trailing dot, no suffix, a name that is only a suffix, a blank) x "
            "key / compress for .npz: first save and re-save succeed, exactly the named file exists below the "
            "scratch directory, the current directory is unchanged, and the reload through the same spelling and "
            "through the absolute path has an apply() bit-identical to the saving object's. evaluations = (spelling, "
            "name, key, compress) cases" % (list(P_SPELLINGS), [n for _, n in P_NAMES]),
            axes=dict(spelling=list(P_SPELLINGS), name=[list(x) for x in P_NAMES],
                      not_enumerated="pathlib.Path and bytes paths (save dispatches on str.endswith: rejected by the "
                                     "unchanged tree, the signature says str)"),
            replay=lambda case: _replay_paths(case, seed))]
