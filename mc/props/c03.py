"""C03 - short-integration coefficients equal their documented definition (engine L)."""
import itertools

import numpy as np

from .. import cfg, computers, core, sig
from ..refs import si as ref

LEVEL = "exploration"
ASSUMPTIONS = [
    "np.convolve / np.fft are trusted; the bank's get_impulse_response sampled in the computer's "
    "documented DFT width is taken as given (its agreement with the frequency response is C07)",
    "sample values: one generic signal per length, plus zeros (log floor)",
]

FLAGS = list(itertools.product((True, False), (False, True), (False, True)))  # log, power, energy
DTYPES = ["float64", "float32", "float16", "longdouble", ">f8", ">f4"]
TOL = {"float64": 1e-8, "longdouble": 1e-8, "float32": 1e-4, "float16": 2e-2, ">f8": 1e-8, ">f4": 1e-4}


def _lengths(S, M, D):
    return sorted(set(list(range(0, 3 * S + 1)) + [max(M - 1, 0), M, M + S, D - 1, D, D + 1, 2 * D + 3]))


def _one(c, bank, N, dtype, seed, variant="generic"):
    from pydrobert.speech import config, filters

    S, pad = c["S"], c["pad"]
    # frame_style=None is documented to resolve to centered iff the bank is zero phase; the resolved
    # style also selects the default window
    style = c["style"] if c["style"] is not None else ("centered" if bank.is_zero_phase else "causal")
    win = cfg.make_window(c["window"])
    if win is None:
        win = filters.GammaWindow() if style == "causal" else filters.HannWindow()
    w = win.get_impulse_response(2 * S)
    floor = c.get("floor")
    x64 = np.zeros(N) if variant == "zeros" else sig.signal(seed, N)
    x = x64.astype(dtype)
    if variant == "strided":      # one channel of an interleaved buffer, in the signal's own dtype
        base = np.full(2 * N + 1, 7, dtype=x.dtype)
        base[1::2] = x
        x = base[1::2]
    elif variant == "negstride":
        x = np.array(x[::-1], copy=True)[::-1]
    route = c.get("route")
    comp = cfg.make_computer(dict(c, spelling=route[8:]) if route and route.startswith("spelled_") else c)
    if route == "deepcopy":
        import copy
        comp = copy.deepcopy(comp)      # a copied computer is still that computer
    elif route == "pickle":
        import pickle
        comp = pickle.loads(pickle.dumps(comp))
    old_floor = config.LOG_FLOOR_VALUE
    try:
        if floor is not None:
            # the documented package constant is changed AFTER the computer was built
            config.LOG_FLOOR_VALUE = floor
        want, D = ref.compute_full(x.astype(np.float64), bank, S, style, pad, w, c["log"], c["power"],
                                   c["energy"], config.LOG_FLOOR_VALUE)
        if getattr(comp, "_dft_size", D) != D:
            raise core.HarnessError("reference DFT size %d != computer's %d for %r" % (
                D, comp._dft_size, c))
        # route fpstrict: the caller runs with numpy's floating-point error state set to 'raise'
        with np.errstate(all="raise" if route == "fpstrict" else None):
            r = computers.call(comp.compute_full, sig.rov(x) if variant in ("strided", "negstride") else sig.ro(x))
    finally:
        config.LOG_FLOOR_VALUE = old_floor
    tags = dict(bank=type(bank).__name__, style=c["style"], dtype=str(dtype))
    if variant in ("strided", "negstride"):
        tags["layout"] = variant
    if floor is not None:
        tags["floor_changed_after_construction"] = True
    if route:
        tags["route"] = route
    case = dict(config=c, N=N, dtype=str(dtype), signal=variant)
    if r[0] != "ok":
        return [core.violation(dict(tags, what="exception", exc=r[1]),
                               "compute_full(N=%d, %s) raised %s: %s" % (N, dtype, r[1], r[2]), case)], want
    got = r[1]
    viol = []
    # "the result has that dtype": kind and precision; the byte ORDER of a non-native input is not
    # demanded back (numpy's own concatenate returns native order) - demanding it was a false alarm
    if got.dtype.newbyteorder("=") != np.dtype(dtype).newbyteorder("="):
        viol.append(core.violation(dict(tags, what="dtype"),
                                   "input %s, result %s" % (dtype, got.dtype), case))
    if got.shape != want.shape:
        viol.append(core.violation(dict(tags, what="shape"),
                                   "N=%d S=%d: shape %r, documented %r" % (N, S, got.shape, want.shape), case))
        return viol, want
    tol = TOL[str(dtype)]
    g = got.astype(np.float64)
    if c["log"]:
        ok = np.abs(g - want) <= tol + tol * np.abs(want)
    else:
        # absolute floor: what the RESULT dtype can represent at all (float16 underflows below 6e-8)
        tiny = 2 * float(np.finfo(np.dtype(dtype)).smallest_subnormal)
        ok = np.abs(g - want) <= tol * np.abs(want) + tol * 1e-3 * (np.max(np.abs(want)) if want.size else 0) + 1e-13 + tiny
    if not np.all(ok):
        bad = np.argwhere(~ok)[0]
        viol.append(core.violation(
            dict(tags, what="values", energy_column=bool(c["energy"] and bad[1] == 0)),
            "N=%d S=%d D=%d %s log=%s power=%s: max|diff|=%.3g first at frame/coeff %s (got %r, definition %r)" % (
                N, S, D, dtype, c["log"], c["power"], float(np.max(np.abs(g - want))), bad.tolist(),
                float(g[tuple(bad)]), float(want[tuple(bad)])), case))
    return viol, want


def _eval(pt, seed):
    bankname, S, style, pad, window, dtype = pt
    bank = cfg.make_bank(bankname)
    viol = []
    evals = nontriv = 0
    probe = cfg.make_computer(dict(kind="si", bank=bankname, S=S, style=style, pad=pad, window=window))
    if not cfg.si_domain_ok(probe):
        return core.result(nontrivial=False, obs="out_of_domain", skipped=True)
    rstyle = style if style is not None else ("centered" if bank.is_zero_phase else "causal")
    M, tr, L, D = ref.geometry(bank, S, rstyle, pad)
    for use_log, use_power, energy in FLAGS:
        c = dict(kind="si", bank=bankname, S=S, style=style, pad=pad, window=window,
                 log=use_log, power=use_power, energy=energy)
        for N in _lengths(S, M, D):
            for variant in ("generic", "zeros") if N == M else ("generic", "strided", "negstride") if N in (M + S, D + 1) else ("generic",):
                evals += 1
                v, want = _one(c, bank, N, dtype, seed, variant)
                viol.extend(v)
                if want.shape[0]:
                    nontriv += 1
        if dtype == "float64":
            # the computer handed over as a deep copy / through pickle (how DataLoader workers get it)
            for route in ("deepcopy", "pickle", "spelled_int", "spelled_npbool", "fpstrict"):
                evals += 1
                v, want = _one(dict(c, route=route), bank, M + S, dtype, seed, "generic")
                viol.extend(v)
            evals += 1
            v, want = _one(dict(c, route="fpstrict"), bank, M + S, dtype, seed, "zeros")
            viol.extend(v)
        if use_log and dtype == "float64":
            # LOG_FLOOR_VALUE changed after construction (larger and smaller than the default)
            for floor in (1e-2, 1e-9):
                for variant in ("generic", "zeros"):
                    evals += 1
                    v, want = _one(dict(c, floor=floor), bank, M + S, dtype, seed, variant)
                    viol.extend(v)
        if len(viol) > 40:
            break
    return core.result(viol, evals=evals, nontrivial_count=nontriv, obs=(D, M),
                       sample=dict(bank=bankname, S=S, style=style, pad=pad, window=window,
                                   dtype=dtype, M=M, D=D, lengths=_lengths(S, M, D)))


def _replay(case, seed):
    c = case["config"]
    bank = cfg.make_bank(c["bank"])
    v, _ = _one(c, bank, case["N"], case["dtype"], seed, case["signal"])
    return core.result(v)


GAMMAS = [{"name": "gamma", "order": 2, "peak": 0.5}, {"name": "gamma", "order": 4, "peak": 0.75},
          {"name": "gamma", "order": 6, "peak": 0.9}]


def _hist_alphabet(tier):
    """configurations that pairwise share some but not all of (bank, shift, style, pad, window class)"""
    out = []
    for bank in ("gabor", "gammatone"):
        for S in (2, 3):
            for style in ("causal", "centered"):
                for w in ["hamming"] + GAMMAS[:2 if tier == "quick" else 3]:
                    out.append(dict(kind="si", bank=bank, S=S, style=style, pad=True, window=w,
                                    log=True, power=False, energy=True))
    return out


def _history(pt, seed):
    """construction + call histories in ONE process: computers A and B are built one after the
    other, then compute_full is called on the live instances in the order
    A(short) A(N) B(short) B(N) A(N') B(0) B(N') - short utterances first, so that an utterance
    swallowed by the filter-priming skip precedes a real one on the same object - and every result
    must equal the definition (reference built from fresh objects).  Catches state kept across
    utterances and caches shared between instances (keyed too coarsely)."""
    from pydrobert.speech import config, filters

    ca, cb = pt
    ra, rb = computers.call(cfg.make_computer, ca), computers.call(cfg.make_computer, cb)
    if ra[0] != "ok" or rb[0] != "ok":
        return core.result(nontrivial=False, obs="unconstructible", skipped=True)
    A, B = ra[1], rb[1]
    if not (cfg.si_domain_ok(A) and cfg.si_domain_ok(B)):
        return core.result(nontrivial=False, obs="out_of_domain", skipped=True)
    viol = []
    evals = nt = 0
    Ma = ref.geometry(cfg.make_bank(ca["bank"]), ca["S"], ca["style"], ca["pad"])
    Mb = ref.geometry(cfg.make_bank(cb["bank"]), cb["S"], cb["style"], cb["pad"])
    plan = [("A", 1), ("A", Ma[0] + 3 * ca["S"]), ("B", max(cb["S"] // 2, 1)), ("B", Mb[0] + 3 * cb["S"]),
            ("A", Ma[3] + 2), ("B", 0), ("B", Mb[3] + 2)]
    # a call with a non-float (int16) array in between: whatever it does (the documented answer is a
    # ValueError), the NEXT call with a valid signal on the same object must still equal the definition
    plan = plan[:4] + [("A!", 9)] + plan[4:5] + [("B!", 9)] + plan[5:]
    for step, (who, N) in enumerate(plan):
        if who.endswith("!"):
            comp = A if who[0] == "A" else B
            computers.call(comp.compute_full, np.arange(N, dtype=np.int16))
            continue
        comp, c = (A, ca) if who == "A" else (B, cb)
        bank = cfg.make_bank(c["bank"])
        win = cfg.make_window(c["window"])
        w = win.get_impulse_response(2 * c["S"])
        x = sig.signal(seed, N, offset=step + 1)
        want, D = ref.compute_full(x, bank, c["S"], c["style"], c["pad"], w, c["log"], c["power"],
                                   c["energy"], config.LOG_FLOOR_VALUE)
        r = computers.call(comp.compute_full, sig.ro(x))
        evals += 1
        nt += int(want.shape[0] > 0 and step > 0)
        tags = dict(what="history", who=who, first_call=bool(step == 0),
                    after_short_utterance=bool(step in (1, 3)),
                    after_refused_call=bool(step > 0 and plan[step - 1][0].endswith("!")),
                    same_window_class=bool(type(cfg.make_window(ca["window"])) is type(cfg.make_window(cb["window"]))
                                           and ca["window"] != cb["window"]))
        case = dict(pair=[ca, cb])
        if r[0] != "ok":
            viol.append(core.violation(dict(tags, aspect="exception", exc=r[1]),
                                       "step %d %s.compute_full(N=%d) raised %s: %s" % (step, who, N, r[1], r[2]), case))
            break
        g = r[1].astype(np.float64)
        if g.shape != want.shape or not np.all(np.abs(g - want) <= 1e-8 + 1e-8 * np.abs(want)):
            viol.append(core.violation(
                dict(tags, aspect="values"),
                "A=%s B=%s built in one process; call #%d %s.compute_full(N=%d) differs from the definition "
                "(max|diff| %s)" % (cfg.describe(ca), cfg.describe(cb), step, who, N,
                                    float(np.max(np.abs(g - want))) if g.shape == want.shape else "shape %r vs %r" % (g.shape, want.shape)),
                case))
            break
    return core.result(viol, evals=evals, nontrivial_count=nt, obs=[len(viol) == 0],
                       sample=dict(A=ca, B=cb, plan=plan))


def _history_replay(case, seed):
    return _history(tuple(case["pair"]), seed)


def subchecks(tier, seed):
    banks = ["gabor", "gammatone", "gammatone_mc", "gabor3", "tri"]
    if tier == "thorough":
        banks += ["tri_an"]
    pts = []
    for b in banks:
        shifts = range(1, 7) if tier == "quick" else range(1, 10)
        if b in ("tri", "tri_an") and tier == "quick":
            shifts = (1, 2, 5)   # real bank: unpadded DFT sizes 101 (odd), 102, 105
        for S in shifts:
            for style in ("causal", "centered"):
                for pad in (True, False):
                    for w in ("hamming", None):
                        for dt in DTYPES:
                            if dt != "float64" and (w is None or not pad) and tier == "quick":
                                continue
                            pts.append((b, S, style, pad, w, dt))
        # frame_style=None: resolved from the bank (also selects the default window)
        for S in (2, 3):
            for w in ("hamming", None):
                pts.append((b, S, None, True, w, "float64"))
    alpha = _hist_alphabet(tier)
    hist_pts = [(a, b) for a in alpha for b in alpha
                if a is not b and (a["bank"] == b["bank"] or a["window"] == b["window"] or tier == "thorough")]
    return [core.SubCheck(
        "histories", hist_pts, lambda p: _history(p, seed),
        "ordered pairs of SI configurations (sharing bank and/or window class, differing in window "
        "parameters / shift / style) built in ONE process, then 7 compute_full calls on the live instances "
        "(short utterances first) each compared with the definition; non-trivial = a frame is produced on "
        "a re-used instance",
        axes=dict(alphabet=len(alpha), windows=["hamming"] + [str(g) for g in GAMMAS]),
        replay=lambda case: _history_replay(case, seed)), core.SubCheck(
        "definition", pts, lambda p: _eval(p, seed),
        "real compute_full vs np.convolve reference; inner loop use_log x use_power x include_energy "
        "x N in {0..3S, M-1, M, M+S, D-1, D, D+1, 2D+3}; out-of-domain shifts skipped; "
        "non-trivial = at least one frame",
        axes=dict(bank=banks, S="1..6", style=["causal", "centered"], pad=[True, False],
                  window=["hamming", "default"], dtype=DTYPES),
        replay=lambda case: _replay(case, seed), chunk=1)]
