"""C03 - short-integration coefficients equal their documented definition (engine L)."""
import itertools

import numpy as np

from .. import cfg, computers, core, sig
from ..refs import si as ref

LEVEL = "exploration"
ASSUMPTIONS = [
    "np.convolve / np.fft are trusted; the bank's get_impulse_response sampled in the computer's "
    "documented DFT width is taken as given (its agreement with the frequency response is C07)",
    "sample values: one generic signal per length, plus zeros (log floor)",
]

FLAGS = list(itertools.product((True, False), (False, True), (False, True)))  # log, power, energy
DTYPES = ["float64", "float32", "float16", "longdouble"]
TOL = {"float64": 1e-8, "longdouble": 1e-8, "float32": 1e-4, "float16": 2e-2}


def _lengths(S, M, D):
    return sorted(set(list(range(0, 3 * S + 1)) + [max(M - 1, 0), M, M + S, D - 1, D, D + 1, 2 * D + 3]))


def _one(c, bank, N, dtype, seed, variant="generic"):
    from pydrobert.speech import config, filters

    S, style, pad = c["S"], c["style"], c["pad"]
    win = cfg.make_window(c["window"])
    if win is None:
        win = filters.GammaWindow() if style == "causal" else filters.HannWindow()
    w = win.get_impulse_response(2 * S)
    x64 = sig.signal(seed, N) if variant == "generic" else np.zeros(N)
    x = x64.astype(dtype)
    comp = cfg.make_computer(c)
    want, D = ref.compute_full(x.astype(np.float64), bank, S, style, pad, w, c["log"], c["power"],
                               c["energy"], config.LOG_FLOOR_VALUE)
    if getattr(comp, "_dft_size", D) != D:
        raise core.HarnessError("reference DFT size %d != computer's %d for %r" % (
            D, comp._dft_size, c))
    r = computers.call(comp.compute_full, sig.ro(x))
    tags = dict(bank=type(bank).__name__, style=style, dtype=str(dtype))
    case = dict(config=c, N=N, dtype=str(dtype), signal=variant)
    if r[0] != "ok":
        return [core.violation(dict(tags, what="exception", exc=r[1]),
                               "compute_full(N=%d, %s) raised %s: %s" % (N, dtype, r[1], r[2]), case)], want
    got = r[1]
    viol = []
    if got.dtype != np.dtype(dtype):
        viol.append(core.violation(dict(tags, what="dtype"),
                                   "input %s, result %s" % (dtype, got.dtype), case))
    if got.shape != want.shape:
        viol.append(core.violation(dict(tags, what="shape"),
                                   "N=%d S=%d: shape %r, documented %r" % (N, S, got.shape, want.shape), case))
        return viol, want
    tol = TOL[str(dtype)]
    g = got.astype(np.float64)
    if c["log"]:
        ok = np.abs(g - want) <= tol + tol * np.abs(want)
    else:
        ok = np.abs(g - want) <= tol * np.abs(want) + tol * 1e-3 * (np.max(np.abs(want)) if want.size else 0) + 1e-13
    if not np.all(ok):
        bad = np.argwhere(~ok)[0]
        viol.append(core.violation(
            dict(tags, what="values", energy_column=bool(c["energy"] and bad[1] == 0)),
            "N=%d S=%d D=%d %s log=%s power=%s: max|diff|=%.3g first at frame/coeff %s (got %r, definition %r)" % (
                N, S, D, dtype, c["log"], c["power"], float(np.max(np.abs(g - want))), bad.tolist(),
                float(g[tuple(bad)]), float(want[tuple(bad)])), case))
    return viol, want


def _eval(pt, seed):
    bankname, S, style, pad, window, dtype = pt
    bank = cfg.make_bank(bankname)
    viol = []
    evals = nontriv = 0
    probe = cfg.make_computer(dict(kind="si", bank=bankname, S=S, style=style, pad=pad, window=window))
    if not cfg.si_domain_ok(probe):
        return core.result(nontrivial=False, obs="out_of_domain", skipped=True)
    M, tr, L, D = ref.geometry(bank, S, style, pad)
    for use_log, use_power, energy in FLAGS:
        c = dict(kind="si", bank=bankname, S=S, style=style, pad=pad, window=window,
                 log=use_log, power=use_power, energy=energy)
        for N in _lengths(S, M, D):
            for variant in ("generic", "zeros") if N == M else ("generic",):
                evals += 1
                v, want = _one(c, bank, N, dtype, seed, variant)
                viol.extend(v)
                if want.shape[0]:
                    nontriv += 1
        if len(viol) > 40:
            break
    return core.result(viol, evals=evals, nontrivial_count=nontriv, obs=(D, M),
                       sample=dict(bank=bankname, S=S, style=style, pad=pad, window=window,
                                   dtype=dtype, M=M, D=D, lengths=_lengths(S, M, D)))


def _replay(case, seed):
    c = case["config"]
    bank = cfg.make_bank(c["bank"])
    v, _ = _one(c, bank, case["N"], case["dtype"], seed, case["signal"])
    return core.result(v)


def subchecks(tier, seed):
    banks = ["gabor", "gammatone", "gammatone_mc", "gabor3", "tri"]
    if tier == "thorough":
        banks += ["tri_an"]
    pts = []
    for b in banks:
        shifts = range(1, 7) if tier == "quick" else range(1, 10)
        if b in ("tri", "tri_an") and tier == "quick":
            shifts = (1, 2, 5)   # real bank: unpadded DFT sizes 101 (odd), 102, 105
        for S in shifts:
            for style in ("causal", "centered"):
                for pad in (True, False):
                    for w in ("hamming", None):
                        for dt in DTYPES:
                            if dt != "float64" and (w is None or not pad) and tier == "quick":
                                continue
                            pts.append((b, S, style, pad, w, dt))
    return [core.SubCheck(
        "definition", pts, lambda p: _eval(p, seed),
        "real compute_full vs np.convolve reference; inner loop use_log x use_power x include_energy "
        "x N in {0..3S, M-1, M, M+S, D-1, D, D+1, 2D+3}; out-of-domain shifts skipped; "
        "non-trivial = at least one frame",
        axes=dict(bank=banks, S="1..6", style=["causal", "centered"], pad=[True, False],
                  window=["hamming", "default"], dtype=DTYPES),
        replay=lambda case: _replay(case, seed), chunk=1)]
