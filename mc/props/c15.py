"""C15 - Deltas and Stack produce the documented layout and values (engine L).

Every point of a finite lattice (tensor shape x dtype, inner loops over axes, context
windows, padding modes, num_deltas, target_axis, concatenate / num_vectors, time_axis,
pad_mode, in_place) is run through the real `apply` and through mc/refs/post.py (Kaldi
delta recursion and stacking written with explicit loops and explicit edge extension).

Sub-check `histories`: ONE object per configuration is used for every sequence of apply()
calls (shape x axis x dtype x in_place) up to a depth bound - explicit-state search with
merging on the object's canonical form plus an un-merged enumeration on new objects - and
every result is compared with a fresh object's and with the reference (a result may not
depend on what the object was used for before).  In the un-merged enumeration the calls of a
sequence get DIFFERENT data (variant = position in the sequence) and every returned array is
HELD to the end of the sequence: it must still be bit-identical to what it was when it was
returned, no two results may share memory, and a result may share memory with an input only
of its own in_place call (a result that aliases an internal buffer is overwritten by the next
call on an equally shaped input).

Sub-check `pad_modes`: every documented FORM of pad_mode - all named numpy.pad modes, their keyword variants
and callables - for Deltas and Stack; the reference applies the rule to one whole vector along the filtered /
time axis at a time.

Sub-check `routes`: the object travels between its constructor and the call (copy.copy, copy.deepcopy, pickle
round trips, after a use, the original after a shallow copy was used) with every constructor argument
non-default; the reference model for the as-constructed arguments decides on every route.

Sub-check `refusals`: sequences of three calls on ONE object with a call outside the property's domain (refused
or not: not judged) before a call inside it, inputs of 0..4 dimensions, negative configured axes; calls inside the
domain must equal a fresh object's / the reference model, documented public attributes must keep their values.
"""
import itertools

import numpy as np

from .. import computers, core, sig
from ..refs import post as ref

LEVEL = "exploration"
ASSUMPTIONS = [
    "sample values: one generic tensor per (shape, dtype) from mc/sig.py (integers: rounded "
    "40x scaled values); structure (shapes, axes, parameters) is what is enumerated",
    "wide dtypes (deltas_wide, stack): int64 / uint64 tensors hold only odd integers of magnitude 2**53..2**61 "
    "(uint64: 2**63 +- that), long double tensors only values with more than 53 significant bits, i.e. no "
    "entry survives a round trip through float64; the filtered blocks of these are compared with a relative "
    "tolerance (the property fixes the recursion, not its precision) and, for uint64, not at all where the "
    "filter output is negative (no value of the dtype)",
    "padding modes are the named numpy.pad modes edge/constant/reflect/symmetric/wrap/mean/median/"
    "maximum/minimum/linear_ramp with their default or one explicit keyword (constant_values, end_values, "
    "reflect_type='odd', stat_length); mode 'empty' (undefined pad values) is not enumerated; pad_modes: "
    "callables are the numpy.pad documentation's pad_with example (with / without its padder keyword), a "
    "data-dependent one in the same style and one that is safe for zero widths; Stack only with the last kind "
    "(numpy.pad itself calls a padding function along every axis of the tensor it is given, and Stack "
    "documents that it gives numpy.pad the tensor); for the keyword variants and callables the reference is "
    "numpy.pad / the callable applied to ONE whole vector along the filtered (Deltas) or time (Stack) axis",
    "float64 intermediate then cast to the input dtype: integer results may differ by one unit "
    "where the exact value is an integer (summation order), float32 by 2 ulp",
    "histories: alphabet of 72 (Deltas) / 48 (Stack) calls over shapes (4,), (3,4), (2,3,2) / (5,2), (2,3), "
    "(3,2,4) x every valid axis x {float64, float32, int16} x in_place; merged search to depth 3 (quick) / 4 "
    "(thorough): the canonical form (instance attributes, class attributes, module-level data of "
    "pydrobert.speech.post) is assumed to hold all state; the un-merged enumeration of all sequences of 2 "
    "(quick) / 3 (thorough; 2 for the Deltas configurations with a non-default window or padding) calls does "
    "not depend on that assumption; a result that is bit-identical to a fresh "
    "object's is accepted, otherwise the tolerance against the reference decides",
    "histories, held results: call number i of an un-merged sequence gets data variant i (another generic "
    "tensor of the same shape and dtype); numpy.shares_memory decides aliasing; apply(in_place=False) "
    "'makes a copy' (PostProcessor.apply docstring), so its result may not share memory with any input",
    "routes: copy.copy / copy.deepcopy / pickle (highest protocol, protocol 2) of a Deltas / Stack are the same "
    "processor (apply is a function of the constructor arguments, the input and axis); a route that raises is "
    "skipped, not a violation; callables given as pad_mode are module-level functions (picklable by reference)",
    "refusals: what a call outside the property's domain does (raise / return) is not judged; the attributes "
    "documented on the classes (Stack.num_vectors, Stack.time_axis, Deltas.concatenate, Deltas.num_deltas: the "
    "non-underscore entries of vars(obj)) are expected to read after any call what they read after construction",
]

DTYPES = ("float64", "float32", "int32", "int16")
# dtypes that hold values a float64 cannot: every entry of their tensors is such a value (see _data)
DTYPES_WIDE = ("int64", "uint64", "longdouble")
MODES_FULL = ("edge", "constant", "reflect", "wrap", "symmetric", "constant:1.5", "mean",
              "maximum", "minimum", "linear_ramp", "linear_ramp:2")
MODES_QUICK = ("edge", "constant", "reflect", "wrap", "symmetric", "constant:1.5", "mean",
               "linear_ramp:2")


# callables for pad_mode (documented as Union[str, Callable]), written for the documented use: numpy.pad calls
# padding_func(vector, iaxis_pad_width, iaxis, kwargs) with a rank-1 vector already extended with zeros
def pad_with(vector, pad_width, iaxis, kwargs):
    """the example of the numpy.pad documentation, verbatim"""
    pad_value = kwargs.get('padder', 10)
    vector[:pad_width[0]] = pad_value
    vector[-pad_width[1]:] = pad_value


def pad_neg_edge(vector, pad_width, iaxis, kwargs):
    """the same style, values taken from the data: minus the edge value on either side"""
    vector[:pad_width[0]] = -vector[pad_width[0]]
    vector[-pad_width[1]:] = -vector[-pad_width[1] - 1]


def pad_robust(vector, pad_width, iaxis, kwargs):
    """leaves the vector alone where a width is zero and ignores iaxis: 2 * edge + 1, or kwargs['padder']"""
    before, after = pad_width
    n = len(vector)
    v = kwargs.get('padder')
    if before:
        vector[:before] = (2 * vector[before] + 1) if v is None else v
    if after:
        vector[n - after:] = (2 * vector[n - after - 1] + 1) if v is None else v


CALLABLES = dict(pad_with=pad_with, neg_edge=pad_neg_edge, robust=pad_robust)
NATIVE_MODES = ("edge", "constant", "reflect", "symmetric", "wrap", "mean", "maximum", "minimum", "linear_ramp")


def _mode(m):
    """JSON-able mode -> (numpy.pad mode: a name or a callable, kwargs for np.pad, kwargs for the reference)
      "name"           a numpy.pad mode with its defaults
      "constant:V" / "linear_ramp:V"   constant_values / end_values = V ("A,B": the pair (A, B))
      "name:odd"       reflect_type='odd';   "name:statN"   stat_length=N
      "call:F[:V]"     the callable CALLABLES[F] (with padder=V)"""
    if ":" in m:
        parts = m.split(":")
        name, v = parts[0], parts[1]
        if name == "call":
            kw = dict(padder=float(parts[2])) if len(parts) > 2 else {}
            return CALLABLES[v], kw, kw
        if v == "odd":
            return name, dict(reflect_type="odd"), dict(reflect_type="odd")
        if v.startswith("stat"):
            return name, dict(stat_length=int(v[4:])), dict(stat_length=int(v[4:]))
        # "constant:A,B" / "linear_ramp:A,B": the (before, after) pair form of the keyword
        v = tuple(float(a) for a in v.split(",")) if "," in v else float(v)
        k = "constant_values" if name == "constant" else "end_values"
        return name, {k: v}, {k: v}
    return m, {}, {}


def _pad_fn(m):
    """None for the modes mc/refs/post.py extends by its own index rules, else the padding rule as a function
    (rank-1 vector, (before, after)) -> extended rank-1 vector: numpy.pad on that ONE vector (keyword variants
    of the named modes: numpy.pad defines them), or the callable called directly as numpy.pad documents it
    (vector extended with zeros, iaxis 0)"""
    name, padkw, _ = _mode(m)
    if callable(name):
        def fn(v, widths):
            vec = np.zeros(len(v) + widths[0] + widths[1], dtype=v.dtype)
            vec[widths[0]:widths[0] + len(v)] = v
            name(vec, (widths[0], widths[1]), 0, dict(padkw))
            return vec
        return fn
    if name in NATIVE_MODES and set(padkw) <= {"constant_values", "end_values"} and \
            not any(isinstance(a, tuple) for a in padkw.values()):
        return None
    return lambda v, widths: np.pad(v, (widths[0], widths[1]), name, **padkw)


def _ref_orders(x, max_order, window, axis, mode):
    fn = _pad_fn(mode)
    if fn is not None:
        return ref.delta_orders(x, max_order, window, axis, None, pad_fn=fn)
    name, _, refkw = _mode(mode)
    return ref.delta_orders(x, max_order, window, axis, name, **refkw)


def _mode_class(m):
    name, padkw, _ = _mode(m)
    if callable(name):
        return "callable"
    return name + ("+" + "+".join(sorted(padkw)) if padkw else "")


def _kindof(dtype):
    if dtype in DTYPES_WIDE:
        return dtype + "_wide"
    return "int" if dtype.startswith("int") else dtype


def _data(seed, shape, dtype, variant=0):
    """variant 0: the generic tensor of the lattices; variant v > 0: other values of the same
    shape and dtype (call histories: a later call on the same shape must not see the same data)"""
    n = int(np.prod(shape))
    x = sig.signal(seed, n, offset=0 if not variant else 60 + variant).reshape(shape)
    if dtype in ("int64", "uint64"):
        # odd integers of magnitude 2**53 .. 2**61 (uint64: around 2**63): none of them is a float64, all
        # of them (and every regression-filtered copy: the filter weights have absolute sum <= 1) are
        # inside the dtype
        mag = np.round(np.abs(x) * 2.0 ** 58).astype(np.int64) + (1 << 53)
        v = np.where(x < 0, -1, 1).astype(np.int64) * (mag | 1)
        if v.size and int(np.abs(v).max()) >= 1 << 61:
            raise core.HarnessError("wide integer alphabet left +-2**61")
        if dtype == "uint64":
            v = v.astype(np.uint64) + np.uint64(1 << 63)
        v = v.astype(dtype)
        if v.size and np.any(v.astype(np.float64).astype(dtype) == v):
            raise core.HarnessError("wide integer alphabet holds a value that is a float64")
        return v
    if dtype == "longdouble":
        # more significant bits than a float64 has, where the platform's long double has them
        v = x.astype(np.longdouble)
        v = v + v * np.longdouble(2.0 ** -57) + np.longdouble(2.0 ** -60)
        if np.finfo(np.longdouble).nmant > 52 and v.size and np.any(v.astype(np.float64) == v):
            raise core.HarnessError("long double alphabet holds a value that is a float64")
        return v
    if dtype.startswith("int"):
        x = np.round(x * 40.0)
    return x.astype(dtype)


def _shapes(tier, min_ndim=1):
    ext = (0, 1, 2, 3, 5)
    out = []
    for nd in (1, 2, 3):
        if nd < min_ndim:
            continue
        for s in itertools.product(ext, repeat=nd):
            if tier == "quick" and nd == 3 and 5 in s and s not in _QUICK_5:
                continue
            out.append(list(s))
    return out


_QUICK_5 = set([(5, 2, 3), (2, 5, 1), (1, 3, 5), (5, 0, 2), (3, 5, 2), (5, 5, 1), (2, 2, 5), (0, 5, 3),
                (5, 1, 5)])


def _close(got, f64, dtype):
    """got: array in `dtype`; f64: the exact (float64) reference before the final cast.
    Returns a boolean array of acceptable entries."""
    if dtype == "float64":
        return np.abs(got - f64) <= 1e-12 * (1.0 + np.abs(f64))
    if dtype == "longdouble":
        return np.abs(got.astype(np.float64) - f64) <= 1e-12 * (1.0 + np.abs(f64))
    if dtype in ("int64", "uint64"):
        # values of 2**53 .. 2**63 filtered in float64: a relative tolerance on the largest magnitude
        # involved (the result holds the input block) plus one unit for the cast.  An unsigned dtype has no
        # value for a negative filter output (and none above its maximum): nothing is demanded there
        scale = float(np.max(np.abs(f64))) if f64.size else 0.0
        tol = 2.0 + 1e-12 * scale
        ok = np.abs(got.astype(np.float64) - f64) <= tol
        if dtype == "uint64":
            # (a filter output within the tolerance of zero may be negative in the implementation's order of
            # summation)
            ok = ok | (f64 < 2.0 * tol) | (f64 > 1.8e19)
        return ok
    if dtype == "float32":
        w = f64.astype(np.float32).astype(np.float64)
        return np.abs(got.astype(np.float64) - w) <= 4e-7 * np.abs(w) + 1e-12
    w = f64.astype(dtype)  # truncation toward zero, as the implementation documents (cast back)
    g = got.astype(np.int64)
    exact = g == w.astype(np.int64)
    near_int = np.abs(f64 - np.round(f64)) <= 1e-9
    return exact | (near_int & (np.abs(g - np.round(f64).astype(np.int64)) <= 1))


# ------------------------------------------------------------------ Deltas


def _deltas_one(x, pristine, dtype, axis, window, mode, nd, concat, ta, in_place, orders, tags0):
    """one real Deltas.apply call against the reference orders (float64 arrays)"""
    v, o, _ = _deltas_one3(x, pristine, dtype, axis, window, mode, nd, concat, ta, in_place, orders, tags0)
    return v, o


def _deltas_one3(x, pristine, dtype, axis, window, mode, nd, concat, ta, in_place, orders, tags0, route=None):
    """as _deltas_one, returns (violations, observation, result array or None); route: how the object gets
    from its constructor to the call (see _travel)"""
    from pydrobert.speech import post

    name, padkw, _ = _mode(mode)
    tags = dict(tags0, concatenate=bool(concat), edge_mode=bool(name == "edge"))
    if callable(name):
        tags["callable_pad_mode"] = True
    case = dict(proc="Deltas", shape=list(x.shape), dtype=dtype, axis=axis, window=window,
                mode=mode, num_deltas=nd, concatenate=bool(concat), target_axis=ta,
                in_place=bool(in_place))
    viol = []
    r = computers.call(lambda: post.Deltas(nd, target_axis=ta, concatenate=concat,
                                           context_window=window, pad_mode=name, **padkw))
    if r[0] != "ok":
        return [core.violation(dict(tags, what="init_exception", exc=r[1]),
                               "Deltas(...) raised %s: %s" % (r[1], r[2]), case)], None, None
    if route is not None:
        tags["route"], case["route"] = route, route
        r = computers.call(_travel, r[1], route)
        if r[0] != "ok":
            return [], ("route_failed", route, r[1]), None
    arg = x if not in_place else np.array(x, copy=True)
    r = computers.call(r[1].apply, arg, axis, in_place)
    if r[0] != "ok":
        return [core.violation(dict(tags, what="exception", exc=r[1]),
                               "apply raised %s: %s" % (r[1], r[2]), case)], None, None
    got = r[1]
    f64 = ref.deltas_layout(orders[:nd + 1], ta, concat)
    if not isinstance(got, np.ndarray) or got.shape != f64.shape:
        return [core.violation(dict(tags, what="shape"),
                               "result shape %r, documented %r" % (getattr(got, "shape", None), f64.shape),
                               case)], None, None
    if got.dtype != x.dtype:
        viol.append(core.violation(dict(tags, what="dtype"),
                                   "result dtype %s, input dtype %s" % (got.dtype, x.dtype), case))
    elif got.size:
        ok = _close(got, f64, dtype)
        # the leading block is the input itself: exact in the input's own dtype (never via float64)
        first = ref.deltas_layout([np.ones(x.shape, bool)] + [np.zeros(x.shape, bool)] * nd, ta, concat)
        xin = ref.deltas_layout([np.array(pristine)] + [np.zeros(x.shape, x.dtype)] * nd, ta, concat)
        if xin.dtype != x.dtype:
            raise core.HarnessError("layout changed the dtype")
        exact_in = got[first] == xin[first]
        if not np.all(exact_in):
            viol.append(core.violation(dict(tags, what="input_block"),
                                       "the leading block of the result is not the input: %d of %d entries "
                                       "differ, e.g. input %r, result %r" % (
                                           int((~exact_in).sum()), exact_in.size,
                                           xin[first][~exact_in][0].item(), got[first][~exact_in][0].item()),
                                       case))
        elif not np.all(ok):
            bad = np.argwhere(~ok)[0]
            viol.append(core.violation(
                dict(tags, what="values"),
                "result%s = %r, reference %r (float64 before the cast); %d of %d entries differ" % (
                    bad.tolist(), got[tuple(bad)].item(), float(f64[tuple(bad)]), int((~ok).sum()),
                    ok.size), case))
    if not in_place and not np.array_equal(x, pristine):
        viol.append(core.violation(dict(tags, what="input_modified"),
                                   "apply(in_place=False) changed its input", case))
    return viol, (bool(concat), nd, bool(got.size), bool(in_place)), got


def _target_axes(ndim, concat):
    return list(range(-ndim, ndim)) if concat else list(range(-(ndim + 1), ndim + 1))


# inner lattice of the wide dtypes: (context window, pad mode, num_deltas values); every target_axis
WIDE_COMBOS = [(2, "edge", (0, 1, 2, 3)), (1, "reflect", (0, 2)), (3, "constant:1.5", (1,))]


def _eval_deltas(pt, seed, tier, wide=False):
    shape, dtype = tuple(pt[0]), pt[1]
    ndim = len(shape)
    x = sig.ro(_data(seed, shape, dtype))
    pristine = np.array(x, copy=True)
    modes = MODES_QUICK if tier == "quick" else MODES_FULL
    viol, evals, nontriv, obs = [], 0, 0, set()
    skipped = 0
    tags0 = dict(proc="Deltas", dtype_kind=_kindof(dtype))
    for axis in range(-ndim, ndim):
        n = shape[axis]
        empty = int(np.prod(shape)) == 0
        if n == 0:
            # empty FILTERED axis: outside the property's domain for num_deltas > 0; only
            # num_deltas == 0 (no filtering at all) is checked
            combos = [(2, "edge", (0,))]
            skipped += 1
        elif empty:
            combos = [(2, "edge", (0, 1, 2, 3)), (1, "reflect", (0, 2))]
        elif wide:
            # (quick) a negative axis is an alias of a non-negative one: one combination
            combos = WIDE_COMBOS if not (axis < 0 and tier == "quick") else [(2, "edge", (0, 2))]
        elif axis < 0 and tier == "quick":
            combos = [(2, "edge", (0, 1, 2, 3)), (3, "reflect", (0, 1, 2, 3))]
        else:
            combos = [(w, m, (0, 1, 2, 3)) for w in (1, 2, 3) for m in modes]
        for window, mode, nds in combos:
            orders = _ref_orders(x, max(nds), window, axis, mode)
            # quick tier: how the blocks are laid out (concatenate x target_axis) does not depend on how
            # they were computed (window x pad_mode), so only two (window, mode) pairs carry the full
            # target_axis range; the others get the first, the last and the most negative position
            full_layout = tier != "quick" or (window, mode) in ((2, "edge"), (1, "reflect"), (3, "reflect"))
            full_layout = full_layout or wide
            for nd in nds:
                for concat in (True, False):
                    tas = _target_axes(ndim, concat)
                    if not full_layout:
                        tas = sorted(set([tas[0], 0, -1]))
                    for ta in tas:
                        ips = (False, True) if ta == -1 else (False,)
                        for ip in ips:
                            v, o = _deltas_one(x, pristine, dtype, axis, window, mode, nd, concat,
                                               ta, ip, orders, tags0)
                            evals += 1
                            viol.extend(v)
                            if o is not None:
                                obs.add(o)
                                if o[2] and nd > 0:
                                    nontriv += 1
                            if len(viol) >= 40:
                                return core.result(viol, evals=evals, nontrivial_count=nontriv,
                                                   obs=sorted(map(str, obs)))
    return core.result(viol, evals=evals, nontrivial_count=nontriv, obs=sorted(map(str, obs)), obs_is_set=True,
                       skipped=skipped or None,
                       sample=dict(shape=list(shape), dtype=dtype, evaluations=evals,
                                   inner="axis x window x pad_mode x num_deltas x concatenate x "
                                         "target_axis (x in_place at target_axis=-1)"))


def _replay_deltas(case, seed):
    shape, dtype = tuple(case["shape"]), case["dtype"]
    x = sig.ro(_data(seed, shape, dtype, case.get("variant", 0)))
    orders = _ref_orders(x, case["num_deltas"], case["window"], case["axis"], case["mode"])
    v, _, _ = _deltas_one3(x, np.array(x, copy=True), dtype, case["axis"], case["window"], case["mode"],
                           case["num_deltas"], case["concatenate"], case["target_axis"],
                           case["in_place"], orders, dict(proc="Deltas", dtype_kind=_kindof(dtype)), case.get("route"))
    return core.result(v)


# ------------------------------------------------------------------ Stack

STACK_PADS = (None, "edge", "constant", "constant:7")


def _stack_one(x, pristine, dtype, nv, time_axis, axis, pad, in_place, tags0, route=None):
    from pydrobert.speech import post

    ndim = x.ndim
    if pad is None:
        name, padkw, cv = None, {}, 0
    else:
        name, padkw, _ = _mode(pad)
        cv = padkw.get("constant_values", 0)
    T = x.shape[time_axis]
    fn = None if pad is None or (name in ("edge", "constant") and set(padkw) <= {"constant_values"} and
                                 not isinstance(cv, tuple)) \
        else (_pad_fn(pad) or (lambda v, widths: np.pad(v, (widths[0], widths[1]), name, **padkw)))
    tags = dict(tags0, pad_mode=name if fn is None else _mode_class(pad), path="2d" if ndim == 2 else "nd",
                incomplete_run=bool(T % nv), short=bool(T < nv))
    case = dict(proc="Stack", shape=list(x.shape), dtype=dtype, num_vectors=nv, time_axis=time_axis,
                axis=axis, pad=pad, in_place=bool(in_place))
    r = computers.call(lambda: post.Stack(nv, time_axis=time_axis, pad_mode=name, **padkw))
    if r[0] != "ok":
        return [core.violation(dict(tags, what="init_exception", exc=r[1]),
                               "Stack(...) raised %s: %s" % (r[1], r[2]), case)], None, None
    if route is not None:
        tags["route"], case["route"] = route, route
        r = computers.call(_travel, r[1], route)
        if r[0] != "ok":
            return [], ("route_failed", route, r[1]), None
    arg = x if not in_place else np.array(x, copy=True)
    r = computers.call(r[1].apply, arg, axis, in_place)
    if r[0] != "ok":
        return [core.violation(dict(tags, what="exception", exc=r[1]),
                               "apply raised %s: %s" % (r[1], r[2]), case)], None, None
    got = r[1]
    if fn is None:
        cvd = np.array(cv).astype(dtype).item()
        want = ref.stack_apply(x, nv, time_axis, axis, name, cvd)
    else:
        # "numpy.pad of the WHOLE time axis up to the next multiple of num_vectors, then stack": the rule
        # is applied to every whole vector along the time axis on its own
        want = ref.stack_apply(x, nv, time_axis, axis, "fn", pad_fn=fn)
    viol = []
    if not isinstance(got, np.ndarray) or got.shape != want.shape:
        return [core.violation(dict(tags, what="shape"),
                               "result shape %r, documented %r" % (getattr(got, "shape", None), want.shape),
                               case)], None, None
    if got.dtype != x.dtype:
        viol.append(core.violation(dict(tags, what="dtype"),
                                   "result dtype %s, input dtype %s" % (got.dtype, x.dtype), case))
    elif not np.array_equal(got, want) and not (
            # computed pad values (mean of floats, ramps): the order of summation over a strided axis is
            # numpy's business
            fn is not None and x.dtype.kind == "f" and name in ("mean", "median", "linear_ramp") and
            np.allclose(got, want, rtol=1e-6 if dtype == "float32" else 1e-12, atol=1e-12)):
        bad = np.argwhere(got != want)[0]
        viol.append(core.violation(
            dict(tags, what="values"),
            "result%s = %r, reference %r; %d entries differ" % (
                bad.tolist(), got[tuple(bad)].item(), want[tuple(bad)].item(), int((got != want).sum())),
            case))
    if not in_place and not np.array_equal(x, pristine):
        viol.append(core.violation(dict(tags, what="input_modified"),
                                   "apply(in_place=False) changed its input", case))
    return viol, (bool(got.size), bool(T % nv), T < nv, name is not None), got


def _eval_stack(pt, seed, tier):
    shape, dtype = tuple(pt[0]), pt[1]
    ndim = len(shape)
    x = sig.ro(_data(seed, shape, dtype))
    pristine = np.array(x, copy=True)
    viol, evals, nontriv, obs = [], 0, 0, set()
    tags0 = dict(proc="Stack", dtype_kind=_kindof(dtype))
    for nv in (1, 2, 3, 4):
        for time_axis in range(-ndim, ndim):
            for axis in range(-ndim, ndim):
                if axis % ndim == time_axis % ndim:
                    continue
                for pad in STACK_PADS:
                    for ip in (False, True):
                        v, o, got = _stack_one(x, pristine, dtype, nv, time_axis, axis, pad, ip, tags0)
                        evals += 1
                        viol.extend(v)
                        if o is not None:
                            obs.add(o)
                            nontriv += int(o[0] and nv > 1)
                        if ndim == 2 and got is not None and not v:
                            # the 2-D fast path and the N-D path must agree: same data with a
                            # singleton axis appended / prepended
                            for where in (2, 0):
                                x3 = sig.ro(np.expand_dims(x, where))
                                sh = 1 if where == 0 else 0
                                t3, a3 = time_axis % 2 + sh, axis % 2 + sh
                                v3, _, got3 = _stack_one(x3, np.array(x3, copy=True), dtype, nv, t3,
                                                         a3, pad, ip, tags0)
                                evals += 1
                                viol.extend(v3)
                                if got3 is not None and not v3 and not np.array_equal(
                                        np.squeeze(got3, where), got):
                                    viol.append(core.violation(
                                        dict(tags0, what="paths_disagree"),
                                        "2-D result differs from the N-D result on the same data",
                                        dict(proc="Stack", shape=list(x3.shape), dtype=dtype,
                                             num_vectors=nv, time_axis=t3, axis=a3, pad=pad,
                                             in_place=ip)))
                        if len(viol) >= 40:
                            return core.result(viol, evals=evals, nontrivial_count=nontriv,
                                               obs=sorted(map(str, obs)))
    return core.result(viol, evals=evals, nontrivial_count=nontriv, obs=sorted(map(str, obs)),
                       obs_is_set=True,
                       sample=dict(shape=list(shape), dtype=dtype, evaluations=evals,
                                   inner="num_vectors 1..4 x time_axis x axis x pad_mode x in_place "
                                         "(+ singleton-axis N-D twin for 2-D inputs)"))


def _replay_stack(case, seed):
    shape, dtype = tuple(case["shape"]), case["dtype"]
    x = sig.ro(_data(seed, shape, dtype, case.get("variant", 0)))
    v, _, got = _stack_one(x, np.array(x, copy=True), dtype, case["num_vectors"], case["time_axis"],
                           case["axis"], case["pad"], case["in_place"],
                           dict(proc="Stack", dtype_kind=_kindof(dtype)), case.get("route"))
    return core.result(v)


# ------------------------------------------------------------------ call histories on ONE object
#
# The lattices above build a fresh object for every call.  Here ONE Deltas / Stack object is
# used for a sequence of apply() calls drawn from an alphabet (shape x axis x dtype x
# in_place); every result is compared with what a FRESH, identically configured object
# returns for the same call (differential oracle; the fresh result itself is checked against
# mc/refs/post.py) and, when it is not bit-identical to that, with the reference model.
#   (a) breadth-first search with explorer.bfs: a state is the canonical form of the real
#       object (+ class attributes + module-level data of pydrobert.speech.post); states
#       are merged, so on a stateless implementation the search closes after one level and
#       with a stateful one every reachable state up to the depth bound is expanded;
#   (b) plain enumeration WITHOUT merging and without deep copies (a new object per
#       sequence) of every sequence of PLAIN_DEPTH calls - does not rely on the canonical
#       form capturing all hidden state.

H_DTYPES = ("float64", "float32", "int16")
H_DELTAS_SHAPES = ((4,), (3, 4), (2, 3, 2))
H_STACK_SHAPES = ((5, 2), (2, 3), (3, 2, 4))


def _post_state():
    from pydrobert.speech import post

    out = []
    for name, v in sorted(vars(post).items()):
        if name.startswith("__") or callable(v) or isinstance(v, type(np)):
            continue
        if isinstance(v, (np.ndarray, list, dict, set, int, float, bool)):
            out.append((name, computers.canon_value(v, 1)))
    return tuple(out)


def _same_bits(a, b):
    return a.shape == b.shape and a.dtype == b.dtype and a.tobytes() == b.tobytes()


class _HSt:
    __slots__ = ("obj", "hist")

    def __init__(self, obj, hist):
        self.obj, self.hist = obj, hist


class _History:
    """alphabet, expected results and the per-call oracle for one configuration"""

    def __init__(self, cfg, seed):
        self.cfg, self.seed = cfg, seed
        self.proc = cfg["proc"]
        self.letters = []      # JSON-able: [shape, axis, dtype, in_place]
        self.exp = {}          # key -> dict(x, bytes, want, f64, viol)
        shapes = H_DELTAS_SHAPES if self.proc == "Deltas" else H_STACK_SHAPES
        for shape in shapes:
            nd = len(shape)
            for axis in range(-nd, nd):
                if self.proc == "Stack" and axis % nd == cfg["time_axis"] % nd:
                    continue  # feature axis == time axis: outside the property
                for dtype in H_DTYPES:
                    for ip in (False, True):
                        self.letters.append([list(shape), axis, dtype, ip])
        self.fresh_viol = []
        self.nvar = max(1, int(cfg.get("plain", 2)))
        for L in self.letters:
            for var in range(self.nvar):
                self.exp[(self.key(L), var)] = self._expected(L, var)

    @staticmethod
    def key(L):
        return (tuple(L[0]), L[1], L[2], bool(L[3]))

    def make(self):
        from pydrobert.speech import post

        c = self.cfg
        if self.proc == "Deltas":
            name, padkw, _ = _mode(c["mode"])
            return post.Deltas(c["num_deltas"], target_axis=c["target_axis"], concatenate=c["concatenate"],
                               context_window=c["window"], pad_mode=name, **padkw)
        if c["pad"] is None:
            return post.Stack(c["num_vectors"], time_axis=c["time_axis"])
        name, padkw, _ = _mode(c["pad"])
        return post.Stack(c["num_vectors"], time_axis=c["time_axis"], pad_mode=name, **padkw)

    def _expected(self, L, var=0):
        """result of a FRESH object for letter L on data variant var, itself checked against the
        reference"""
        shape, axis, dtype, ip = tuple(L[0]), L[1], L[2], bool(L[3])
        c = self.cfg
        x = sig.ro(_data(self.seed, shape, dtype, var))
        pristine = np.array(x, copy=True)
        f64 = None
        if self.proc == "Deltas":
            name, _, refkw = _mode(c["mode"])
            orders = ref.delta_orders(x, c["num_deltas"], c["window"], axis, name, **refkw)
            v, _, got = _deltas_one3(x, pristine, dtype, axis, c["window"], c["mode"], c["num_deltas"],
                                     c["concatenate"], c["target_axis"], ip, orders,
                                     dict(proc="Deltas", dtype_kind=_kindof(dtype)))
            f64 = ref.deltas_layout(orders, c["target_axis"], c["concatenate"])
        else:
            v, _, got = _stack_one(x, pristine, dtype, c["num_vectors"], c["time_axis"], axis, c["pad"], ip,
                                   dict(proc="Stack", dtype_kind=_kindof(dtype)))
        for w in v:
            w["case"] = dict(w["case"] or {}, variant=var)
        self.fresh_viol.extend(v)
        if v:
            got = None  # the fresh object is already wrong here: nothing to compare histories with
        return dict(x=x, bits=x.tobytes(), want=got, f64=f64)

    def tags(self, L, hist, what, **kw):
        nd, ax = len(L[0]), L[1] % len(L[0])
        t = dict(proc=self.proc, history=True, what=what, dtype_kind=_kindof(L[2]),
                 earlier_same_ndim=any(len(h[0]) == nd for h in hist),
                 earlier_same_axis=any(len(h[0]) == nd and h[1] % nd == ax for h in hist))
        t.update(kw)
        return t

    def call(self, obj, L, hist, var=0, held=None):
        """one apply() of letter L (data variant var) on the (used) object; hist = the letters
        applied before; held: list that receives (result, input array, in_place, letter)"""
        e = self.exp[(self.key(L), var)]
        if e["want"] is None:
            if held is not None:
                self.raw(obj, L, var, held)
            return [], None
        shape, axis, dtype, ip = tuple(L[0]), L[1], L[2], bool(L[3])
        x, want = e["x"], e["want"]
        arg = np.array(x, copy=True)  # writable: a write to the caller's array shows as input_modified
        r = computers.call(obj.apply, arg, axis, ip)
        if held is not None and r[0] == "ok" and isinstance(r[1], np.ndarray):
            held.append(_Held(r[1], arg, ip, L, e["bits"]))
        case = dict(proc=self.proc, history=True, config=self.cfg)
        where = "call %d on one %s object (earlier calls %s): apply(%s %s, axis=%d, in_place=%s)" % (
            len(hist) + 1, self.proc, [list(h) for h in hist], dtype, list(shape), axis, ip)
        if r[0] != "ok":
            return [core.violation(self.tags(L, hist, "history_exception", exc=r[1]),
                                   "%s raised %s: %s; a fresh object returns normally" % (where, r[1], r[2]),
                                   case)], ("exc",)
        got = r[1]
        viol = []
        if not ip and arg.tobytes() != e["bits"]:
            viol.append(core.violation(self.tags(L, hist, "history_input_modified"),
                                       "%s changed its input" % where, case))
        if not isinstance(got, np.ndarray) or got.shape != want.shape:
            viol.append(core.violation(self.tags(L, hist, "history_shape"),
                                       "%s has shape %r, a fresh object gives %r" % (
                                           where, getattr(got, "shape", None), want.shape), case))
            return viol, ("shape",)
        if got.dtype != want.dtype:
            viol.append(core.violation(self.tags(L, hist, "history_dtype"),
                                       "%s has dtype %s, a fresh object gives %s" % (where, got.dtype, want.dtype),
                                       case))
            return viol, ("dtype",)
        same = got.tobytes() == want.tobytes()
        if not same:
            # not bit-identical to the fresh object's result: the reference model decides
            if self.proc == "Deltas":
                ok = _close(got, e["f64"], dtype) if got.size else np.ones(0, bool)
            else:
                ok = got == want
            if not np.all(ok):
                bad = np.argwhere(~ok)[0]
                viol.append(core.violation(
                    self.tags(L, hist, "history_values"),
                    "%s: result%s = %r, a fresh object gives %r; %d of %d entries differ from the reference" % (
                        where, bad.tolist(), got[tuple(bad)].item(), want[tuple(bad)].item(),
                        int((~ok).sum()), ok.size), case))
        return viol, (len(shape), _kindof(dtype), ip, same, bool(got.size))


class _Held:
    """a result the caller keeps: the array itself, its bits when it was returned, the input"""
    __slots__ = ("got", "bits", "arg", "arg_bits", "ip", "L")

    def __init__(self, got, arg, ip, L, arg_bits):
        self.got, self.arg, self.ip, self.L = got, arg, bool(ip), L
        self.bits = (got.dtype.str, got.shape, got.tobytes())
        self.arg_bits = arg_bits


def _raw(self, obj, L, var, held):
    """apply letter L without the per-call oracle (prefix of a longer sequence), result held"""
    e = self.exp[(self.key(L), var)]
    arg = np.array(e["x"], copy=True)
    r = computers.call(obj.apply, arg, L[1], bool(L[3]))
    if r[0] == "ok" and isinstance(r[1], np.ndarray):
        held.append(_Held(r[1], arg, L[3], L, e["bits"]))


_History.raw = _raw


def _held_oracle(H, held, case):
    """after the LAST call of a sequence on one object: every result returned earlier is still what
    it was when it was returned (it is the caller's array now), no two results share memory, a
    result shares memory with an input only if that call was in_place, and an input of a call
    without in_place is still bit-identical"""
    viol = []

    def tags(h, what, **kw):
        t = dict(proc=H.proc, history=True, what=what, dtype_kind=_kindof(h.L[2]),
                 path="2d" if len(h.L[0]) == 2 else "nd")
        t.update(kw)
        return t

    def call_no(i):
        h = held[i]
        return "call %d apply(%s %s, axis=%d, in_place=%s)" % (i + 1, h.L[2], list(h.L[0]), h.L[1], h.ip)

    n = len(held)
    for i, h in enumerate(held):
        now = (h.got.dtype.str, h.got.shape, h.got.tobytes())
        if now != h.bits:
            later = [j for j in range(i + 1, n) if held[j].bits[:2] == h.bits[:2]]
            viol.append(core.violation(
                tags(h, "held_result_changed", later_call_same_shape_dtype=bool(later)),
                "the array returned by %s on one %s object was changed by the later calls %s: %s -> %s" % (
                    call_no(i), H.proc, [call_no(j) for j in range(i + 1, n)],
                    np.frombuffer(h.bits[2], dtype=h.bits[0]).ravel()[:4].tolist(),
                    h.got.ravel()[:4].tolist()), case))
        if not h.ip and h.arg.tobytes() != h.arg_bits:
            viol.append(core.violation(tags(h, "held_input_changed"),
                                       "the input of %s (in_place=False) was changed by the end of the "
                                       "sequence" % call_no(i), case))
        for j in range(n):
            g = held[j]
            if j > i and h.got.size and g.got.size and np.shares_memory(h.got, g.got):
                viol.append(core.violation(
                    tags(g, "results_share_memory", both_in_place=bool(h.ip and g.ip)),
                    "the arrays returned by %s and %s on one %s object share memory" % (
                        call_no(i), call_no(j), H.proc), case))
            if h.got.size and g.arg.size and np.shares_memory(h.got, g.arg) and not (i == j and h.ip):
                viol.append(core.violation(
                    tags(h, "result_aliases_input", same_call=bool(i == j)),
                    "the array returned by %s shares memory with the input of %s" % (call_no(i), call_no(j)),
                    case))
    return viol


def _run_sequence(H, seq, check_from):
    """one NEW object, the calls of seq in order (call i on data variant i % nvar), nothing copied,
    every result held to the end; the per-call oracle runs from call number check_from on (earlier
    calls are the last call of a shorter sequence), the held-results oracle at the end"""
    obj, hist, held, viol, obs = H.make(), (), [], [], []
    ncalls = 0
    for i, L in enumerate(seq):
        var = i % H.nvar
        ncalls += 1
        if i < check_from:
            H.raw(obj, L, var, held)
        else:
            v, o = H.call(obj, L, hist, var, held)
            viol.extend(v)
            if o is not None:
                obs.append(o)
        hist = hist + (H.key(L),)
    case = dict(proc=H.proc, history=True, config=H.cfg)
    hv = _held_oracle(H, held, case)
    if len(held) > 1:
        obs.append(("held", len(held), len(set(h.bits[:2] for h in held)) < len(held), bool(hv)))
    viol.extend(hv)
    for w in viol:
        w["case"] = dict(w["case"], ops=[list(l) for l in seq], part="sequence")
    return viol, obs, ncalls


def _eval_history(cfg, seed, tier, replay_ops=None, replay_case=None):
    import copy

    from .. import explorer

    H = _History(cfg, seed)
    if replay_ops is not None and (replay_case or {}).get("part") == "sequence":
        viol, _, _ = _run_sequence(H, replay_ops, 0)
        return core.result(viol)
    if replay_ops is not None:
        obj, viol, hist = H.make(), [], ()
        for L in replay_ops:
            v, _ = H.call(obj, L, hist)
            viol.extend(v)
            hist = hist + (H.key(L),)
        for v in viol:
            v["case"] = dict(proc=H.proc, history=True, config=cfg, ops=replay_ops)
        return core.result(viol)
    depth = 3 if tier == "quick" else 4
    plain = cfg.get("plain", 2)
    first = cfg.get("first")
    if len(H.letters) != (72 if H.proc == "Deltas" else 48):
        raise core.HarnessError("alphabet size %d: the shards by first letter would not cover it" % len(H.letters))
    viol, obs = [], set()
    st = None
    if first is None:
        viol = list(H.fresh_viol)

        # (a) explicit-state search with merging
        def ops(s):
            return H.letters if len(s.hist) < depth else ()

        def step(s, L):
            obj = copy.deepcopy(s.obj)
            v, o = H.call(obj, L, s.hist)
            return _HSt(obj, s.hist + (H.key(L),)), v, o

        def key(s):
            return (computers.canon_value(s.obj), computers.class_state(type(s.obj)), _post_state())

        st = explorer.bfs(lambda: _HSt(H.make(), ()), ops, step, key, max_states=3000, max_viol=60)
        viol.extend(st.violations)
        obs = set(st.observations)
    # (b) every sequence of `plain` calls, a new object per sequence, nothing merged or copied; for
    # plain >= 3 this part is sharded over points by the first letter of the sequence
    seqs = calls = 0
    if first is not None:
        heads = [H.letters[first]]
    elif plain <= 2:
        heads = H.letters
    else:
        heads = []
    for head in heads:
        if len(viol) >= 60:
            break
        for rest in itertools.product(H.letters, repeat=plain - 1):
            seq = (head,) + rest
            seqs += 1
            # the first call on a new object is the fresh object's own; every later call is checked
            v, o, n = _run_sequence(H, seq, 1)
            calls += n
            obs.update(o)
            viol.extend(v)
            if len(viol) >= 60:
                break
    seen, uniq = set(), []
    for v in viol:
        h = core.sig_hash(v["tags"])
        if h not in seen:
            seen.add(h)
            uniq.append(v)
    tr = st.transitions if st is not None else 0
    return core.result(
        uniq, evals=tr + seqs, nontrivial_count=max(0, tr - len(H.letters)) + seqs,
        obs=sorted(map(str, obs)), obs_is_set=True, states=st.states if st is not None else 0, transitions=tr,
        impl_calls=tr + calls + len(H.letters),
        capped=st.capped if (st is not None and st.capped and not uniq) else None,
        sample=dict(config=cfg, letters=len(H.letters), bfs_states=st.states if st is not None else None,
                    bfs_transitions=tr, bfs_depth_bound=depth, plain_sequences=seqs, plain_length=plain))


def _replay_history(case, seed, tier):
    if "config" not in case:
        # a FRESH object that is already wrong for one letter (reported with the lattice's case)
        return _replay_deltas(case, seed) if case.get("proc") == "Deltas" else _replay_stack(case, seed)
    return _eval_history(case["config"], seed, tier, replay_ops=case["ops"], replay_case=case)


def _history_configs(tier):
    """quick: un-merged sequences of 2 calls everywhere.  thorough: 3 calls for every Stack
    configuration and for the Deltas configurations with the default window / padding (one
    Deltas call costs ~20x a Stack call; 3 calls over 72 letters for all 32 Deltas
    configurations would take 2 h of CPU), 2 calls for the other Deltas configurations."""
    base = []
    for nd in (1, 2):
        for concat in (True, False):
            for ta in (0, -1):
                for window in (1, 2):
                    for mode in ("edge", "reflect"):
                        c = dict(proc="Deltas", num_deltas=nd, concatenate=concat, target_axis=ta,
                                 window=window, mode=mode)
                        c["plain"] = 3 if (tier != "quick" and window == 2 and mode == "edge") else 2
                        base.append((c, 72))
    for nv in (1, 2, 3):
        for time_axis in (0, 1, -1, -2):
            for pad in (None, "edge", "constant:7"):
                base.append((dict(proc="Stack", num_vectors=nv, time_axis=time_axis, pad=pad,
                                  plain=2 if tier == "quick" else 3), 48))
    out, shards = [], []
    for c, nletters in base:
        out.append(c)
        if c["plain"] >= 3:
            shards += [dict(c, first=i) for i in range(nletters)]
    # the expensive shards (Deltas) first
    shards.sort(key=lambda c: c["proc"] != "Deltas")
    return shards + out



# ------------------------------------------------------------------ every documented form of pad_mode
#
# pad_mode / **kwargs are passed through to numpy.pad (Deltas: per vector along the filtered axis; Stack: the
# time axis extended on the right).  The lattices above use the plain named modes; here EVERY named mode
# whose pad values are well defined, the keyword variants (constant_values, end_values, reflect_type='odd',
# stat_length) and callables (the numpy.pad documentation's pad_with example with and without its `padder`
# keyword, a data-dependent one in the same style, one that is safe for zero widths) are enumerated on a
# small set of shapes.  The reference applies the rule to ONE whole vector along the filtered / time axis at
# a time (mc/refs/post.py, pad_fn): a padding value may depend on the whole of that vector and on nothing else.

PM_DELTAS_MODES = ("median", "maximum", "minimum", "reflect:odd", "symmetric:odd", "mean:stat2", "minimum:stat3",
                   "call:pad_with", "call:pad_with:-3", "call:neg_edge", "call:robust")
PM_DELTAS_SHAPES = ((5,), (2,), (3, 5), (5, 2), (1, 3), (2, 3, 5), (3, 1, 2))
PM_DTYPES = ("float64", "int16")
# Stack: a callable must be safe for zero widths: numpy.pad itself calls it along EVERY axis of the tensor it
# is given, and Stack documents that it hands the tensor to numpy.pad (so the documentation's pad_with, which
# overwrites a vector whose `after` width is 0, is not usable with numpy.pad on a 2-D tensor at all)
PM_STACK_MODES = (None, "edge", "constant", "constant:7", "reflect", "symmetric", "wrap", "mean", "median",
                  "maximum", "minimum", "linear_ramp", "linear_ramp:2", "reflect:odd", "symmetric:odd",
                  "mean:stat2", "minimum:stat3", "call:robust", "call:robust:-3")
PM_STACK_T = (1, 2, 3, 4, 5, 6, 7, 9)
PM_STACK_NV = (1, 2, 3, 4, 5)


def _pm_points():
    pts = [["Deltas", list(sh), d] for sh in PM_DELTAS_SHAPES for d in PM_DTYPES]
    for T in PM_STACK_T:
        for sh, ta in (((T, 2), 0), ((2, T), 1), ((T, 2, 2), 0), ((2, T, 3), 1)):
            for d in PM_DTYPES:
                pts.append(["Stack", list(sh), d, ta])
    return pts


def _eval_pad_modes(pt, seed):
    proc, shape, dtype = pt[0], tuple(pt[1]), pt[2]
    ndim = len(shape)
    x = sig.ro(_data(seed, shape, dtype))
    pristine = np.array(x, copy=True)
    viol, evals, nontriv, obs = [], 0, 0, set()
    tags0 = dict(proc=proc, dtype_kind=_kindof(dtype), sub="pad_modes")
    if proc == "Deltas":
        for axis in list(range(ndim)) + [-1]:
            for window in (1, 2):
                for mode in PM_DELTAS_MODES:
                    orders = _ref_orders(x, 2, window, axis, mode)
                    for nd in (1, 2):
                        for concat, ta in ((True, 0), (True, -1), (False, 0), (False, -1)):
                            for ip in ((False, True) if ta == -1 and concat else (False,)):
                                v, o = _deltas_one(x, pristine, dtype, axis, window, mode, nd, concat, ta, ip,
                                                   orders, dict(tags0, mode=_mode_class(mode)))
                                evals += 1
                                nontriv += 1
                                viol.extend(v)
                                obs.add((_mode_class(mode), None if o is None else o[:2]))
                if len(viol) >= 40:
                    break
        inner = "axis x window {1,2} x %d modes x num_deltas {1,2} x (concatenate, target_axis) x in_place" % len(
            PM_DELTAS_MODES)
    else:
        ta = pt[3]
        T = shape[ta]
        for nv in PM_STACK_NV:
            for axis in range(ndim):
                if axis == ta:
                    continue
                for t_axis, f_axis in ((ta, axis), (ta - ndim, axis - ndim)):
                    for pad in PM_STACK_MODES:
                        for ip in (False, True):
                            v, o, _ = _stack_one(x, pristine, dtype, nv, t_axis, f_axis, pad, ip, tags0)
                            evals += 1
                            nontriv += int(bool(T % nv) and T > nv and pad is not None)
                            viol.extend(v)
                            obs.add((str(pad), o))
            if len(viol) >= 40:
                break
        inner = "num_vectors 1..5 x feature axis x {non-negative, negative axis values} x %d pad modes x in_place" % len(
            PM_STACK_MODES)
    return core.result(viol, evals=evals, nontrivial_count=nontriv, obs=sorted(map(str, obs)), obs_is_set=True,
                       sample=dict(proc=proc, shape=list(shape), dtype=dtype, inner=inner))


# ------------------------------------------------------------------ routes: the object as it reaches the call
#
# apply() is a function of (constructor arguments, input, axis).  The lattices above call apply() on the object
# the constructor returned; here the object TRAVELS first - copy.copy, copy.deepcopy, pickle round trips (highest
# protocol and protocol 2), also after it was used, and the original after a shallow copy of it was used - and
# every constructor argument is non-default (context window, target_axis, concatenate, every kind of numpy.pad
# keyword incl. the (before, after) pair form and callables with a keyword; Stack: num_vectors, time_axis,
# pad_mode + keywords).  The oracle is the reference model for the AS-CONSTRUCTED options on every route.  A
# route that itself raises (object not copyable / picklable) is counted as skipped: the property is about apply.

ROUTES = ("constructed", "copy", "deepcopy", "pickle", "pickle2", "used.copy", "used.deepcopy", "used.pickle",
          "lent", "deepcopy.pickle")
RT_DELTAS_MODES = ("edge", "reflect", "constant:1.5", "constant:1.5,-2", "linear_ramp:2", "linear_ramp:5,-5",
                   "reflect:odd", "symmetric:odd", "mean:stat2", "minimum:stat3", "call:pad_with:-3",
                   "call:neg_edge")
RT_DELTAS_SHAPES = ((5,), (3, 4), (2, 3, 2))
RT_STACK_MODES = (None, "edge", "constant:7", "constant:7,-3", "linear_ramp:2", "reflect:odd", "mean:stat2",
                  "call:robust:-3")
RT_STACK_SHAPES = ((5, 2), (2, 5), (5, 2, 2), (2, 5, 3), (3, 2, 5))
RT_DTYPES = ("float64", "int16")


def _warm(obj):
    """one ordinary apply() on another tensor (another ndim than most lattice inputs); outcome not judged here"""
    x = np.arange(24.0).reshape(2, 3, 4)
    ta = getattr(obj, "time_axis", 0)
    computers.call(obj.apply, x, (ta + 1) % 3 if isinstance(ta, int) else -1, False)


def _travel(obj, route):
    import copy
    import pickle

    for step in route.split("."):
        if step == "constructed":
            pass
        elif step == "copy":
            obj = copy.copy(obj)
        elif step == "deepcopy":
            obj = copy.deepcopy(obj)
        elif step == "pickle":
            obj = pickle.loads(pickle.dumps(obj, pickle.HIGHEST_PROTOCOL))
        elif step == "pickle2":
            obj = pickle.loads(pickle.dumps(obj, 2))
        elif step == "used":
            _warm(obj)
        elif step == "lent":
            # a shallow copy is made and used; the object itself goes on
            _warm(copy.copy(obj))
        else:
            raise core.HarnessError("unknown route step %r" % (step,))
    return obj


def _rt_points():
    pts = []
    for sh in RT_DELTAS_SHAPES:
        for d in RT_DTYPES:
            for axis in list(range(len(sh))) + [-1]:
                for window in (1, 3):
                    pts.append(["Deltas", list(sh), d, axis, window])
    for sh in RT_STACK_SHAPES:
        for d in RT_DTYPES:
            for ta in range(-len(sh), len(sh)):
                pts.append(["Stack", list(sh), d, ta])
    return pts


def _eval_routes(pt, seed):
    proc, shape, dtype = pt[0], tuple(pt[1]), pt[2]
    ndim = len(shape)
    x = sig.ro(_data(seed, shape, dtype))
    pristine = np.array(x, copy=True)
    viol, evals, nontriv, skipped, obs = [], 0, 0, 0, set()
    tags0 = dict(proc=proc, dtype_kind=_kindof(dtype), sub="routes")
    if proc == "Deltas":
        axis, window = pt[3], pt[4]
        layouts = ((True, 0), (True, -ndim), (False, 0), (False, -1), (False, -(ndim + 1)))
        for mode in RT_DELTAS_MODES:
            orders = _ref_orders(x, 2, window, axis, mode)
            for nd in (1, 2):
                for concat, ta in layouts:
                    for route in ROUTES:
                        v, o, _ = _deltas_one3(x, pristine, dtype, axis, window, mode, nd, concat, ta, False,
                                               orders, dict(tags0, mode=_mode_class(mode)), route)
                        evals += 1
                        viol.extend(v)
                        if o is not None and o[0] == "route_failed":
                            skipped += 1
                        else:
                            nontriv += int(route != "constructed")
                        obs.add((route, _mode_class(mode), None if o is None else o[:2]))
            if len(viol) >= 40:
                break
        inner = "%d pad modes x num_deltas {1,2} x 5 (concatenate, target_axis) x %d routes" % (
            len(RT_DELTAS_MODES), len(ROUTES))
    else:
        ta = pt[3]
        for nv in (2, 3, 4):
            for axis in range(ndim):
                if axis == ta % ndim:
                    continue
                f_axis = axis if ta >= 0 else axis - ndim
                for pad in RT_STACK_MODES:
                    for route in ROUTES:
                        for ip in ((False, True) if route in ("constructed", "pickle") else (False,)):
                            v, o, _ = _stack_one(x, pristine, dtype, nv, ta, f_axis, pad, ip, tags0, route)
                            evals += 1
                            viol.extend(v)
                            if o is not None and o[0] == "route_failed":
                                skipped += 1
                            else:
                                nontriv += int(route != "constructed")
                            obs.add((route, str(pad), o))
            if len(viol) >= 40:
                break
        inner = "num_vectors {2,3,4} x feature axis x %d pad modes x %d routes" % (len(RT_STACK_MODES), len(ROUTES))
    return core.result(viol, evals=evals, nontrivial_count=nontriv, obs=sorted(map(str, obs)), obs_is_set=True,
                       skipped=skipped or None,
                       sample=dict(proc=proc, shape=list(shape), dtype=dtype, inner=inner))


# ------------------------------------------------------------------ refusals: histories with a refused call
#
# ONE object, sequences of three apply() calls (a, b, c) in which at least one of a, b lies OUTSIDE the
# property's domain for this object - the documented RuntimeError (feature axis == time axis), a 1-D tensor for
# Stack, a numpy.pad error (keywords the mode does not take; 'reflect' on an empty filtered axis), a target_axis
# the input's number of dimensions does not have, a 0-d tensor, a list - and c lies inside it.  Whether a call
# outside the domain raises or returns is NOT judged.  Judged: every call inside the domain returns what a fresh
# object returns / the reference model defines (the calls of a sequence have different numbers of dimensions,
# configured axes are negative too), and the documented public attributes (num_vectors, time_axis; concatenate,
# num_deltas) read after every call, refused or not, what they read after construction.

RF_STACK_SHAPES = ((5, 4), (3, 6, 2), (2, 3, 5, 2))
RF_DELTAS_SHAPES = ((4,), (3, 4), (2, 3, 2), (0, 3))
RF_BAD_KW = dict(constant_values=3)   # numpy.pad: unsupported keyword for mode 'edge'


def _public(obj):
    return dict((k, computers.canon_value(v)) for k, v in vars(obj).items() if not k.startswith("_"))


class _Refusals(_History):
    def __init__(self, cfg, seed):
        self.cfg, self.seed = cfg, seed
        self.proc = cfg["proc"]
        self.exp, self.fresh_viol, self.nvar = {}, [], 3
        shapes = RF_DELTAS_SHAPES if self.proc == "Deltas" else RF_STACK_SHAPES
        small, full = [], []
        for shape in shapes + ((), (3,)) if self.proc == "Stack" else shapes + ((),):
            nd = len(shape)
            for axis in (list(range(-nd, nd)) + [nd]) if nd else [0, -1]:
                for dtype, ip in (("float64", False), ("int16", True)):
                    L = [list(shape), axis, dtype, ip]
                    full.append(L)
                    if dtype == "float64" and (axis >= 0 or nd == 0):
                        small.append(L)
        L = [[3, 4], 0, "float64", False, "list"]
        full.append(L)
        small.append(L)
        self.letters, self.small = full, small
        for L in full:
            if self.kind(L) is None:
                for var in range(self.nvar):
                    self.exp[(self.key(L), var)] = self._expected(L, var)

    def make(self):
        from pydrobert.speech import post

        c = self.cfg
        if c.get("pad") == "bad":
            return post.Stack(c["num_vectors"], time_axis=c["time_axis"], pad_mode="edge", **RF_BAD_KW)
        return _History.make(self)

    def _expected(self, L, var=0):
        if self.cfg.get("pad") == "bad":
            # inside the domain only where nothing is padded: any padding mode defines the same result
            keep, self.cfg = self.cfg, dict(self.cfg, pad="edge")
            try:
                return _History._expected(self, L, var)
            finally:
                self.cfg = keep
        return _History._expected(self, L, var)

    def kind(self, L):
        """None: the call is inside the property's domain for this configuration; else why it is not"""
        c = self.cfg
        shape, axis = L[0], L[1]
        nd = len(shape)
        if len(L) > 4:
            return "not_an_array"
        if nd == 0:
            return "zero_dim"
        if not -nd <= axis < nd:
            return "axis_out_of_range"
        if self.proc == "Stack":
            if nd == 1:
                return "one_dim"
            if not -nd <= c["time_axis"] < nd:
                return "time_axis_out_of_range"
            if axis % nd == c["time_axis"] % nd:
                return "axis_eq_time_axis"
            if c["pad"] == "bad" and shape[c["time_axis"]] % c["num_vectors"]:
                return "pad_error"
            return None
        ta = c["target_axis"]
        if not (-nd <= ta < nd if c["concatenate"] else -(nd + 1) <= ta <= nd):
            return "target_axis_out_of_range"
        if shape[axis] == 0:
            return "empty_filtered_axis"
        return None

    def tags(self, L, hist, what, **kw):
        nd = len(L[0])
        c = self.cfg
        refused = [h for h in hist if self.kind(list(h[:4]) + (["list"] if len(h) > 4 else [])) is not None]
        last = refused[-1]
        t = dict(proc=self.proc, history=True, sub="refusals", what=what, dtype_kind=_kindof(L[2]),
                 after=self.kind(list(last[:4]) + (["list"] if len(last) > 4 else [])),
                 refused_other_ndim=bool(len(last[0]) != nd),
                 negative_config_axis=bool((c["time_axis"] if self.proc == "Stack" else c["target_axis"]) < 0))
        t.update(kw)
        return t

    @staticmethod
    def key(L):
        return (tuple(L[0]), L[1], L[2], bool(L[3])) + (("list",) if len(L) > 4 else ())

    def outside(self, obj, L, var):
        """a call outside the domain: made, outcome recorded, not judged"""
        x = _data(self.seed, tuple(L[0]), L[2], var)
        arg = x.tolist() if len(L) > 4 else np.array(x, copy=True)
        r = computers.call(obj.apply, arg, L[1], bool(L[3]))
        return r[0] if r[0] == "ok" else r[1]


def _run_refusal(H, seq):
    obj = H.make()
    attrs = _public(obj)
    viol, obs, hist = [], [], ()
    case = dict(proc=H.proc, history=True, config=H.cfg, part="refusals", ops=[list(l) for l in seq])
    for i, L in enumerate(seq):
        k = H.kind(L)
        if k is None:
            if any(H.kind(list(h[:4]) + (["list"] if len(h) > 4 else [])) is not None for h in hist):
                v, o = H.call(obj, L, hist, i)
                for w in v:
                    w["case"] = case
                viol.extend(v)
                obs.append(("valid", o))
            else:
                computers.call(obj.apply, np.array(H.exp[(H.key(L), i)]["x"], copy=True), L[1], bool(L[3]))
            refused = False
        else:
            out = H.outside(obj, L, i)
            obs.append((k, out))
            refused = out != "ok"
        now = _public(obj)
        if now != attrs:
            for name in sorted(set(now) | set(attrs)):
                if now.get(name, "<absent>") != attrs.get(name, "<absent>"):
                    viol.append(core.violation(
                        dict(proc=H.proc, history=True, sub="refusals", what="attribute_changed", attr=name,
                             call_refused=bool(refused), call_outside_domain=k is not None),
                        "call %d of %r on one %s object (%s): attribute %s read %r after construction and reads %r "
                        "now" % (i + 1, [list(l) for l in seq], H.proc, H.cfg, name, attrs.get(name, "<absent>"),
                                 now.get(name, "<absent>")), case))
            attrs = now  # report a change once
        hist = hist + (H.key(L),)
    return viol, obs


def _eval_refusals(cfg, seed, replay_ops=None):
    H = _Refusals(cfg, seed)
    if replay_ops is not None:
        viol, _ = _run_refusal(H, replay_ops)
        return core.result(viol)
    viol, obs = list(H.fresh_viol), set()
    seqs = calls = kinds = 0
    out_small = [L for L in H.small if H.kind(L) is not None]
    valid = [L for L in H.letters if H.kind(L) is None]
    kinds = set(H.kind(L) for L in out_small)
    for a in H.small:
        for b in H.small:
            if H.kind(a) is None and H.kind(b) is None:
                continue
            for c in valid:
                v, o = _run_refusal(H, (a, b, c))
                seqs += 1
                calls += 3
                viol.extend(v)
                obs.update(o)
            if len(viol) >= 60:
                break
        if len(viol) >= 60:
            break
    seen, uniq = set(), []
    for v in viol:
        h = core.sig_hash(v["tags"])
        if h not in seen:
            seen.add(h)
            uniq.append(v)
    return core.result(uniq, evals=seqs, nontrivial_count=seqs, obs=sorted(map(str, obs)), obs_is_set=True,
                       impl_calls=calls,
                       sample=dict(config=cfg, letters=len(H.letters), first_two_from=len(H.small),
                                   outside_domain=len(out_small), kinds=sorted(kinds), last_from=len(valid),
                                   sequences=seqs))


def _refusal_configs():
    out = []
    for nv in (2, 3):
        for time_axis in (0, 1, -1, -2, -3):
            for pad in (None, "edge", "bad"):
                out.append(dict(proc="Stack", num_vectors=nv, time_axis=time_axis, pad=pad))
    for concat in (True, False):
        for ta in (-1, 0, 2, -3):
            for nd, window, mode in ((1, 2, "reflect"), (2, 1, "edge")):
                out.append(dict(proc="Deltas", num_deltas=nd, concatenate=concat, target_axis=ta, window=window,
                                mode=mode))
    out.sort(key=lambda c: c["proc"] != "Deltas")
    return out


def _replay_any(case, seed, tier):
    if case.get("part") == "refusals":
        return _eval_refusals(case["config"], seed, replay_ops=case["ops"])
    if case.get("history"):
        return _replay_history(case, seed, tier)
    return (_replay_deltas if case["proc"] == "Deltas" else _replay_stack)(case, seed)


def _cost(pt):
    return -len(pt[0]) * int(np.prod([max(1, n) for n in pt[0]]))


def subchecks(tier, seed):
    # most expensive points first (better balance over the workers); the set is unchanged
    dpts = sorted([(s, d) for s in _shapes(tier) for d in DTYPES], key=_cost)
    spts = sorted([(s, d) for s in _shapes(tier, 2) for d in DTYPES + DTYPES_WIDE], key=_cost)
    wpts = sorted([(s, d) for s in _shapes(tier) for d in DTYPES_WIDE], key=_cost)
    hpts = _history_configs(tier)
    modes = MODES_QUICK if tier == "quick" else MODES_FULL
    return [
        core.SubCheck(
            "deltas", dpts, lambda p: _eval_deltas(p, seed, tier),
            "real Deltas.apply vs explicit-loop Kaldi recursion at every (shape, dtype); inner loop "
            "axis x context_window x pad_mode x num_deltas x concatenate x target_axis x in_place; "
            "non-trivial = num_deltas > 0 and a non-empty tensor",
            axes=dict(shape="all shapes with <= 3 dims, extents in {0,1,2,3,5}" +
                            (" (3-D shapes containing 5: a fixed subset)" if tier == "quick" else ""),
                      dtype=list(DTYPES), axis="-ndim..ndim-1", num_deltas=[0, 1, 2, 3],
                      context_window=[1, 2, 3], pad_mode=list(modes), concatenate=[True, False],
                      target_axis="every valid value, negative too",
                      pruning="empty filtered axis: num_deltas=0 only; empty tensors and (quick) "
                              "negative axis aliases: two (window, mode) pairs; (quick) the full target_axis range "
                              "with (window, mode) in {(2, edge), (1, reflect), (3, reflect)}, otherwise "
                              "target_axis in {most negative, 0, -1}"),
            replay=lambda case: _replay_deltas(case, seed), chunk=1),
        core.SubCheck(
            "deltas_wide", wpts, lambda p: _eval_deltas(p, seed, tier, wide=True),
            "real Deltas.apply at every (shape, dtype) for the dtypes that hold values NO float64 holds - int64 "
            "(odd values of magnitude 2**53..2**61), uint64 (odd values around 2**63), long double (more than "
            "53 significant bits) - every entry of the tensor being such a value; inner loop axis x (window, "
            "pad_mode, num_deltas) in %r x concatenate x every target_axis x in_place: the leading block of the "
            "result IS the input (equal entry by entry in the input's own dtype, num_deltas 0 included), result "
            "dtype = input dtype, documented shape, input untouched; the filtered blocks against the Kaldi "
            "recursion with a relative tolerance of 1e-12 on the largest magnitude (uint64: only where the "
            "filter output is a positive value of the dtype); non-trivial = num_deltas > 0 and a non-empty "
            "tensor%s" % (WIDE_COMBOS, "; negative axis values: (2, edge, num_deltas 0 and 2) only"
                          if tier == "quick" else ""),
            axes=dict(shape="all shapes with <= 3 dims, extents in {0,1,2,3,5}" +
                            (" (3-D shapes containing 5: a fixed subset)" if tier == "quick" else ""),
                      dtype=list(DTYPES_WIDE), axis="-ndim..ndim-1", combos=[list(map(str, c)) for c in WIDE_COMBOS],
                      concatenate=[True, False], target_axis="every valid value, negative too"),
            replay=lambda case: _replay_deltas(case, seed), chunk=1),
        core.SubCheck(
            "stack", spts, lambda p: _eval_stack(p, seed, tier),
            "real Stack.apply vs explicit-loop stacking at every (shape, dtype); inner loop "
            "num_vectors x time_axis x axis x pad_mode x in_place, 2-D inputs also as 3-D with a "
            "singleton axis; non-trivial = num_vectors > 1 and a non-empty result",
            axes=dict(shape="all 2-D and 3-D shapes, extents in {0,1,2,3,5}" +
                            (" (3-D shapes containing 5: a fixed subset)" if tier == "quick" else ""),
                      dtype=list(DTYPES + DTYPES_WIDE),
                      num_vectors=[1, 2, 3, 4], time_axis="-ndim..ndim-1", axis="-ndim..ndim-1 (!= time)",
                      pad_mode=[str(p) for p in STACK_PADS], in_place=[False, True]),
            replay=lambda case: _replay_stack(case, seed), chunk=4),
        core.SubCheck(
            "histories", hpts, lambda c: _eval_history(c, seed, tier),
            "ONE Deltas / Stack object per configuration used for sequences of apply() calls over an "
            "alphabet shape x axis x dtype x in_place: (a) BFS with state merging on the object's "
            "canonical form to depth %d, (b) every sequence of %s calls on a new object without merging; "
            "every result compared with a fresh object's (bit-identical, else with the reference model); in (b) "
            "call i gets data variant i, every returned array is held to the end of the sequence and must be "
            "unchanged then, share no memory with another result or (unless its own call was in_place) an input; "
            "non-trivial = a call that is not the first on its object" % (
                (3, "2") if tier == "quick" else (4, "3 (2 for Deltas with non-default window/padding)")),
            axes=dict(deltas_config=dict(num_deltas=[1, 2], concatenate=[True, False], target_axis=[0, -1],
                                         context_window=[1, 2], pad_mode=["edge", "reflect"]),
                      stack_config=dict(num_vectors=[1, 2, 3], time_axis=[0, 1, -1, -2],
                                        pad_mode=["None", "edge", "constant:7"]),
                      alphabet=dict(deltas_shapes=[list(x) for x in H_DELTAS_SHAPES],
                                    stack_shapes=[list(x) for x in H_STACK_SHAPES],
                                    axis="-ndim..ndim-1 (Stack: != time axis)", dtype=list(H_DTYPES),
                                    in_place=[False, True])),
            replay=lambda case: _replay_history(case, seed, tier),
            chunk=1, kind="explore"),
        core.SubCheck(
            "pad_modes", _pm_points(), lambda p: _eval_pad_modes(p, seed),
            "every documented FORM of pad_mode.  Deltas at shapes %r x {float64,int16}: axis x window {1,2} x "
            "pad_mode in %r (named modes, keyword variants reflect_type / stat_length, callables: the numpy.pad "
            "documentation's pad_with with and without padder=, a data-dependent one in that style, one safe for "
            "zero widths) x num_deltas {1,2} x concatenate x target_axis {0,-1}; Stack at T in %r frames as (T,2), "
            "(2,T), (T,2,2), (2,T,3) x {float64,int16}: num_vectors 1..5 x feature axis x pad_mode in %r (callables "
            "safe for zero widths only: numpy.pad calls them along every axis).  Reference: the rule applied to one "
            "WHOLE vector along the filtered / time axis at a time (Stack: extended on the right to the next multiple "
            "of num_vectors, then stacked); non-trivial = Deltas: every evaluation; Stack: padding with more than "
            "num_vectors frames and an incomplete final run" % (
                [list(x) for x in PM_DELTAS_SHAPES], list(PM_DELTAS_MODES), list(PM_STACK_T),
                [str(m) for m in PM_STACK_MODES]),
            axes=dict(deltas_shapes=[list(x) for x in PM_DELTAS_SHAPES], deltas_modes=list(PM_DELTAS_MODES),
                      stack_T=list(PM_STACK_T), stack_num_vectors=list(PM_STACK_NV),
                      stack_modes=[str(m) for m in PM_STACK_MODES], dtype=list(PM_DTYPES)),
            replay=lambda case: (_replay_deltas if case["proc"] == "Deltas" else _replay_stack)(case, seed)),
        core.SubCheck(
            "routes", _rt_points(), lambda p: _eval_routes(p, seed),
            "the object TRAVELS between its constructor and apply(): routes %r (copy.copy, copy.deepcopy, pickle "
            "round trip with the highest protocol / protocol 2, 'used' = one apply() on another tensor first, 'lent' "
            "= a shallow copy was made and used, the object itself goes on), every constructor argument "
            "non-default.  Deltas at shapes %r x {float64,int16} x axis x context_window {1,3}: pad_mode in %r "
            "(every kind of numpy.pad keyword, scalar and (before, after) pair, callables with a keyword) x "
            "num_deltas {1,2} x (concatenate, target_axis) in {(T,0),(T,-ndim),(F,0),(F,-1),(F,-ndim-1)}; Stack at "
            "shapes %r x {float64,int16} x every time_axis (negative too): num_vectors {2,3,4} x feature axis x "
            "pad_mode in %r.  Oracle on every route: the reference model for the as-constructed arguments; a route "
            "that itself raises is skipped; non-trivial = a route other than 'constructed'" % (
                list(ROUTES), [list(x) for x in RT_DELTAS_SHAPES], list(RT_DELTAS_MODES),
                [list(x) for x in RT_STACK_SHAPES], [str(m) for m in RT_STACK_MODES]),
            axes=dict(routes=list(ROUTES), deltas_shapes=[list(x) for x in RT_DELTAS_SHAPES],
                      deltas_modes=list(RT_DELTAS_MODES), stack_shapes=[list(x) for x in RT_STACK_SHAPES],
                      stack_modes=[str(m) for m in RT_STACK_MODES], dtype=list(RT_DTYPES)),
            replay=lambda case: (_replay_deltas if case["proc"] == "Deltas" else _replay_stack)(case, seed),
            chunk=1),
        core.SubCheck(
            "refusals", _refusal_configs(), lambda c: _eval_refusals(c, seed),
            "ONE object per configuration, every sequence (a, b, c) of apply() calls with a, b from the float64 / "
            "non-negative-axis letters, at least one of them OUTSIDE the property's domain for the configuration "
            "(Stack: feature axis == time axis, 1-D tensor, time_axis / axis the tensor does not have, numpy.pad "
            "refusing the keywords where padding is needed; Deltas: target_axis the tensor does not have, empty "
            "filtered axis; both: 0-d tensor, a list), and c any letter inside it (shapes of 1..4 dimensions x "
            "every axis value x (float64, copy) / (int16, in_place)).  Not judged: what a call outside the domain "
            "does.  Judged: every call inside the domain after one outside it equals a fresh object's result "
            "(bit-identical, else the reference model), and the public attributes of the object read after every "
            "call what they read after construction; non-trivial = every sequence",
            axes=dict(stack_config=dict(num_vectors=[2, 3], time_axis=[0, 1, -1, -2, -3],
                                        pad_mode=["None", "edge", "edge + constant_values (numpy.pad refuses)"]),
                      deltas_config=dict(concatenate=[True, False], target_axis=[-1, 0, 2, -3],
                                         rest=["num_deltas 1, window 2, reflect", "num_deltas 2, window 1, edge"]),
                      stack_shapes=[list(x) for x in RF_STACK_SHAPES] + [[], [3], "list"],
                      deltas_shapes=[list(x) for x in RF_DELTAS_SHAPES] + [[], "list"]),
            replay=lambda case: _replay_any(case, seed, tier), chunk=1, kind="explore"),
    ]
