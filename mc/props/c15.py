"""C15 - Deltas and Stack produce the documented layout and values (engine L).

Every point of a finite lattice (tensor shape x dtype, inner loops over axes, context
windows, padding modes, num_deltas, target_axis, concatenate / num_vectors, time_axis,
pad_mode, in_place) is run through the real `apply` and through mc/refs/post.py (Kaldi
delta recursion and stacking written with explicit loops and explicit edge extension).
"""
import itertools

import numpy as np

from .. import computers, core, sig
from ..refs import post as ref

LEVEL = "exploration"
ASSUMPTIONS = [
    "sample values: one generic tensor per (shape, dtype) from mc/sig.py (integers: rounded "
    "40x scaled values); structure (shapes, axes, parameters) is what is enumerated",
    "padding modes are the named numpy.pad modes edge/constant/reflect/symmetric/wrap/mean/"
    "maximum/minimum/linear_ramp with their default or one explicit keyword; callables are "
    "not enumerated",
    "float64 intermediate then cast to the input dtype: integer results may differ by one unit "
    "where the exact value is an integer (summation order), float32 by 2 ulp",
]

DTYPES = ("float64", "float32", "int32", "int16")
MODES_FULL = ("edge", "constant", "reflect", "wrap", "symmetric", "constant:1.5", "mean",
              "maximum", "minimum", "linear_ramp", "linear_ramp:2")
MODES_QUICK = ("edge", "constant", "reflect", "wrap", "symmetric", "constant:1.5", "mean",
               "linear_ramp:2")


def _mode(m):
    """JSON-able mode -> (numpy mode name, kwargs for np.pad, kwargs for the reference)"""
    if ":" in m:
        name, v = m.split(":")
        v = float(v)
        k = "constant_values" if name == "constant" else "end_values"
        return name, {k: v}, {k: v}
    return m, {}, {}


def _kindof(dtype):
    return "int" if dtype.startswith("int") else dtype


def _data(seed, shape, dtype):
    n = int(np.prod(shape))
    x = sig.signal(seed, n).reshape(shape)
    if dtype.startswith("int"):
        x = np.round(x * 40.0)
    return x.astype(dtype)


def _shapes(tier, min_ndim=1):
    ext = (0, 1, 2, 3, 5)
    out = []
    for nd in (1, 2, 3):
        if nd < min_ndim:
            continue
        for s in itertools.product(ext, repeat=nd):
            if tier == "quick" and nd == 3 and 5 in s and s not in _QUICK_5:
                continue
            out.append(list(s))
    return out


_QUICK_5 = set([(5, 2, 3), (2, 5, 1), (1, 3, 5), (5, 0, 2), (3, 5, 2), (5, 5, 1), (2, 2, 5), (0, 5, 3),
                (5, 1, 5)])


def _close(got, f64, dtype):
    """got: array in `dtype`; f64: the exact (float64) reference before the final cast.
    Returns a boolean array of acceptable entries."""
    if dtype == "float64":
        return np.abs(got - f64) <= 1e-12 * (1.0 + np.abs(f64))
    if dtype == "float32":
        w = f64.astype(np.float32).astype(np.float64)
        return np.abs(got.astype(np.float64) - w) <= 4e-7 * np.abs(w) + 1e-12
    w = f64.astype(dtype)  # truncation toward zero, as the implementation documents (cast back)
    g = got.astype(np.int64)
    exact = g == w.astype(np.int64)
    near_int = np.abs(f64 - np.round(f64)) <= 1e-9
    return exact | (near_int & (np.abs(g - np.round(f64).astype(np.int64)) <= 1))


# ------------------------------------------------------------------ Deltas


def _deltas_one(x, pristine, dtype, axis, window, mode, nd, concat, ta, in_place, orders, tags0):
    """one real Deltas.apply call against the reference orders (float64 arrays)"""
    from pydrobert.speech import post

    name, padkw, _ = _mode(mode)
    tags = dict(tags0, concatenate=bool(concat), edge_mode=bool(name == "edge"))
    case = dict(proc="Deltas", shape=list(x.shape), dtype=dtype, axis=axis, window=window,
                mode=mode, num_deltas=nd, concatenate=bool(concat), target_axis=ta,
                in_place=bool(in_place))
    viol = []
    r = computers.call(lambda: post.Deltas(nd, target_axis=ta, concatenate=concat,
                                           context_window=window, pad_mode=name, **padkw))
    if r[0] != "ok":
        return [core.violation(dict(tags, what="init_exception", exc=r[1]),
                               "Deltas(...) raised %s: %s" % (r[1], r[2]), case)], None
    arg = x if not in_place else np.array(x, copy=True)
    r = computers.call(r[1].apply, arg, axis, in_place)
    if r[0] != "ok":
        return [core.violation(dict(tags, what="exception", exc=r[1]),
                               "apply raised %s: %s" % (r[1], r[2]), case)], None
    got = r[1]
    f64 = ref.deltas_layout(orders[:nd + 1], ta, concat)
    if not isinstance(got, np.ndarray) or got.shape != f64.shape:
        return [core.violation(dict(tags, what="shape"),
                               "result shape %r, documented %r" % (getattr(got, "shape", None), f64.shape),
                               case)], None
    if got.dtype != x.dtype:
        viol.append(core.violation(dict(tags, what="dtype"),
                                   "result dtype %s, input dtype %s" % (got.dtype, x.dtype), case))
    elif got.size:
        ok = _close(got, f64, dtype)
        # the leading block is the input itself: exact
        first = ref.deltas_layout([np.ones(x.shape, bool)] + [np.zeros(x.shape, bool)] * nd, ta, concat)
        exact_in = got[first] == f64[first].astype(dtype)
        if not np.all(exact_in):
            viol.append(core.violation(dict(tags, what="input_block"),
                                       "the leading block of the result is not the input", case))
        elif not np.all(ok):
            bad = np.argwhere(~ok)[0]
            viol.append(core.violation(
                dict(tags, what="values"),
                "result%s = %r, reference %r (float64 before the cast); %d of %d entries differ" % (
                    bad.tolist(), got[tuple(bad)].item(), float(f64[tuple(bad)]), int((~ok).sum()),
                    ok.size), case))
    if not in_place and not np.array_equal(x, pristine):
        viol.append(core.violation(dict(tags, what="input_modified"),
                                   "apply(in_place=False) changed its input", case))
    return viol, (bool(concat), nd, bool(got.size), bool(in_place))


def _target_axes(ndim, concat):
    return list(range(-ndim, ndim)) if concat else list(range(-(ndim + 1), ndim + 1))


def _eval_deltas(pt, seed, tier):
    shape, dtype = tuple(pt[0]), pt[1]
    ndim = len(shape)
    x = sig.ro(_data(seed, shape, dtype))
    pristine = np.array(x, copy=True)
    modes = MODES_QUICK if tier == "quick" else MODES_FULL
    viol, evals, nontriv, obs = [], 0, 0, set()
    skipped = 0
    tags0 = dict(proc="Deltas", dtype_kind=_kindof(dtype))
    for axis in range(-ndim, ndim):
        n = shape[axis]
        empty = int(np.prod(shape)) == 0
        if n == 0:
            # empty FILTERED axis: outside the property's domain for num_deltas > 0; only
            # num_deltas == 0 (no filtering at all) is checked
            combos = [(2, "edge", (0,))]
            skipped += 1
        elif empty:
            combos = [(2, "edge", (0, 1, 2, 3)), (1, "reflect", (0, 2))]
        elif axis < 0 and tier == "quick":
            combos = [(2, "edge", (0, 1, 2, 3)), (3, "reflect", (0, 1, 2, 3))]
        else:
            combos = [(w, m, (0, 1, 2, 3)) for w in (1, 2, 3) for m in modes]
        for window, mode, nds in combos:
            _, _, refkw = _mode(mode)
            orders = ref.delta_orders(x, max(nds), window, axis, _mode(mode)[0], **refkw)
            for nd in nds:
                for concat in (True, False):
                    for ta in _target_axes(ndim, concat):
                        ips = (False, True) if ta == -1 else (False,)
                        for ip in ips:
                            v, o = _deltas_one(x, pristine, dtype, axis, window, mode, nd, concat,
                                               ta, ip, orders, tags0)
                            evals += 1
                            viol.extend(v)
                            if o is not None:
                                obs.add(o)
                                if o[2] and nd > 0:
                                    nontriv += 1
                            if len(viol) >= 40:
                                return core.result(viol, evals=evals, nontrivial_count=nontriv,
                                                   obs=sorted(map(str, obs)))
    return core.result(viol, evals=evals, nontrivial_count=nontriv, obs=sorted(map(str, obs)), obs_is_set=True,
                       skipped=skipped or None,
                       sample=dict(shape=list(shape), dtype=dtype, evaluations=evals,
                                   inner="axis x window x pad_mode x num_deltas x concatenate x "
                                         "target_axis (x in_place at target_axis=-1)"))


def _replay_deltas(case, seed):
    shape, dtype = tuple(case["shape"]), case["dtype"]
    x = sig.ro(_data(seed, shape, dtype))
    name, _, refkw = _mode(case["mode"])
    orders = ref.delta_orders(x, case["num_deltas"], case["window"], case["axis"], name, **refkw)
    v, _ = _deltas_one(x, np.array(x, copy=True), dtype, case["axis"], case["window"], case["mode"],
                       case["num_deltas"], case["concatenate"], case["target_axis"],
                       case["in_place"], orders, dict(proc="Deltas", dtype_kind=_kindof(dtype)))
    return core.result(v)


# ------------------------------------------------------------------ Stack

STACK_PADS = (None, "edge", "constant", "constant:7")


def _stack_one(x, pristine, dtype, nv, time_axis, axis, pad, in_place, tags0):
    from pydrobert.speech import post

    ndim = x.ndim
    if pad is None:
        name, padkw, cv = None, {}, 0
    else:
        name, padkw, _ = _mode(pad)
        cv = padkw.get("constant_values", 0)
    T = x.shape[time_axis]
    tags = dict(tags0, pad_mode=name, path="2d" if ndim == 2 else "nd",
                incomplete_run=bool(T % nv), short=bool(T < nv))
    case = dict(proc="Stack", shape=list(x.shape), dtype=dtype, num_vectors=nv, time_axis=time_axis,
                axis=axis, pad=pad, in_place=bool(in_place))
    r = computers.call(lambda: post.Stack(nv, time_axis=time_axis, pad_mode=name, **padkw))
    if r[0] != "ok":
        return [core.violation(dict(tags, what="init_exception", exc=r[1]),
                               "Stack(...) raised %s: %s" % (r[1], r[2]), case)], None, None
    arg = x if not in_place else np.array(x, copy=True)
    r = computers.call(r[1].apply, arg, axis, in_place)
    if r[0] != "ok":
        return [core.violation(dict(tags, what="exception", exc=r[1]),
                               "apply raised %s: %s" % (r[1], r[2]), case)], None, None
    got = r[1]
    cvd = np.array(cv).astype(dtype).item()
    want = ref.stack_apply(x, nv, time_axis, axis, name, cvd)
    viol = []
    if not isinstance(got, np.ndarray) or got.shape != want.shape:
        return [core.violation(dict(tags, what="shape"),
                               "result shape %r, documented %r" % (getattr(got, "shape", None), want.shape),
                               case)], None, None
    if got.dtype != x.dtype:
        viol.append(core.violation(dict(tags, what="dtype"),
                                   "result dtype %s, input dtype %s" % (got.dtype, x.dtype), case))
    elif not np.array_equal(got, want):
        bad = np.argwhere(got != want)[0]
        viol.append(core.violation(
            dict(tags, what="values"),
            "result%s = %r, reference %r; %d entries differ" % (
                bad.tolist(), got[tuple(bad)].item(), want[tuple(bad)].item(), int((got != want).sum())),
            case))
    if not in_place and not np.array_equal(x, pristine):
        viol.append(core.violation(dict(tags, what="input_modified"),
                                   "apply(in_place=False) changed its input", case))
    return viol, (bool(got.size), bool(T % nv), T < nv, name is not None), got


def _eval_stack(pt, seed, tier):
    shape, dtype = tuple(pt[0]), pt[1]
    ndim = len(shape)
    x = sig.ro(_data(seed, shape, dtype))
    pristine = np.array(x, copy=True)
    viol, evals, nontriv, obs = [], 0, 0, set()
    tags0 = dict(proc="Stack", dtype_kind=_kindof(dtype))
    for nv in (1, 2, 3, 4):
        for time_axis in range(-ndim, ndim):
            for axis in range(-ndim, ndim):
                if axis % ndim == time_axis % ndim:
                    continue
                for pad in STACK_PADS:
                    for ip in (False, True):
                        v, o, got = _stack_one(x, pristine, dtype, nv, time_axis, axis, pad, ip, tags0)
                        evals += 1
                        viol.extend(v)
                        if o is not None:
                            obs.add(o)
                            nontriv += int(o[0] and nv > 1)
                        if ndim == 2 and got is not None and not v:
                            # the 2-D fast path and the N-D path must agree: same data with a
                            # singleton axis appended / prepended
                            for where in (2, 0):
                                x3 = sig.ro(np.expand_dims(x, where))
                                sh = 1 if where == 0 else 0
                                t3, a3 = time_axis % 2 + sh, axis % 2 + sh
                                v3, _, got3 = _stack_one(x3, np.array(x3, copy=True), dtype, nv, t3,
                                                         a3, pad, ip, tags0)
                                evals += 1
                                viol.extend(v3)
                                if got3 is not None and not v3 and not np.array_equal(
                                        np.squeeze(got3, where), got):
                                    viol.append(core.violation(
                                        dict(tags0, what="paths_disagree"),
                                        "2-D result differs from the N-D result on the same data",
                                        dict(proc="Stack", shape=list(x3.shape), dtype=dtype,
                                             num_vectors=nv, time_axis=t3, axis=a3, pad=pad,
                                             in_place=ip)))
                        if len(viol) >= 40:
                            return core.result(viol, evals=evals, nontrivial_count=nontriv,
                                               obs=sorted(map(str, obs)))
    return core.result(viol, evals=evals, nontrivial_count=nontriv, obs=sorted(map(str, obs)),
                       obs_is_set=True,
                       sample=dict(shape=list(shape), dtype=dtype, evaluations=evals,
                                   inner="num_vectors 1..4 x time_axis x axis x pad_mode x in_place "
                                         "(+ singleton-axis N-D twin for 2-D inputs)"))


def _replay_stack(case, seed):
    shape, dtype = tuple(case["shape"]), case["dtype"]
    x = sig.ro(_data(seed, shape, dtype))
    v, _, got = _stack_one(x, np.array(x, copy=True), dtype, case["num_vectors"], case["time_axis"],
                           case["axis"], case["pad"], case["in_place"],
                           dict(proc="Stack", dtype_kind=_kindof(dtype)))
    return core.result(v)


def subchecks(tier, seed):
    dpts = [(s, d) for s in _shapes(tier) for d in DTYPES]
    spts = [(s, d) for s in _shapes(tier, 2) for d in DTYPES]
    modes = MODES_QUICK if tier == "quick" else MODES_FULL
    return [
        core.SubCheck(
            "deltas", dpts, lambda p: _eval_deltas(p, seed, tier),
            "real Deltas.apply vs explicit-loop Kaldi recursion at every (shape, dtype); inner loop "
            "axis x context_window x pad_mode x num_deltas x concatenate x target_axis x in_place; "
            "non-trivial = num_deltas > 0 and a non-empty tensor",
            axes=dict(shape="all shapes with <= 3 dims, extents in {0,1,2,3,5}" +
                            (" (3-D shapes containing 5: a fixed subset)" if tier == "quick" else ""),
                      dtype=list(DTYPES), axis="-ndim..ndim-1", num_deltas=[0, 1, 2, 3],
                      context_window=[1, 2, 3], pad_mode=list(modes), concatenate=[True, False],
                      target_axis="every valid value, negative too",
                      pruning="empty filtered axis: num_deltas=0 only; empty tensors and (quick) "
                              "negative axis aliases: two (window, mode) pairs"),
            replay=lambda case: _replay_deltas(case, seed), chunk=4),
        core.SubCheck(
            "stack", spts, lambda p: _eval_stack(p, seed, tier),
            "real Stack.apply vs explicit-loop stacking at every (shape, dtype); inner loop "
            "num_vectors x time_axis x axis x pad_mode x in_place, 2-D inputs also as 3-D with a "
            "singleton axis; non-trivial = num_vectors > 1 and a non-empty result",
            axes=dict(shape="all 2-D and 3-D shapes, extents in {0,1,2,3,5}" +
                            (" (3-D shapes containing 5: a fixed subset)" if tier == "quick" else ""),
                      dtype=list(DTYPES),
                      num_vectors=[1, 2, 3, 4], time_axis="-ndim..ndim-1", axis="-ndim..ndim-1 (!= time)",
                      pad_mode=[str(p) for p in STACK_PADS], in_place=[False, True]),
            replay=lambda case: _replay_stack(case, seed), chunk=4),
    ]
