"""C16 - Standardize normalises with exactly the statistics it was given.

Engine E (sub-check accumulate_bfs): breadth-first search over ALL histories of accumulate
calls on one real Standardize.  A data set of n integer-valued vectors (all sums and squares
exact in float64) is split in every possible way: from every state, accumulate(piece) for
every non-empty subset of the vectors not yet accumulated, each presented as a single vector,
a 2-D tensor along axis -1 / 1 / 0 / -2 (transposed), a 3-D tensor, in several dtypes.  The
real object is deep-copied per transition; the model of a state is just the set of vectors
accumulated.  After EVERY transition apply() is observed for a set of probe tensors and
compared with (x - mean) / std computed directly (two-pass) from the model's vectors; states
are merged on the canonical form of the real object, and a merge of two histories whose models
disagree is reported.  Every ordered set partition of the data set is a path of the search.

Engine E (sub-check call_histories): apply() calls are letters of the alphabet too - every
interleaving of apply(vector | single-vector tensor | tensor) with accumulate(vector | tensor)
and refused calls on ONE instance, merged search to a depth bound plus an un-merged enumeration
on new objects (see the comment block above _Hist).

Engine E (sub-check instances): up to two LIVE instances and two statistics files under every
history of load / new / accumulate / save, re-executed from scratch (no deep copies, which would
sever aliasing between instances): an instance's transform depends on ITS vectors only.

Engine L (sub-check mismatch): every mismatching length (0, 1 = broadcastable, F-1, F+1, F+2, 2F)
at every entry point raises ValueError and leaves the statistics alone.

Engine L (sub-checks local, global_apply): local standardisation and apply() with given
statistics over tensor shapes x axes x dtypes x norm_var x in_place, and the ValueError on a
mismatching feature dimension.
"""
import copy
import itertools
import os
import shutil
import tempfile
import warnings

import numpy as np

from .. import computers, core, explorer, sig
from ..refs import post as ref

LEVEL = "model_checking"
ASSUMPTIONS = [
    "accumulate_bfs: data sets are n integer-valued vectors (n = 5, one configuration 6 quick; 6..8 thorough; F in {1,3} "
    "coefficients; mixed-sign, all-negative and large-magnitude variants), so every order of "
    "accumulation yields bit-identical statistics and states merge exactly; probes are generic "
    "real-valued tensors",
    "zero-variance coefficients (a single accumulated vector with norm_var) are outside the "
    "property: values are not compared there, only shape/dtype",
    "local / global_apply: well-separated generic values (any two entries differ by >= 0.8, "
    "magnitudes <= ~40) so that rtol 1e-10 is far above round-off of either formula",
    "call_histories: 8 integer-valued vectors (statistics of equal multisets are bit-identical, so states "
    "merge); 55 letters; merged search to depth 4 (quick) / 5 (thorough) assumes the canonical form (instance, "
    "class and module-level data of pydrobert.speech.post) holds all state, the un-merged enumeration of all "
    "sequences of 3 calls (2 for F=1 in quick) does not; a single vector without statistics: zeros without "
    "norm_var, no value demanded with norm_var (zero variance)",
    "the 'loaded' start state reads a 2 x (F+1) float64 .npy written by the harness (sums and "
    "count in row 0, sums of squares in row 1), as documented for the statistics matrix",
    "call_histories, held results: in the un-merged enumeration every array apply() returned is kept to the "
    "end of the sequence; numpy.shares_memory decides aliasing",
    "instances: 2 instance slots (interchangeable: slot 0 is bound first), 2 paths of one kind (.npy / raw with "
    "force_as='file' / .npz with key 'k'), 6 integer-valued positive vectors, F in {2, 1}; depth 4 (quick) / 5 "
    "(thorough); initial file written by the harness (numpy.save / tofile / savez of the statistics matrix); "
    "every history runs in a directory of its own, so state keyed by file NAME cannot leak from one history "
    "into the next (state keyed otherwise could; replays would then differ and be reported as HARNESS-ERROR)",
    "conditioning: coefficients are offset + spread * (pairwise distinct values of about unit spread) for the "
    "stated (offset, spread) profiles; every variance is >= 1e-5 in absolute terms and >= 1e-9 of the squared "
    "mean (an exactly or nearly zero variance is outside the property); the tolerance grows with mean^2/var "
    "because the property fixes the transform, not the precision of sums and sums of squares",
    "mismatch: a 0-d array is not a feature vector (outside the lattice); lengths {0, 1, F-1, F+1, F+2, 2F}",
]

RTOL = 1e-10


def _post_module_state():
    from pydrobert.speech import post

    out = []
    for name, v in sorted(vars(post).items()):
        if name.startswith("__") or callable(v) or isinstance(v, type(os)):
            continue
        if isinstance(v, (np.ndarray, list, dict, set, int, float, bool)):
            out.append((name, computers.canon_value(v, 1)))
    return tuple(out)


def _canon(obj):
    return (computers.canon_value(obj), computers.class_state(type(obj)), _post_module_state())


def _dataset(seed, n, F, kind):
    """n x F distinct integers (as float64)"""
    r = np.argsort(np.argsort(sig.signal(seed, n * F, offset=16))).astype(np.float64)
    if kind == "mixed":
        d = r * 7.0 - 3.0 * n * F
    elif kind == "negative":
        d = -(r * 5.0 + 11.0)
    elif kind == "positive":
        d = r * 7.0 + 5.0
    else:  # large
        d = r * 1000.0 + 40000.0
    return d.reshape(n, F)


def _separated(seed, shape, offset=0):
    """generic real values, pairwise >= 0.8 apart, centred on 0"""
    n = int(np.prod(shape))
    s = sig.signal(seed, n, offset=17 + offset)
    r = np.argsort(np.argsort(s)).astype(np.float64)
    return ((r - n / 2.0) + 0.1 * np.tanh(s)).reshape(shape)


def _factor(k):
    for a in (2, 3):
        if k % a == 0 and k > a:
            return a, k // a
    return 1, k


def _present(data, idx, pres, F):
    """(array, axis-or-None) for accumulate; data rows idx presented as `pres`"""
    parts = pres.split(":")
    kind = parts[0]
    dtype = parts[2] if len(parts) > 2 else "float64"
    rows = data[list(idx)]
    if kind == "rev":
        rows = rows[::-1]
        kind, parts = "2d", ["2d", "-1"]
    if kind == "vec":
        x = rows[0]
        axis = None if parts[1] == "d" else int(parts[1])
    elif kind == "2d":
        axis = int(parts[1])
        x = rows if axis in (-1, 1) else rows.T
    else:  # 3d
        axis = int(parts[1])
        k = len(idx)
        a, b = _factor(k)
        if parts[1] == "1":
            x = rows.reshape(k, F, 1) if parts[3:4] != ["b"] else rows.T.reshape(1, F, k)
        elif parts[1] == "-1":
            x = rows.reshape(a, b, F)
        elif parts[1] == "0":
            x = rows.T.reshape(F, a, b)
        else:  # -2
            x = np.transpose(rows.reshape(a, b, F), (0, 2, 1))
    x = x.astype(dtype)
    x.setflags(write=False)
    return x, axis


def _presentations(k):
    out = []
    if k == 1:
        out += ["vec:d", "vec:0", "vec:-1", "vec:d:int32", "vec:d:float32"]
    out += ["2d:-1", "2d:1", "2d:0", "2d:-2", "3d:1", "3d:1:float64:b", "3d:-1", "3d:0", "3d:-2",
            "2d:-1:float32", "2d:0:int16", "3d:-1:int64"]
    if k > 1:
        out.append("rev")
    return out


def _exact_stats(data, idx):
    """(count, sums, sums of squares) of the integer-valued rows idx of data, in exact integer
    arithmetic: two multisets of vectors define the same transform iff these agree"""
    F = data.shape[1]
    return (len(idx), tuple(sum(int(data[i, f]) for i in idx) for f in range(F)),
            tuple(sum(int(data[i, f]) ** 2 for i in idx) for f in range(F)))


class Ctx:
    def __init__(self, c, seed):
        self.c = c
        self.n, self.F, self.norm_var = c["n"], c["F"], bool(c["norm_var"])
        self.data = _dataset(seed, self.n, self.F, c["data"])
        if c["data"] == "large":
            self.int16_ok = False
        else:
            self.int16_ok = True
        F = self.F
        p = _separated(seed, (4, F)) * (1.0 if c["data"] != "large" else 300.0)
        if c["data"] == "large":
            p = p + 42000.0
        self.probes = [
            ("vec", sig.ro(p[0]), None),
            ("vec0", sig.ro(p[1]), 0),
            ("2d:-1", sig.ro(p), -1),
            ("2d:0", sig.ro(p.T), 0),
            ("3d:1", sig.ro(p.reshape(2, 2, F).transpose(0, 2, 1)), 1),
            ("3d:-3", sig.ro(p.T.reshape(F, 2, 2)), -3),
            ("2d:1:f32", sig.ro(p.astype(np.float32)), 1),
            ("2d:-2:i32", sig.ro(np.round(p.T).astype(np.int32)), -2),
        ]
        self.pristine = [np.array(x, copy=True) for _, x, _ in self.probes]
        self.bad = {"vec": sig.ro(np.arange(F + 1, dtype=np.float64)),
                    "2d": sig.ro(np.arange(2.0 * (F + 1)).reshape(2, F + 1)),
                    # one coefficient: broadcastable onto any number of coefficients
                    "vec1": sig.ro(np.array([3.0])), "2d1": sig.ro(np.array([[3.0], [-1.0]]))}

    def tags(self, **kw):
        t = dict(norm_var=self.norm_var)
        t.update(kw)
        return t


class St:
    __slots__ = ("obj", "sub")

    def __init__(self, obj, sub):
        self.obj, self.sub = obj, sub


def _expected(ctx, sub):
    return ref.mean_var([ctx.data[i] for i in sub])


def _observe(ctx, obj, sub, where):
    """have_stats and apply() for every probe, against the model's vectors"""
    viol = []
    hs = computers.call(lambda: bool(obj.have_stats))
    if hs[0] != "ok" or hs[1] != (len(sub) > 0):
        viol.append(core.violation(ctx.tags(what="have_stats"),
                                   "have_stats is %r with %d vectors accumulated" % (hs[1:], len(sub))))
    if not sub:
        return viol, 0
    mean, var = _expected(ctx, sub)
    zero_var = bool(np.any(var == 0.0))
    compared = 0
    for (name, x, axis), pristine in zip(ctx.probes, ctx.pristine):
        for in_place in (False, True):
            arg = x if not in_place else np.array(x, copy=True)
            with warnings.catch_warnings():
                warnings.simplefilter("ignore")
                r = computers.call(lambda: obj.apply(arg, in_place=in_place)) if axis is None else \
                    computers.call(obj.apply, arg, axis, in_place)
            tags = ctx.tags(probe=name.split(":")[0].rstrip("0"))
            if r[0] != "ok":
                viol.append(core.violation(dict(tags, what="apply_exception", exc=r[1]),
                                           "%s: apply(%s) raised %s: %s" % (where, name, r[1], r[2])))
                continue
            got = r[1]
            if not isinstance(got, np.ndarray) or got.shape != x.shape:
                viol.append(core.violation(dict(tags, what="apply_shape"),
                                           "%s: apply(%s) has shape %r for input %r" % (
                                               where, name, getattr(got, "shape", None), x.shape)))
                continue
            if got.dtype != np.float64:
                viol.append(core.violation(dict(tags, what="apply_dtype"),
                                           "%s: apply(%s) returned %s, documented float64" % (
                                               where, name, got.dtype)))
                continue
            if not in_place and not np.array_equal(x, pristine):
                viol.append(core.violation(dict(tags, what="input_modified"),
                                           "%s: apply(%s, in_place=False) changed its input" % (where, name)))
            if ctx.norm_var and zero_var:
                continue  # zero variance: the property does not define the result
            want = ref.standardize(pristine, mean, var, 0 if axis is None else axis, ctx.norm_var)
            compared += 1
            err = np.abs(got - want)
            if not np.all(err <= RTOL * (1.0 + np.abs(want))):
                i = np.unravel_index(np.argmax(err), err.shape)
                viol.append(core.violation(
                    dict(tags, what="apply_values"),
                    "%s: apply(%s, in_place=%s)%s = %r; (x-mean)/std of the %d accumulated vectors = %r "
                    "(mean %r, var %r)" % (where, name, in_place, list(map(int, i)), float(got[i]), len(sub),
                                           float(want[i]), mean.tolist(), var.tolist())))
    return viol, compared


def _ops(ctx, s):
    rest = [i for i in range(ctx.n) if i not in s.sub]
    for k in range(1, len(rest) + 1):
        for P in itertools.combinations(rest, k):
            for pres in _presentations(k):
                if pres.endswith("int16") and not ctx.int16_ok:
                    continue
                yield ["acc", list(P), pres]
    if s.sub:
        yield ["bad_acc", "vec"]
        yield ["bad_acc", "2d"]
        yield ["bad_apply", "vec"]
        yield ["bad_apply", "2d"]
        if ctx.F > 1:
            for name in ("bad_acc", "bad_apply"):
                for pres in ("vec1", "2d1"):
                    yield [name, pres]


def _step(ctx, s, op):
    obj = copy.deepcopy(s.obj)
    name = op[0]
    if name == "acc":
        x, axis = _present(ctx.data, op[1], op[2], ctx.F)
        pristine = np.array(x, copy=True)
        r = computers.call(obj.accumulate, x) if axis is None else computers.call(obj.accumulate, x, axis)
        pk = op[2].split(":")[0].replace("rev", "2d")
        if r[0] != "ok":
            return None, [core.violation(
                ctx.tags(what="accumulate_exception", pres=pk, exc=r[1]),
                "accumulate(%s of vectors %s) raised %s: %s" % (op[2], op[1], r[1], r[2]))], ("acc", "exc")
        viol = []
        if not np.array_equal(x, pristine):
            viol.append(core.violation(ctx.tags(what="accumulate_modified_input", pres=pk),
                                       "accumulate(%s) changed its argument" % op[2]))
        sub = tuple(sorted(s.sub + tuple(op[1])))
        v, compared = _observe(ctx, obj, sub, "after %s" % (op,))
        for w in v:
            w["tags"]["pres"] = pk
        viol.extend(v)
        return St(obj, sub), viol, ("acc", len(sub), pk, compared > 0)
    # refusals: a mismatching feature dimension raises ValueError
    bad = ctx.bad[op[1]]
    if name == "bad_acc":
        r = computers.call(obj.accumulate, bad)
    else:
        r = computers.call(obj.apply, bad)
    viol = []
    if not (r[0] == "exc" and r[1] == "ValueError"):
        viol.append(core.violation(
            ctx.tags(what="mismatch_accepted", op=name, pres=op[1]),
            "%s of a tensor with %d coefficients on statistics for %d: %s" % (
                name, bad.shape[-1], ctx.F, "returned" if r[0] == "ok" else "%s: %s" % (r[1], r[2]))))
    return St(obj, s.sub), viol, (name, op[1], r[0])


def _initial(ctx, scratch):
    from pydrobert.speech import post

    if ctx.c["start"] == "empty":
        return St(post.Standardize(norm_var=ctx.norm_var), ())
    # loaded statistics of vectors {0, 1}, written by the harness
    sub = (0, 1)
    stats = np.zeros((2, ctx.F + 1))
    for i in sub:
        for f in range(ctx.F):
            stats[0, f] += ctx.data[i, f]
            stats[1, f] += ctx.data[i, f] * ctx.data[i, f]
        stats[0, ctx.F] += 1
    path = os.path.join(scratch, "start.npy")
    np.save(path, stats)
    return St(post.Standardize(path, norm_var=ctx.norm_var), sub)


def _model_of_hist(ctx, hist):
    sub = (0, 1) if ctx.c["start"] == "loaded" else ()
    for op in hist:
        if op[0] == "acc":
            sub = sub + tuple(op[1])
    return tuple(sorted(sub))


def explore_config(c, seed, replay_ops=None):
    ctx = Ctx(c, seed)
    scratch = tempfile.mkdtemp(prefix="verif-")
    try:
        s0 = _initial(ctx, scratch)
    finally:
        shutil.rmtree(scratch, ignore_errors=True)
    v0, _ = _observe(ctx, s0.obj, s0.sub, "initial state")
    if replay_ops is not None:
        viol = list(v0)
        s = s0
        for op in replay_ops:
            s2, v, _ = _step(ctx, s, op)
            viol.extend(v)
            if s2 is None:
                break
            s = s2
        for v in viol:
            v["case"] = dict(config=c, ops=replay_ops)
        return core.result(viol)

    keys_of_model = {}

    def key(s):
        k = _canon(s.obj)
        keys_of_model.setdefault(s.sub, set()).add(k)
        return k

    def on_merge(rep_hist, s2, h2):
        a = _model_of_hist(ctx, rep_hist)
        if a == s2.sub:
            return []
        if _exact_stats(ctx.data, a) == _exact_stats(ctx.data, s2.sub):
            return []  # different vectors, identical sufficient statistics: the same transform
        return [core.violation(
            ctx.tags(what="merge_mismatch"),
            "histories accumulating vectors %s and %s leave the object in the same state" % (a, s2.sub),
            dict(config=c, ops=list(h2)))]

    st = explorer.bfs(lambda: s0, lambda s: _ops(ctx, s), lambda s, op: _step(ctx, s, op), key,
                      max_states=5000, max_viol=200, on_merge=on_merge)
    viol = list(v0) + st.violations
    for v in viol:
        v["case"] = dict(v.get("case") or {}, config=c)
        v["case"].setdefault("ops", [])
    # first violation per signature is enough from one configuration
    seen, uniq = set(), []
    for v in viol:
        h = core.sig_hash(v["tags"])
        if h not in seen:
            seen.add(h)
            uniq.append(v)
    n_models = len(keys_of_model)
    extra = sum(len(k) - 1 for k in keys_of_model.values())
    full = 2 ** (ctx.n - len(s0.sub))
    return core.result(
        uniq, nontrivial=st.states >= 4, obs=(st.states, len(st.observations)),
        states=st.states, transitions=st.transitions, impl_calls=st.transitions * (1 + 2 * len(ctx.probes)),
        capped=st.capped if (st.capped and not uniq) else
        (None if (uniq or n_models == full) else "only %d of %d subsets reached" % (n_models, full)),
        sample=dict(config=c, states=st.states, transitions=st.transitions, closed=st.closed,
                    max_depth=st.max_depth, subsets_reached=n_models,
                    states_beyond_one_per_subset=extra,
                    distinct_observations=len(st.observations)))


def _configs(tier):
    out = []
    n = 5 if tier == "quick" else 6
    for norm_var in (True, False):
        for data in ("mixed", "negative", "large"):
            for F in (3, 1):
                out.append(dict(n=n, F=F, norm_var=norm_var, data=data, start="empty"))
            out.append(dict(n=n, F=2, norm_var=norm_var, data=data, start="loaded"))
    big = [dict(n=n + 1, F=3, norm_var=True, data="mixed", start="empty")]
    if tier == "thorough":
        big.append(dict(n=7, F=2, norm_var=False, data="negative", start="empty"))
        big.insert(0, dict(n=8, F=2, norm_var=True, data="mixed", start="empty"))
    out = big + out  # longest explorations first (one point = one worker)
    return out


# ------------------------------------------------------------------ engine L


def _same_bits(a, b):
    return a.shape == b.shape and a.dtype == b.dtype and a.tobytes() == b.tobytes()


def _check_apply(obj, x, axis, in_place, want, tags, case, what="values"):
    """x: pristine (read-only) input; the implementation gets a WRITABLE copy, so that a write to
    the caller's array shows as `input_modified` (bit comparison), not as an exception"""
    arg = np.array(x, copy=True)
    with warnings.catch_warnings():
        warnings.simplefilter("ignore")
        r = computers.call(obj.apply, arg, axis, in_place)
    viol = []
    if not in_place and not _same_bits(arg, x):
        viol.append(core.violation(dict(tags, what="input_modified"),
                                   "apply(in_place=False) changed its input", case))
    if r[0] != "ok":
        return viol + [core.violation(dict(tags, what="exception", exc=r[1]),
                                      "apply raised %s: %s" % (r[1], r[2]), case)], None
    got = r[1]
    if not isinstance(got, np.ndarray) or got.shape != x.shape:
        return viol + [core.violation(dict(tags, what="shape"), "result shape %r for input %r" % (
            getattr(got, "shape", None), x.shape), case)], None
    if got.dtype != np.float64:
        return viol + [core.violation(dict(tags, what="dtype"),
                                      "result dtype %s, documented float64" % got.dtype, case)], None
    if want is None:
        return viol, got  # the property does not define the values here
    err = np.abs(got - want)
    if not np.all(err <= RTOL * (1.0 + np.abs(want))):
        i = np.unravel_index(np.argmax(err), err.shape)
        viol.append(core.violation(dict(tags, what=what),
                                   "result%s = %r, direct formula %r" % (
                                       list(map(int, i)), float(got[i]), float(want[i])), case))
    return viol, got


def _check_single(norm_var, x, axis, in_place, tags, case):
    """no statistics and ONE feature vector (a 1-D input, or a tensor whose other axes all have
    length 1): its own mean is the vector itself, so without norm_var the result is all zeros
    (float64, input untouched); with norm_var the variance is zero and the property defines no
    value - raising is accepted, but the input must still be untouched"""
    from pydrobert.speech import post

    arg = np.array(x, copy=True)
    obj = post.Standardize(norm_var=norm_var)
    with warnings.catch_warnings():
        warnings.simplefilter("ignore")
        r = computers.call(obj.apply, arg, axis, in_place)
    tags = dict(tags, single_vector=True)
    viol = []
    if not in_place and not _same_bits(arg, x):
        viol.append(core.violation(dict(tags, what="input_modified"),
                                   "apply(in_place=False) changed its input", case))
    if r[0] != "ok":
        if not norm_var:
            viol.append(core.violation(dict(tags, what="exception", exc=r[1]),
                                       "apply raised %s: %s" % (r[1], r[2]), case))
        return viol, "raised"
    got = r[1]
    if not isinstance(got, np.ndarray) or got.shape != x.shape:
        viol.append(core.violation(dict(tags, what="shape"), "result shape %r for input %r" % (
            getattr(got, "shape", None), x.shape), case))
    elif got.dtype != np.float64:
        viol.append(core.violation(dict(tags, what="dtype"),
                                   "result dtype %s, documented float64" % got.dtype, case))
    elif not norm_var and np.any(got != 0.0):
        viol.append(core.violation(dict(tags, what="values"),
                                   "a single vector minus its own mean is not zero: %r" % got.tolist()[:6], case))
    return viol, "zeros" if not norm_var else "undefined"


def _local_data(seed, shape, dtype):
    x = _separated(seed, shape, offset=len(shape))
    if dtype.startswith("int"):
        x = np.round(x * 3.0)
    return sig.ro(x.astype(dtype))


def _eval_local(pt, seed):
    from pydrobert.speech import post

    shape, dtype, norm_var = tuple(pt[0]), pt[1], bool(pt[2])
    x = _local_data(seed, shape, dtype)
    viol, evals, nontriv, skipped, obs = [], 0, 0, 0, set()
    for axis in range(-len(shape), len(shape)):
        count = int(np.prod(shape)) // shape[axis]
        if count < 2:
            for in_place in (False, True):
                tags = dict(mode="local", norm_var=norm_var, dtype=dtype, ndim=len(shape), in_place=in_place)
                case = dict(mode="local", shape=list(shape), dtype=dtype, norm_var=norm_var, axis=axis,
                            in_place=in_place)
                v, o = _check_single(norm_var, x, axis, in_place, tags, case)
                evals += 1
                nontriv += int(o == "zeros")
                skipped += int(o != "zeros")  # zero variance: values outside the property
                viol.extend(v)
                obs.add(("single", norm_var, in_place, o))
            continue
        mean, var = ref.mean_var(ref.vectors_of(x, axis))
        want = ref.standardize(x, mean, var, axis, norm_var)
        for in_place in (False, True):
            tags = dict(mode="local", norm_var=norm_var, dtype=dtype, ndim=len(shape), in_place=in_place)
            case = dict(mode="local", shape=list(shape), dtype=dtype, norm_var=norm_var, axis=axis,
                        in_place=in_place)
            v, got = _check_apply(post.Standardize(norm_var=norm_var), x, axis, in_place, want, tags, case)
            evals += 1
            nontriv += 1
            viol.extend(v)
            if got is not None and not v:
                other = tuple(a for a in range(len(shape)) if a != axis % len(shape))
                m = got.mean(axis=other)
                s2 = got.var(axis=other)
                if not np.all(np.abs(m) <= 1e-9 * (1.0 + np.abs(mean))):
                    viol.append(core.violation(dict(tags, what="mean_not_zero"),
                                               "per-coefficient means of the result: %r" % m.tolist(), case))
                if norm_var and not np.all(np.abs(s2 - 1.0) <= 1e-9):
                    viol.append(core.violation(dict(tags, what="variance_not_one"),
                                               "per-coefficient variances of the result: %r" % s2.tolist(),
                                               case))
                obs.add((norm_var, in_place, count > 2))
    return core.result(viol, evals=evals, nontrivial_count=nontriv, skipped=skipped or None,
                       obs=sorted(map(str, obs)), obs_is_set=True,
                       sample=dict(shape=list(shape), dtype=dtype, norm_var=norm_var,
                                   inner="axis -ndim..ndim-1 x in_place"))


def _replay_local(case, seed):
    from pydrobert.speech import post

    if case.get("mode") == "global":
        return _replay_global(case, seed)
    if case.get("mode") == "conditioning":
        return _replay_conditioning(case, seed)
    shape, dtype, norm_var, axis = tuple(case["shape"]), case["dtype"], case["norm_var"], case["axis"]
    x = _local_data(seed, shape, dtype)
    if int(np.prod(shape)) // shape[axis] < 2:
        tags = dict(mode="local", norm_var=norm_var, dtype=dtype, ndim=len(shape), in_place=case["in_place"])
        return core.result(_check_single(norm_var, x, axis, case["in_place"], tags, case)[0])
    mean, var = ref.mean_var(ref.vectors_of(x, axis))
    want = ref.standardize(x, mean, var, axis, norm_var)
    tags = dict(mode="local", norm_var=norm_var, dtype=dtype, ndim=len(shape), in_place=case["in_place"])
    v, got = _check_apply(post.Standardize(norm_var=norm_var), x, axis, case["in_place"], want, tags, case)
    if got is not None and not v:
        other = tuple(a for a in range(len(shape)) if a != axis % len(shape))
        if not np.all(np.abs(got.mean(axis=other)) <= 1e-9 * (1.0 + np.abs(mean))):
            v.append(core.violation(dict(tags, what="mean_not_zero"), "means %r" % got.mean(axis=other), case))
        if norm_var and not np.all(np.abs(got.var(axis=other) - 1.0) <= 1e-9):
            v.append(core.violation(dict(tags, what="variance_not_one"), "vars %r" % got.var(axis=other), case))
    return core.result(v)


def _global_obj(seed, F, norm_var):
    from pydrobert.speech import post

    data = _separated(seed, (6, F), offset=9) * 1.5 - 4.0
    obj = post.Standardize(norm_var=norm_var)
    obj.accumulate(sig.ro(data), -1)
    mean, var = ref.mean_var([list(r) for r in data])
    return obj, mean, var


def _global_shapes(F):
    out = [((F,), 0), ((F,), -1)]
    for other in itertools.product((1, 2, 3), repeat=1):
        for pos in range(2):
            s = list(other)
            s.insert(pos, F)
            out += [(tuple(s), pos), (tuple(s), pos - 2)]
    for other in itertools.product((1, 2, 3), repeat=2):
        for pos in range(3):
            s = list(other)
            s.insert(pos, F)
            out += [(tuple(s), pos), (tuple(s), pos - 3)]
    return out


def _global_one(seed, F, norm_var, dtype, shape, axis, in_place, objs=None):
    obj, mean, var = objs or _global_obj(seed, F, norm_var)
    x = _local_data(seed, shape, dtype)
    tags = dict(mode="global", norm_var=norm_var, dtype=dtype, ndim=len(shape), in_place=in_place)
    case = dict(mode="global", F=F, norm_var=norm_var, dtype=dtype, shape=list(shape), axis=axis,
                in_place=in_place)
    if shape[axis] != F:
        with warnings.catch_warnings():
            warnings.simplefilter("ignore")
            r = computers.call(copy.deepcopy(obj).apply, x, axis, in_place)
        if r[0] == "exc" and r[1] == "ValueError":
            return [], "refused"
        return [core.violation(dict(tags, what="mismatch_accepted"),
                               "apply of shape %r along axis %d with statistics for %d coefficients: %s" % (
                                   shape, axis, F, "returned" if r[0] == "ok" else r[1]), case)], "accepted"
    want = ref.standardize(x, mean, var, axis, norm_var)
    v, _ = _check_apply(copy.deepcopy(obj), x, axis, in_place, want, tags, case)
    return v, "applied"


def _eval_global(pt, seed):
    F, norm_var, dtype = pt
    objs = _global_obj(seed, F, norm_var)
    viol, evals, nontriv, obs = [], 0, 0, set()
    shapes = _global_shapes(F) + [(s, a) for s, a in _global_shapes(F + 1)] + \
        ([(s, a) for s, a in _global_shapes(F - 1)] if F > 1 else [])
    done = set()
    for shape, axis in shapes:
        for ax in range(-len(shape), len(shape)):
            if (shape, ax) in done:
                continue
            done.add((shape, ax))
            for in_place in (False, True):
                v, o = _global_one(seed, F, norm_var, dtype, shape, ax, in_place, objs)
                evals += 1
                nontriv += int(o == "applied")
                viol.extend(v)
                obs.add((o, len(shape), in_place))
    return core.result(viol, evals=evals, nontrivial_count=nontriv, obs=sorted(map(str, obs)),
                       obs_is_set=True, sample=dict(F=F, norm_var=norm_var, dtype=dtype,
                                   inner="every 1..3-D shape holding an axis of F-1, F or F+1 "
                                         "coefficients x every axis x in_place"))


def _replay_global(case, seed):
    v, _ = _global_one(seed, case["F"], case["norm_var"], case["dtype"], tuple(case["shape"]),
                       case["axis"], case["in_place"])
    return core.result(v)


# ------------------------------------------------------------------ conditioning lattice (engine L)
#
# "(x - mean)/std per coefficient" for EVERY valid set of statistics, also ill-conditioned ones: coefficients
# whose spread is tiny next to their offset (un-normalised energies: mean 1000, std 2), the reverse (mean ~0,
# std 1000) and small absolute spreads (std 0.01) - every variance clearly non-zero (>= 1e-5 absolute and
# >= 1e-9 of the squared mean; an exactly zero variance is where the property defines no value, and the
# documented zero-variance replacement of the implementation starts at 1e-8 absolute).  Statistics come from
# every route (none = local, one tensor, vector by vector, two tensors, a statistics file) and are applied
# through the vector and the tensor route; every result is compared with the direct two-pass formula with a
# tolerance that scales with the condition number mean^2/var of the coefficient (the property fixes the
# transform, not the precision of the sufficient statistics it is computed from).

# name -> per coefficient (offset, spread)
K_PROFILES = {
    "offset": ((1000.0, 2.0), (-2000.0, 3.0), (1500.0, 4.0), (10.0, 5.0)),
    "offset_hi": ((1.0e4, 3.0), (-3.0e4, 7.0), (1.0e5, 40.0), (0.25, 1.0)),
    "reverse": ((0.5, 300.0), (-1.0e-3, 1.0e3), (0.0, 1.0e4), (2.0, 1.0)),
    "small_spread": ((0.0, 1.0e-2), (1.0e-3, 1.0e-2), (5.0, 1.0e-2), (-3.0, 1.0)),
}
K_N = (6, 12)
K_STATS = ("local", "acc_tensor", "acc_vectors", "acc_split", "loaded")
K_DTYPES = ("float64", "float32")
K_EPS = float(np.finfo(np.float64).eps)


def _k_data(seed, profile, n, dtype, offset=0):
    """n vectors of len(profile) coefficients: offset + spread * (pairwise distinct values of ~unit spread)"""
    prof = K_PROFILES[profile]
    F = len(prof)
    base = _separated(seed, (n, F), offset=30 + offset) / (n * F / 4.0)
    cols = [prof[f][0] + prof[f][1] * base[:, f] for f in range(F)]
    return np.stack(cols, axis=1).astype(dtype)


def _k_tolerance(x, want, mean, var, axis, norm_var):
    """|got - want| allowed: relative error of 1/std from var = E[x^2] - mean^2 (cancellation ~ eps * (1 +
    mean^2/var)) plus the rounding of x * scale - mean * scale, per coefficient along axis"""
    sl = [None] * x.ndim
    sl[axis % x.ndim if x.ndim > 1 else 0] = slice(None)
    sl = tuple(sl)
    std = np.sqrt(var) if norm_var else np.ones_like(var)
    rel = (RTOL + 64.0 * K_EPS * (1.0 + mean ** 2 / var)) if norm_var else np.full(var.shape, RTOL)
    xf = np.abs(np.asarray(x, dtype=np.float64))
    return rel[sl] * np.abs(want) + 16.0 * K_EPS * (xf + np.abs(mean)[sl]) / std[sl] + 1e-300


def _k_object(stats, data, norm_var, scratch):
    """Standardize holding the statistics of the rows of data, provided by route `stats`"""
    from pydrobert.speech import post

    n, F = data.shape
    if stats == "loaded":
        import math

        m = np.zeros((2, F + 1))
        for f in range(F):
            col = [float(v) for v in data[:, f]]
            m[0, f] = math.fsum(col)
            m[1, f] = math.fsum(v * v for v in col)
        m[0, F] = n
        path = os.path.join(scratch, "stats.npy")
        np.save(path, m)
        return post.Standardize(path, norm_var=norm_var)
    obj = post.Standardize(norm_var=norm_var)
    if stats == "acc_tensor":
        obj.accumulate(sig.ro(data), -1)
    elif stats == "acc_vectors":
        for row in data:
            obj.accumulate(sig.ro(row))
    elif stats == "acc_split":
        h = n // 2
        obj.accumulate(sig.ro(data[:h].T), 0)                      # (F, h) along axis 0
        obj.accumulate(sig.ro(data[h:].reshape(n - h, 1, F)), 2)   # 3-D along axis 2
    elif stats != "local":
        raise core.HarnessError(stats)
    return obj


def _k_probes(stats, data, other):
    """(name, route, array, axis) to apply.  local: the tensor IS the data set (every presentation of it);
    otherwise the data set and other vectors of the same profile, through the vector and the tensor route"""
    n, F = data.shape
    a, b = _factor(n)
    out = [("2d:-1", "tensor", data, -1), ("2d:0", "tensor", data.T, 0),
           ("3d:1", "tensor", np.transpose(data.reshape(a, b, F), (0, 2, 1)), 1),
           ("3d:-1", "tensor", data.reshape(a, b, F), -1)]
    if stats != "local":
        out += [("vec:%d" % i, "vector", data[i], -1) for i in (0, n - 1)]
        out += [("vec:other", "vector", other[0], -1), ("1xF", "tensor", other[1:2], -1),
                ("Fx1", "tensor", other[2:3].T, 0), ("other:2d", "tensor", other, 1)]
    return out


def _k_one(seed, profile, n, dtype, norm_var, stats, probe, in_place):
    data = _k_data(seed, profile, n, dtype)
    other = _k_data(seed, profile, 4, dtype, offset=1)
    mean, var = ref.mean_var([[float(v) for v in row] for row in data])
    F = data.shape[1]
    cond = mean ** 2 / var
    if not (np.all(var >= 1e-5) and np.all(cond <= 1e9)):
        raise core.HarnessError("conditioning alphabet left its stated range: var %r cond %r" % (var, cond))
    scratch = tempfile.mkdtemp(prefix="verif-")
    try:
        with warnings.catch_warnings():
            warnings.simplefilter("ignore")
            obj = _k_object(stats, data, norm_var, scratch)
    finally:
        shutil.rmtree(scratch, ignore_errors=True)
    name, route, x, axis = [q for q in _k_probes(stats, data, other) if q[0] == probe][0]
    x = sig.ro(x)
    want = ref.standardize(x, mean, var, axis, norm_var)
    tags = dict(mode="conditioning", profile=profile, stats=stats, route=route, norm_var=norm_var,
                in_place=in_place)
    case = dict(mode="conditioning", profile=profile, n=n, dtype=dtype, norm_var=norm_var, stats=stats,
                probe=probe, in_place=in_place)
    arg = np.array(x, copy=True)
    with warnings.catch_warnings():
        warnings.simplefilter("ignore")
        r = computers.call(obj.apply, arg, axis, in_place)
    viol = []
    if not in_place and not _same_bits(arg, x):
        viol.append(core.violation(dict(tags, what="input_modified"), "apply(in_place=False) changed its input",
                                   case))
    if r[0] != "ok":
        return viol + [core.violation(dict(tags, what="exception", exc=r[1]),
                                      "apply raised %s: %s" % (r[1], r[2]), case)], "exc"
    got = r[1]
    if not isinstance(got, np.ndarray) or got.shape != x.shape:
        return viol + [core.violation(dict(tags, what="shape"), "result shape %r for input %r" % (
            getattr(got, "shape", None), x.shape), case)], "shape"
    if got.dtype != np.float64:
        return viol + [core.violation(dict(tags, what="dtype"), "result dtype %s, documented float64" % got.dtype,
                                      case)], "dtype"
    err = np.abs(got - want)
    tol = _k_tolerance(x, want, mean, var, axis, norm_var)
    if not np.all(err <= tol):
        i = np.unravel_index(np.argmax(err / tol), err.shape)
        f = i[axis % x.ndim] if x.ndim > 1 else i[0]
        viol.append(core.violation(
            dict(tags, what="values"),
            "%s statistics of %d %s vectors, profile %s, apply(%s)%s = %r, direct formula (x - mean)/std = %r "
            "[coefficient %d: mean %r, std %r, mean^2/var %.3g; allowed error %.3g]" % (
                stats, n, dtype, profile, name, list(map(int, i)), float(got[i]), float(want[i]), int(f),
                float(mean[f]), float(np.sqrt(var[f])), float(cond[f]), float(tol[i])), case))
    return viol, "ok"


def _eval_conditioning(pt, seed):
    profile, n, dtype, norm_var, stats = pt
    data = _k_data(seed, profile, n, dtype)
    other = _k_data(seed, profile, 4, dtype, offset=1)
    viol, evals, obs = [], 0, set()
    for name, route, _, _ in _k_probes(stats, data, other):
        for in_place in (False, True):
            v, o = _k_one(seed, profile, n, dtype, bool(norm_var), stats, name, in_place)
            evals += 1
            viol.extend(v)
            obs.add((o, route, in_place))
    return core.result(viol, evals=evals, nontrivial_count=evals, obs=sorted(map(str, obs)), obs_is_set=True,
                       sample=dict(profile=profile, coefficients=[list(c) for c in K_PROFILES[profile]], n=n,
                                   dtype=dtype, norm_var=bool(norm_var), stats=stats,
                                   probes=[q[0] for q in _k_probes(stats, data, other)]))


def _replay_conditioning(case, seed):
    v, _ = _k_one(seed, case["profile"], case["n"], case["dtype"], case["norm_var"], case["stats"],
                  case["probe"], case["in_place"])
    return core.result(v)


# ------------------------------------------------------------------ refusal lattice (engine L)
#
# "a mismatching feature dimension raises ValueError": EVERY mismatching length m != F - the
# broadcastable m = 1, the empty m = 0, F-1, F+1, F+2, 2F - at every entry point (accumulate /
# apply of a vector, of 2-D and 3-D tensors along every axis, positive and negative, other axes
# of extent 1, 2 or F itself), for statistics that were accumulated as vectors, as one tensor, or
# loaded from file.  A refused call must leave the statistics alone: apply() of a probe is
# bit-identical before and after, and accumulating one more valid vector afterwards gives the
# transform of the model's vectors.  Every refused call gets its own object (exact replays).

M_F = (1, 2, 3, 5)
M_ORIGINS = ("vectors", "tensor", "loaded")
M_DTYPES = ("float64", "float32", "int16")


def _m_lengths(F):
    return [m for m in sorted(set([0, 1, F - 1, F + 1, F + 2, 2 * F])) if m >= 0 and m != F]


def _m_class(m, F):
    return ("zero" if m == 0 else "one" if m == 1 else "F-1" if m == F - 1 else "F+1" if m == F + 1 else
            "2F" if m == 2 * F else "other")


def _m_entries(F):
    """[pres, shape, axis] for every way of presenting a coefficient axis of length m"""
    out = []
    for m in _m_lengths(F):
        for axis in (None, 0, -1):
            out.append(["vec", [m], axis])
        for other in (1, 2, F):
            for pos in range(2):
                sh = [other]
                sh.insert(pos, m)
                out += [["t2", sh, pos], ["t2", list(sh), pos - 2]]
        for others in ((1, 1), (2, 1), (1, F), (2, 3)):
            for pos in range(3):
                sh = list(others)
                sh.insert(pos, m)
                out += [["t3", sh, pos], ["t3", list(sh), pos - 3]]
    return out


_M_CASE = [0]


def _m_object(seed, F, norm_var, origin, scratch):
    """(object with the statistics of rows 0..2, data)"""
    from pydrobert.speech import post

    data = _dataset(seed, 4, F, "mixed")
    if origin == "loaded":
        stats = np.zeros((2, F + 1))
        for i in range(3):
            for f in range(F):
                stats[0, f] += data[i, f]
                stats[1, f] += data[i, f] * data[i, f]
            stats[0, F] += 1
        # a file name no earlier case of this process has used: state the implementation keys by
        # file name cannot leak from one case into the next (exact replays)
        _M_CASE[0] += 1
        path = os.path.join(scratch, "m%d.npy" % _M_CASE[0])
        np.save(path, stats)
        try:
            return post.Standardize(path, norm_var=norm_var), data
        finally:
            os.remove(path)
    obj = post.Standardize(norm_var=norm_var)
    if origin == "vectors":
        for i in range(3):
            obj.accumulate(sig.ro(data[i]))
    else:
        obj.accumulate(sig.ro(data[:3]), -1)
    return obj, data


def _m_one(seed, F, norm_var, origin, op, entry, dtype, in_place, scratch):
    pres, shape, axis = entry
    m = shape[0] if pres == "vec" else shape[axis]
    obj, data = _m_object(seed, F, norm_var, origin, scratch)
    probe = sig.ro(_separated(seed, (3, F), offset=70))
    tags = dict(mode="mismatch", op=op, pres="vec" if pres == "vec" else "tensor", length=_m_class(m, F),
                origin=origin)
    case = dict(mode="mismatch", F=F, norm_var=norm_var, origin=origin, op=op, entry=entry, dtype=dtype,
                in_place=in_place)
    n = int(np.prod(shape))
    x = (np.arange(n, dtype=np.float64) * 3.0 - 4.0).reshape(shape).astype(dtype)
    pristine = x.tobytes()
    with warnings.catch_warnings():
        warnings.simplefilter("ignore")
        before = computers.call(obj.apply, np.array(probe, copy=True), -1)
        if before[0] != "ok":
            raise core.HarnessError("apply of a matching probe raised %s: %s" % before[1:])
        fn = obj.accumulate if op == "accumulate" else obj.apply
        if op == "accumulate":
            r = computers.call(fn, x) if axis is None else computers.call(fn, x, axis)
        else:
            r = computers.call(lambda: fn(x, in_place=in_place)) if axis is None else \
                computers.call(fn, x, axis, in_place)
        after = computers.call(obj.apply, np.array(probe, copy=True), -1)
    viol = []
    refused = r[0] == "exc" and r[1] == "ValueError"
    if not refused:
        viol.append(core.violation(
            dict(tags, what="mismatch_accepted"),
            "%s of a %s %s array (axis %r: %d coefficients) on statistics for %d coefficients: %s" % (
                op, dtype, shape, axis, m, F, "returned normally" if r[0] == "ok" else "%s: %s" % (r[1], r[2])),
            case))
    same = after[0] == "ok" and _same_bits(after[1], before[1])
    if refused and not same:
        viol.append(core.violation(
            dict(tags, what="refused_call_changed_statistics"),
            "the refused %s of a %s %s array changed the transform: apply(probe)[0] %r -> %r" % (
                op, dtype, shape, before[1][0].tolist(), after[1][0].tolist() if after[0] == "ok" else after[1:]),
            case))
    if (op == "accumulate" or not in_place) and x.tobytes() != pristine:
        viol.append(core.violation(dict(tags, what="input_modified"),
                                   "the refused %s changed its argument" % op, case))
    if refused and same:
        # one more valid vector: the transform of the four vectors of the model
        with warnings.catch_warnings():
            warnings.simplefilter("ignore")
            r2 = computers.call(obj.accumulate, sig.ro(data[3]))
            got = computers.call(obj.apply, np.array(probe, copy=True), -1)
        mean, var = ref.mean_var([data[i] for i in range(4)])
        want = ref.standardize(probe, mean, var, -1, norm_var)
        if r2[0] != "ok" or got[0] != "ok" or not np.all(np.abs(got[1] - want) <= RTOL * (1.0 + np.abs(want))):
            viol.append(core.violation(
                dict(tags, what="after_refusal_values"),
                "after the refused %s, accumulate of a valid vector and apply: %r, direct formula %r" % (
                    op, got[1][0].tolist() if got[0] == "ok" and r2[0] == "ok" else (r2, got[:2]),
                    want[0].tolist()), case))
    return viol, (op, tags["pres"], tags["length"], r[0] if r[0] == "ok" else r[1], same)


def _eval_mismatch(pt, seed):
    F, norm_var, origin = pt
    scratch = tempfile.mkdtemp(prefix="verif-")
    viol, evals, obs = [], 0, set()
    try:
        for entry in _m_entries(F):
            for dtype in M_DTYPES:
                if dtype != "float64" and entry[0] == "t3":
                    continue  # dtypes are varied on vectors and 2-D tensors
                for op, ips in (("accumulate", (False,)), ("apply", (False, True))):
                    for ip in ips:
                        v, o = _m_one(seed, F, norm_var, origin, op, entry, dtype, ip, scratch)
                        evals += 1
                        viol.extend(v)
                        obs.add(o)
    finally:
        shutil.rmtree(scratch, ignore_errors=True)
    seen, uniq = set(), []
    for v in viol:
        h = core.sig_hash(v["tags"])
        if h not in seen:
            seen.add(h)
            uniq.append(v)
    return core.result(uniq, evals=evals, nontrivial_count=evals, obs=sorted(map(str, obs)), obs_is_set=True,
                       sample=dict(F=F, norm_var=norm_var, origin=origin, lengths=_m_lengths(F),
                                   inner="every presentation of a coefficient axis of every mismatching length "
                                         "x dtype x {accumulate, apply, apply in_place}"))


def _replay_mismatch(case, seed):
    scratch = tempfile.mkdtemp(prefix="verif-")
    try:
        v, _ = _m_one(seed, case["F"], case["norm_var"], case["origin"], case["op"], case["entry"],
                      case["dtype"], case["in_place"], scratch)
    finally:
        shutil.rmtree(scratch, ignore_errors=True)
    return core.result(v)


# ------------------------------------------------------------------ call histories on ONE object
#
# accumulate_bfs observes apply() with a fixed battery of probes after every accumulate.  Here
# apply() calls are LETTERS of the alphabet like the accumulate calls, so every interleaving of
# apply(vector | single-vector tensor | tensor, dtype, in_place) with accumulate(vector | tensor)
# on ONE instance is a history - including apply before anything was accumulated (local
# standardisation) and refused calls (mismatching dimension) in between.
#   (a) explorer.bfs with merging on the canonical object state to a depth bound (integer-valued
#       data: the statistics of equal multisets of vectors are bit-identical);
#   (b) every sequence of H_PLAIN calls on a new object, nothing merged, nothing deep-copied.
# Oracle of every apply: the direct formula over the model's multiset of accumulated vectors
# (mc/refs/post.py); float64; input bit-identical unless in_place; and - the property's "any
# split gives the same transform" - agreement with a FRESH object that accumulated the same
# vectors in one call (this is the only value check where a zero variance leaves the formula
# undefined).

H_ACC = ("vec", "vec:f32", "t2:-1", "t2:0", "t3:1", "t1:-1", "t2:-1:i16")
H_ACC_ROWS = {"vec": (0,), "vec:f32": (1,), "t2:-1": (2, 3, 4), "t2:0": (5, 6), "t3:1": (2, 3, 5, 7),
              "t1:-1": (7,), "t2:-1:i16": (0, 3)}
H_APPLY_KINDS = ("vec", "1xF", "Fx1", "3xF", "Fx3", "2xFx2", "1x1xF")
H_APPLY_DTYPES = ("float64", "float32", "int16")
H_NLETTERS = 7 + 7 * 3 * 2 + 4 + 2


def _h_acc_arg(data, name, F):
    rows = data[list(H_ACC_ROWS[name])]
    if name == "vec":
        x, axis = rows[0], None
    elif name == "vec:f32":
        x, axis = rows[0].astype(np.float32), None
    elif name == "t2:-1":
        x, axis = rows, -1
    elif name == "t2:0":
        x, axis = rows.T, 0
    elif name == "t3:1":
        x, axis = np.transpose(rows.reshape(2, 2, F), (0, 2, 1)), 1
    elif name == "t1:-1":
        x, axis = rows.reshape(1, F), -1
    else:
        x, axis = rows.astype(np.int16), -1
    return sig.ro(np.ascontiguousarray(x)), axis


def _h_apply_arg(seed, kind, dtype, F):
    shape, axis = {"vec": ((F,), None), "1xF": ((1, F), -1), "Fx1": ((F, 1), 0), "3xF": ((3, F), 1),
                   "Fx3": ((F, 3), -2), "2xFx2": ((2, F, 2), 1), "1x1xF": ((1, 1, F), -1)}[kind]
    x = _separated(seed, shape, offset=40 + H_APPLY_KINDS.index(kind))
    if dtype.startswith("int"):
        x = np.round(x * 3.0)
    return sig.ro(x.astype(dtype)), axis


class _Lazy:
    """description of a call, formatted only when a violation is reported"""
    __slots__ = ("a",)

    def __init__(self, *a):
        self.a = a

    def __str__(self):
        hist, rows, L = self.a
        return "call %d on one Standardize (earlier calls %s, vectors accumulated %s): %s" % (
            len(hist) + 1, [list(h) for h in hist], list(rows), list(L))


class _HSt:
    __slots__ = ("obj", "rows", "hist")

    def __init__(self, obj, rows, hist):
        self.obj, self.rows, self.hist = obj, rows, hist


class _Hist:
    def __init__(self, c, seed):
        self.c, self.seed = c, seed
        self.F, self.norm_var = c["F"], bool(c["norm_var"])
        self.data = _dataset(seed, 8, self.F, c["data"])
        F = self.F
        self.acc = dict((n, _h_acc_arg(self.data, n, F)) for n in H_ACC)
        self.app = dict(((k, d), _h_apply_arg(seed, k, d, F)) for k in H_APPLY_KINDS for d in H_APPLY_DTYPES)
        self.bad = {"vec": sig.ro(np.arange(F + 1, dtype=np.float64) - 1.5),
                    "2d": sig.ro(np.arange(2.0 * (F + 1)).reshape(2, F + 1) - 2.5),
                    "vec1": sig.ro(np.array([2.5]))}  # one coefficient: broadcastable
        self.letters = [["acc", n] for n in H_ACC]
        self.letters += [["apply", k, d, ip] for k in H_APPLY_KINDS for d in H_APPLY_DTYPES
                         for ip in (False, True)]
        self.letters += [["bad_acc", "vec"], ["bad_acc", "2d"], ["bad_apply", "vec"], ["bad_apply", "2d"]]
        self.letters += [["bad_acc", "vec1"], ["bad_apply", "vec1"]]
        if len(self.letters) != H_NLETTERS:
            raise core.HarnessError("alphabet size")
        self._want = {}
        self.start_rows = (0, 1) if c["start"] == "pre" else ()

    def make(self):
        from pydrobert.speech import post

        obj = post.Standardize(norm_var=self.norm_var)
        if self.start_rows:
            obj.accumulate(sig.ro(self.data[list(self.start_rows)]), -1)
        return obj

    def valid(self, L, rows):
        # a "mismatching" dimension needs statistics to mismatch with (and one coefficient
        # mismatches only statistics for more than one)
        if L[0].startswith("bad"):
            return len(rows) > 0 and (L[1] != "vec1" or self.F > 1)
        return True

    def tags(self, L, hist, what, rows, **kw):
        def kinds(which):
            ks = set()
            for h in hist:
                if h[0] == which:
                    ks.add("vec" if h[1].startswith("vec") else "tensor")
            return "+".join(sorted(ks)) or "none"
        t = dict(mode="history", norm_var=self.norm_var, what=what, have_stats=bool(rows),
                 earlier_accumulate=kinds("acc"), earlier_apply=kinds("apply"))
        if L[0] == "apply":
            t.update(probe="vec" if L[1] == "vec" else "single_vector_tensor" if L[1] in ("1xF", "Fx1", "1x1xF")
                     else "tensor")
            if what in ("apply_dtype", "input_modified", "apply_exception"):
                t["dtype"] = L[2]
        else:
            t.update(op=L[0], pres=L[1].split(":")[0])
        t.update(kw)
        return t

    def want(self, kind, dtype, rows):
        """(reference values or None, fresh object's result or ('exc', name), defined?)"""
        k = (kind, dtype, rows)
        if k in self._want:
            return self._want[k]
        from pydrobert.speech import post

        x, axis = self.app[(kind, dtype)]
        ax = 0 if axis is None else axis
        count = x.size // x.shape[ax] if x.ndim > 1 else 1
        if rows:
            mean, var = ref.mean_var([self.data[i] for i in rows])
            defined = not (self.norm_var and bool(np.any(var == 0.0)))
            ref_vals = ref.standardize(x, mean, var, ax, self.norm_var) if defined else None
        elif count >= 2:
            mean, var = ref.mean_var(ref.vectors_of(x, ax))
            defined = True
            ref_vals = ref.standardize(x, mean, var, ax, self.norm_var)
        else:
            defined = not self.norm_var
            ref_vals = np.zeros(x.shape) if defined else None
        fresh = post.Standardize(norm_var=self.norm_var)
        if rows:
            fresh.accumulate(sig.ro(self.data[list(rows)]), -1)
        with warnings.catch_warnings():
            warnings.simplefilter("ignore")
            r = computers.call(fresh.apply, np.array(x, copy=True)) if axis is None else \
                computers.call(fresh.apply, np.array(x, copy=True), axis)
        self._want[k] = (ref_vals, r, defined)
        return self._want[k]

    def raw(self, obj, L, rows, held=None):
        """perform letter L without the oracle (prefix of a longer sequence); returns new rows;
        held: list that receives (result, its bits when returned, input, in_place, letter)"""
        with warnings.catch_warnings():
            warnings.simplefilter("ignore")
            if L[0] == "acc":
                x, axis = self.acc[L[1]]
                r = computers.call(obj.accumulate, x) if axis is None else computers.call(obj.accumulate, x, axis)
                return tuple(sorted(rows + H_ACC_ROWS[L[1]])) if r[0] == "ok" else rows
            if L[0] in ("bad_acc", "bad_apply"):
                computers.call(obj.accumulate if L[0] == "bad_acc" else obj.apply,
                               np.array(self.bad[L[1]], copy=True))
                return rows
            x, axis = self.app[(L[1], L[2])]
            arg = np.array(x, copy=True)
            if axis is None:
                r = computers.call(lambda: obj.apply(arg, in_place=L[3]))
            else:
                r = computers.call(obj.apply, arg, axis, L[3])
            if held is not None and r[0] == "ok" and isinstance(r[1], np.ndarray):
                held.append((r[1], (r[1].dtype.str, r[1].shape, r[1].tobytes()), arg, bool(L[3]), L, x))
            return rows

    def held_oracle(self, held, seq):
        """end of a sequence on one object: every array apply() returned is still what it was when it
        was returned, no two of them share memory, one shares memory with an input only if that
        very call was in_place, and the inputs of the other calls are still bit-identical"""
        viol = []
        case = dict(mode="history", config=self.c, ops=[list(l) for l in seq])

        def tags(h, what, **kw):
            t = dict(mode="history", norm_var=self.norm_var, what=what, dtype=h[4][2],
                     probe="vec" if h[4][1] == "vec" else "tensor")
            t.update(kw)
            return t

        for i, h in enumerate(held):
            got, bits, arg, ip, L, x = h
            if (got.dtype.str, got.shape, got.tobytes()) != bits:
                viol.append(core.violation(
                    tags(h, "held_result_changed"),
                    "the array returned by %s was changed by the later calls of the sequence %s" % (
                        list(L), [list(l) for l in seq]), case))
            if not ip and not _same_bits(arg, x):
                viol.append(core.violation(tags(h, "held_input_changed"),
                                           "the input of %s was changed by the end of the sequence %s" % (
                                               list(L), [list(l) for l in seq]), case))
            for j, g in enumerate(held):
                if j > i and np.shares_memory(got, g[0]):
                    viol.append(core.violation(
                        tags(g, "results_share_memory"),
                        "the arrays returned by apply calls %s and %s of the sequence %s share memory" % (
                            list(L), list(g[4]), [list(l) for l in seq]), case))
                if np.shares_memory(got, g[2]) and not (i == j and ip):
                    viol.append(core.violation(
                        tags(h, "result_aliases_input", same_call=bool(i == j)),
                        "the array returned by %s shares memory with the input of %s (sequence %s)" % (
                            list(L), list(g[4]), [list(l) for l in seq]), case))
        return viol

    def call(self, obj, L, rows, hist, held=None):
        """apply letter L to the (used) object; returns (violations, new rows, observation)"""
        case = dict(mode="history", config=self.c)
        where = _Lazy(hist, rows, L)
        viol = []
        if L[0] == "acc":
            x, axis = self.acc[L[1]]
            r = computers.call(obj.accumulate, x) if axis is None else computers.call(obj.accumulate, x, axis)
            if r[0] != "ok":
                return [core.violation(self.tags(L, hist, "accumulate_exception", rows, exc=r[1]),
                                       "%s raised %s: %s" % (where, r[1], r[2]), case)], rows, ("acc", "exc")
            rows = tuple(sorted(rows + H_ACC_ROWS[L[1]]))
            hs = computers.call(lambda: bool(obj.have_stats))
            if hs != ("ok", True):
                viol.append(core.violation(self.tags(L, hist, "have_stats", rows),
                                           "%s: have_stats is %r afterwards" % (where, hs[1:]), case))
            return viol, rows, ("acc", L[1], len(rows) > 4)
        if L[0] in ("bad_acc", "bad_apply"):
            bad = np.array(self.bad[L[1]], copy=True)
            with warnings.catch_warnings():
                warnings.simplefilter("ignore")
                r = computers.call(obj.accumulate if L[0] == "bad_acc" else obj.apply, bad)
            if not (r[0] == "exc" and r[1] == "ValueError"):
                viol.append(core.violation(
                    self.tags(L, hist, "mismatch_accepted", rows),
                    "%s: %d coefficients on statistics for %d: %s" % (
                        where, bad.shape[-1], self.F, "returned" if r[0] == "ok" else "%s: %s" % (r[1], r[2])),
                    case))
            return viol, rows, (L[0], L[1], r[0])
        _, kind, dtype, ip = L
        x, axis = self.app[(kind, dtype)]
        ref_vals, fresh, defined = self.want(kind, dtype, rows)
        arg = np.array(x, copy=True)
        with warnings.catch_warnings():
            warnings.simplefilter("ignore")
            r = computers.call(lambda: obj.apply(arg, in_place=ip)) if axis is None else \
                computers.call(obj.apply, arg, axis, ip)
        if held is not None and r[0] == "ok" and isinstance(r[1], np.ndarray):
            held.append((r[1], (r[1].dtype.str, r[1].shape, r[1].tobytes()), arg, bool(ip), L, x))
        if not ip and not _same_bits(arg, x):
            viol.append(core.violation(self.tags(L, hist, "input_modified", rows),
                                       "%s changed its input" % where, case))
        if r[0] != "ok":
            if defined:
                viol.append(core.violation(self.tags(L, hist, "apply_exception", rows, exc=r[1]),
                                           "%s raised %s: %s" % (where, r[1], r[2]), case))
            elif fresh[0] == "ok":
                viol.append(core.violation(
                    self.tags(L, hist, "split_changes_transform", rows, sub="raises", exc=r[1]),
                    "%s raised %s: %s; an object that accumulated the same vectors in one call returns "
                    "normally" % (where, r[1], r[2]), case))
            return viol, rows, ("apply", kind, "exc", defined)
        got = r[1]
        if not isinstance(got, np.ndarray) or got.shape != x.shape:
            viol.append(core.violation(self.tags(L, hist, "apply_shape", rows),
                                       "%s has shape %r" % (where, getattr(got, "shape", None)), case))
            return viol, rows, ("apply", kind, "shape")
        if got.dtype != np.float64:
            viol.append(core.violation(self.tags(L, hist, "apply_dtype", rows),
                                       "%s returned %s, documented float64" % (where, got.dtype), case))
            return viol, rows, ("apply", kind, "dtype")
        if defined:
            err = np.abs(got - ref_vals)
            if not np.all(err <= RTOL * (1.0 + np.abs(ref_vals))):
                i = np.unravel_index(np.argmax(err), err.shape)
                f = fresh[1] if fresh[0] == "ok" else None
                viol.append(core.violation(
                    self.tags(L, hist, "apply_values", rows),
                    "%s: result%s = %r; direct formula over the accumulated vectors %r; a fresh object that "
                    "accumulated them in one call gives %r" % (
                        where, list(map(int, i)), float(got[i]), float(ref_vals[i]),
                        None if f is None else float(f[i])), case))
        elif fresh[0] == "ok":
            f = fresh[1]
            with np.errstate(invalid="ignore"):
                same = np.all((np.abs(got - f) <= RTOL * (1.0 + np.abs(f))) | (np.isnan(got) & np.isnan(f)) |
                              (got == f))
            if not same:
                viol.append(core.violation(
                    self.tags(L, hist, "split_changes_transform", rows, sub="values"),
                    "%s: %r; an object that accumulated the same vectors in one call gives %r" % (
                        where, got.ravel()[:4].tolist(), f.ravel()[:4].tolist()), case))
        same_bits = fresh[0] == "ok" and _same_bits(got, fresh[1])
        return viol, rows, ("apply", kind, dtype, ip, defined, bool(rows), same_bits)


def _eval_history(c, seed, tier, replay_ops=None):
    H = _Hist(c, seed)
    if replay_ops is not None:
        obj, rows, hist, viol, held = H.make(), H.start_rows, (), [], []
        for L in replay_ops:
            if not H.valid(L, rows):
                raise core.HarnessError("replay: %r is outside the alphabet without statistics" % (L,))
            v, rows, _ = H.call(obj, L, rows, hist, held)
            viol.extend(v)
            hist = hist + (tuple(L),)
        viol.extend(H.held_oracle(held, replay_ops))
        for v in viol:
            v["case"] = dict(mode="history", config=c, ops=replay_ops)
        return core.result(viol)
    depth = c["depth"]
    plain = c["plain"]
    viol, obs = [], set()
    seqs = calls = pruned = 0
    st = None
    if c["part"] == "bfs":
        def ops(s):
            if len(s.hist) >= depth:
                return
            for L in H.letters:
                if H.valid(L, s.rows):
                    yield L

        def step(s, L):
            obj = copy.deepcopy(s.obj)
            v, rows, o = H.call(obj, L, s.rows, s.hist)
            return _HSt(obj, rows, s.hist + (tuple(L),)), v, o

        def rows_of(hist):
            rows = H.start_rows
            for h in hist:
                if h[0] == "acc":
                    rows = rows + H_ACC_ROWS[h[1]]
            return tuple(sorted(rows))

        def on_merge(rep_hist, s2, h2):
            a = rows_of(rep_hist)
            if a == s2.rows:
                return []
            if _exact_stats(H.data, a) == _exact_stats(H.data, s2.rows):
                return []  # different multisets, identical sufficient statistics: the same transform
            return [core.violation(
                dict(mode="history", norm_var=H.norm_var, what="merge_mismatch"),
                "histories accumulating vectors %s and %s leave the object in the same state" % (a, s2.rows),
                dict(mode="history", config=c, ops=[list(h) for h in h2]))]

        st = explorer.bfs(lambda: _HSt(H.make(), H.start_rows, ()), ops, step, lambda s: _canon(s.obj),
                          max_states=20000, max_viol=80, on_merge=on_merge)
        viol = list(st.violations)
        obs = set(st.observations)
    else:
        # every sequence of `plain` calls that starts with letter number c["part"]
        first = H.letters[c["part"]]
        for rest in itertools.product(H.letters, repeat=plain - 1):
            seq = (first,) + rest
            obj, rows, hist = H.make(), H.start_rows, ()
            ok = True
            held = []
            for i, L in enumerate(seq):
                if not H.valid(L, rows):
                    ok = False
                    break
                calls += 1
                if i < plain - 1:  # prefixes are histories of the BFS / of shorter sequences
                    rows = H.raw(obj, L, rows, held)
                else:
                    v, rows, o = H.call(obj, L, rows, hist, held)
                    for w in v:
                        w["case"] = dict(w["case"], ops=[list(l) for l in seq])
                    viol.extend(v)
                    obs.add(o)
                hist = hist + (tuple(L),)
            if ok and len(held) > 1:
                viol.extend(H.held_oracle(held, seq))
            seqs += int(ok)
            pruned += int(not ok)
            if len(viol) >= 80:
                break
    seen, uniq = set(), []
    for v in viol:
        h = core.sig_hash(v["tags"])
        if h not in seen:
            seen.add(h)
            uniq.append(v)
    if st is not None:
        return core.result(
            uniq, nontrivial=st.states >= 4, obs=sorted(map(str, obs)), obs_is_set=True,
            evals=st.transitions, nontrivial_count=st.transitions,
            states=st.states, transitions=st.transitions, impl_calls=st.transitions,
            capped=st.capped if (st.capped and not uniq) else None,
            sample=dict(config=c, letters=len(H.letters), bfs_states=st.states, bfs_transitions=st.transitions,
                        bfs_max_depth=st.max_depth))
    return core.result(uniq, nontrivial=seqs > 0, obs=sorted(map(str, obs)), obs_is_set=True, evals=seqs,
                       nontrivial_count=seqs, impl_calls=calls, skipped=pruned or None,
                       sample=dict(config=c, first=first, plain_sequences=seqs, plain_length=plain,
                                   pruned_invalid_sequences=pruned))


def _history_configs(tier):
    # thorough: the merged search goes one call deeper; the un-merged enumeration of 4 calls over 53
    # letters (7.9e6 sequences per configuration) is beyond the budget, so it is 3 for every F
    depth, plain = (4, 3) if tier == "quick" else (5, 3)
    out = []
    for norm_var in (True, False):
        for F in (3, 1):
            for start in ("empty", "pre"):
                # the un-merged enumeration is one call shorter for the single-coefficient configurations
                base = dict(F=F, norm_var=norm_var, data="mixed", start=start, depth=depth,
                            plain=plain if (F > 1 or tier != "quick") else plain - 1)
                out.append(dict(base, part="bfs"))
                # the un-merged enumeration, sharded by the first letter of the sequence
                out += [dict(base, part=i) for i in range(H_NLETTERS)]
    return out


# ------------------------------------------------------------------ several LIVE instances and files
#
# The searches above follow ONE instance (and deep-copy it per transition, which severs any
# aliasing between objects).  Here up to two live instances and two statistics files are driven
# through EVERY history over
#     load(slot, path) | new(slot) | accumulate(slot, vector | tensor) | save(slot, path)
# up to a depth bound.  Nothing is copied: every history is re-executed from scratch in its own
# scratch directory.  The model knows the multiset of vectors behind every instance and every
# file; at the end of every history (every prefix is a history of its own) apply() of every live
# instance must be the transform of ITS vectors - whatever happened to the other instance or to the
# file it was loaded from afterwards - and a fresh load of every file must be the transform of the
# vectors last saved there.

I_KINDS = ("npy", "raw", "npz")
I_PIECES = {"vec": (2,), "ten": (3, 4, 5)}
I_PATHS = ("P", "Q")


def _i_letters():
    out = []
    for s in (0, 1):
        out += [["load", s, p] for p in I_PATHS]
        out.append(["new", s])
    for s in (0, 1):
        out += [["acc", s, k] for k in ("vec", "ten")]
    for s in (0, 1):
        out += [["save", s, p] for p in I_PATHS]
    return out


I_LETTERS = _i_letters()


def _i_model_step(st, L):
    """st = (slots, files): slots[i] is None (unbound) or the tuple of rows behind the instance,
    files[p] likewise.  Returns the next model state, or None if L is not applicable."""
    slots, files = st
    slots, files = list(slots), dict(files)
    s = L[1]
    if L[0] in ("load", "new"):
        if s == 1 and slots[0] is None:
            return None  # the slots are interchangeable: slot 0 is bound first
        if L[0] == "load":
            if files[L[2]] is None:
                return None
            slots[s] = files[L[2]]
        else:
            slots[s] = ()
    elif L[0] == "acc":
        if slots[s] is None:
            return None
        slots[s] = tuple(sorted(slots[s] + I_PIECES[L[2]]))
    else:
        if not slots[s]:
            return None  # unbound, or nothing accumulated (ValueError: C17's business)
        files[L[2]] = slots[s]
    return (tuple(slots), tuple(sorted(files.items())))


def _i_histories(depth, prefix=()):
    """every applicable history that extends prefix, up to `depth` letters, shortest first"""
    st = ((None, None), (("P", (0, 1)), ("Q", None)))
    for L in prefix:
        st = _i_model_step((st[0], dict(st[1])), L)
        if st is None:
            return
    level = [(tuple(prefix), st)]
    while level:
        nxt = []
        for h, st in level:
            yield h, st
            if len(h) < depth:
                for L in I_LETTERS:
                    st2 = _i_model_step((st[0], dict(st[1])), L)
                    if st2 is not None:
                        nxt.append((h + (L,), st2))
        level = nxt


class _Inst:
    def __init__(self, c, seed):
        self.c, self.seed = c, seed
        self.F, self.norm_var, self.kind = c["F"], bool(c["norm_var"]), c["kind"]
        self.data = _dataset(seed, 6, self.F, "positive")
        self.probe = sig.ro(_separated(seed, (3, self.F), offset=80))
        self.pieces = {"vec": sig.ro(self.data[2]), "ten": sig.ro(self.data[3:6])}
        self._want = {}

    def fname(self, d, p):
        return os.path.join(d, p + {"npy": ".npy", "raw": ".bin", "npz": ".npz"}[self.kind])

    def load_kw(self):
        kw = {"norm_var": self.norm_var}
        if self.kind == "raw":
            kw["force_as"] = "file"
        if self.kind == "npz":
            kw["key"] = "k"
        return kw

    def write_initial(self, d):
        stats = np.zeros((2, self.F + 1))
        for i in (0, 1):
            for f in range(self.F):
                stats[0, f] += self.data[i, f]
                stats[1, f] += self.data[i, f] * self.data[i, f]
            stats[0, self.F] += 1
        path = self.fname(d, "P")
        if self.kind == "npy":
            np.save(path, stats)
        elif self.kind == "raw":
            stats.tofile(path)
        else:
            np.savez(path, k=stats)

    def want(self, rows):
        """(values or None when a zero variance leaves them undefined)"""
        if rows not in self._want:
            mean, var = ref.mean_var([self.data[i] for i in rows])
            if self.norm_var and bool(np.any(var == 0.0)):
                self._want[rows] = None
            else:
                self._want[rows] = ref.standardize(self.probe, mean, var, -1, self.norm_var)
        return self._want[rows]

    def tags(self, hist, what, **kw):
        loads = [L[2] for L in hist if L[0] == "load"]
        t = dict(mode="instances", what=what, kind=self.kind, norm_var=self.norm_var,
                 same_file_loaded_twice=len(loads) != len(set(loads)),
                 accumulate_in_history=any(L[0] == "acc" for L in hist),
                 save_in_history=any(L[0] == "save" for L in hist))
        t.update(kw)
        return t

    def check_apply(self, obj, rows, hist, what, who, case):
        with warnings.catch_warnings():
            warnings.simplefilter("ignore")
            hs = computers.call(lambda: bool(obj.have_stats))
            if hs != ("ok", bool(rows)):
                return [core.violation(self.tags(hist, what, sub="have_stats"),
                                       "%s: have_stats is %r, the model has %d vectors" % (who, hs[1:], len(rows)),
                                       case)], None
            if not rows:
                return [], ("empty",)
            r = computers.call(obj.apply, np.array(self.probe, copy=True), -1)
        if r[0] != "ok":
            return [core.violation(self.tags(hist, what, sub="exception", exc=r[1]),
                                   "%s: apply raised %s: %s" % (who, r[1], r[2]), case)], None
        want = self.want(rows)
        if want is None:
            return [], ("undefined",)
        got = r[1]
        if not isinstance(got, np.ndarray) or got.shape != want.shape or got.dtype != np.float64 or \
                not np.all(np.abs(got - want) <= RTOL * (1.0 + np.abs(want))):
            return [core.violation(
                self.tags(hist, what, sub="values"),
                "%s: apply(probe)[0] = %r; (x-mean)/std of its vectors %s = %r" % (
                    who, np.asarray(got)[0].tolist(), list(rows), want[0].tolist()), case)], None
        return [], ("ok", len(rows))

    def run(self, hist, scratch_root, n):
        """execute one history in a directory of its own; returns (violations, observations)"""
        from pydrobert.speech import post

        d = os.path.join(scratch_root, "h%d" % n)
        os.mkdir(d)
        case = dict(mode="instances", config=self.c, ops=[list(L) for L in hist])
        viol, obs = [], []
        keep = []  # every instance ever made stays alive (no address re-use)
        try:
            self.write_initial(d)
            st = ((None, None), (("P", (0, 1)), ("Q", None)))
            objs = [None, None]
            for i, L in enumerate(hist):
                st2 = _i_model_step((st[0], dict(st[1])), L)
                if st2 is None:
                    raise core.HarnessError("history %r is not applicable at %d" % (hist, i))
                s = L[1]
                with warnings.catch_warnings():
                    warnings.simplefilter("ignore")
                    if L[0] == "load":
                        r = computers.call(lambda: post.Standardize(self.fname(d, L[2]), **self.load_kw()))
                        if r[0] == "ok":
                            objs[s] = r[1]
                            keep.append(r[1])
                    elif L[0] == "new":
                        r = computers.call(lambda: post.Standardize(norm_var=self.norm_var))
                        if r[0] == "ok":
                            objs[s] = r[1]
                            keep.append(r[1])
                    elif L[0] == "acc":
                        r = computers.call(objs[s].accumulate, self.pieces[L[2]], -1)
                    elif self.kind == "npz":
                        r = computers.call(objs[s].save, self.fname(d, L[2]), "k")
                    else:
                        r = computers.call(objs[s].save, self.fname(d, L[2]))
                if r[0] != "ok":
                    viol.append(core.violation(
                        self.tags(hist[:i + 1], "exception", op=L[0], exc=r[1]),
                        "history %s: %s raised %s: %s" % ([list(h) for h in hist[:i]], list(L), r[1], r[2]), case))
                    return viol, obs
                st = st2
            for s in (0, 1):
                if st[0][s] is not None:
                    v, o = self.check_apply(objs[s], st[0][s], hist, "instance_apply",
                                            "after %s, instance %d" % ([list(h) for h in hist], s), case)
                    viol.extend(v)
                    obs.append(("inst", o))
            for p, rows in st[1]:
                if rows is None:
                    continue
                with warnings.catch_warnings():
                    warnings.simplefilter("ignore")
                    r = computers.call(lambda: post.Standardize(self.fname(d, p), **self.load_kw()))
                if r[0] != "ok":
                    viol.append(core.violation(
                        self.tags(hist, "fresh_load", sub="exception", exc=r[1]),
                        "after %s: loading file %s raised %s: %s" % ([list(h) for h in hist], p, r[1], r[2]), case))
                    continue
                keep.append(r[1])
                v, o = self.check_apply(r[1], rows, hist, "fresh_load",
                                        "after %s, a new instance loaded from file %s" % (
                                            [list(h) for h in hist], p), case)
                viol.extend(v)
                obs.append(("file", o))
        finally:
            shutil.rmtree(d, ignore_errors=True)
        return viol, obs


def _eval_instances(c, seed, replay_ops=None):
    I = _Inst(c, seed)
    scratch = tempfile.mkdtemp(prefix="verif-")
    viol, obs = [], set()
    n = hists = calls = 0
    try:
        if replay_ops is not None:
            v, _ = I.run(tuple(replay_ops), scratch, 0)
            return core.result(v)
        if c["prefix"] == "short":
            todo = _i_histories(1)
        else:
            todo = _i_histories(c["depth"], tuple(c["prefix"]))
        for h, _ in todo:
            n += 1
            v, o = I.run(h, scratch, n)
            hists += 1
            calls += len(h)
            viol.extend(v)
            obs.update(o)
            if len(viol) >= 200:
                break
    finally:
        shutil.rmtree(scratch, ignore_errors=True)
    seen, uniq = set(), []
    for v in viol:
        hh = core.sig_hash(v["tags"])
        if hh not in seen:
            seen.add(hh)
            uniq.append(v)
    return core.result(uniq, nontrivial=hists > 0, obs=sorted(map(str, obs)), obs_is_set=True, evals=hists,
                       nontrivial_count=hists, impl_calls=calls,
                       sample=dict(config=c, histories=hists, letters=len(I_LETTERS)))


def _instance_configs(tier):
    depth = 4 if tier == "quick" else 5
    prefixes = [[list(L) for L in h] for h, _ in _i_histories(2) if len(h) == 2]
    out = []
    for kind in I_KINDS:
        for norm_var in (True, False):
            for F in (2, 1):
                base = dict(kind=kind, norm_var=norm_var, F=F, depth=depth)
                out.append(dict(base, prefix="short"))
                out += [dict(base, prefix=p) for p in prefixes]
    return out


def subchecks(tier, seed):
    cs = _configs(tier)
    ext = (1, 2, 3, 4) if tier == "quick" else (1, 2, 3, 4, 6)
    lpts = [(list(s), d, nv) for nd in (1, 2, 3) for s in itertools.product(ext, repeat=nd)
            for d in ("float64", "float32", "int32", "int16") for nv in (True, False)]
    gpts = [(F, nv, d) for F in ((1, 2, 3) if tier == "quick" else (1, 2, 3, 5))
            for nv in (True, False) for d in ("float64", "float32", "int32", "int16")]
    kpts = [(p, n, d, nv, st) for p in K_PROFILES for n in K_N for d in K_DTYPES for nv in (True, False)
            for st in K_STATS]
    return [
        core.SubCheck(
            "accumulate_bfs", cs, lambda c: explore_config(c, seed),
            "BFS to closure over all histories of accumulate(piece) (every non-empty subset of the "
            "remaining vectors x 12-17 presentations) on one real Standardize; apply() of 8 probes x "
            "in_place observed after every transition and compared with the direct formula over the "
            "model's vectors; refusals of mismatching dimensions in every state with statistics",
            axes=dict(n="5 and one configuration with 6 (quick) / 6, 7, 8 (thorough)", F=[1, 2, 3], norm_var=[True, False],
                      data=["mixed", "negative", "large"], start=["empty", "loaded"],
                      presentations=_presentations(1) + ["rev"]),
            replay=lambda case: explore_config(case["config"], seed, replay_ops=case["ops"]),
            chunk=1, kind="explore"),
        core.SubCheck(
            "call_histories", _history_configs(tier), lambda c: _eval_history(c, seed, tier),
            "ONE Standardize per configuration: every history over the alphabet {accumulate x 7 "
            "presentations, apply x 7 shapes x 3 dtypes x in_place, refused accumulate/apply of a "
            "mismatching dimension (F+1 coefficients, and 1 coefficient when F > 1)}: BFS with state merging to the depth bound and every sequence of "
            "`plain` calls on a new object without merging; every apply against the direct formula over "
            "the model's multiset of vectors (local standardisation before any accumulate), float64, input "
            "bit-identical unless in_place, and a fresh object's result where a zero variance leaves the "
            "formula undefined",
            axes=dict(F=[1, 3], norm_var=[True, False], start=["empty", "pre (vectors 0,1 accumulated)"],
                      bfs_depth=4 if tier == "quick" else 5,
                      plain_length="%d (F=3), %d (F=1)" % ((3, 2) if tier == "quick" else (3, 3)),
                      accumulate=list(H_ACC), apply_shape=list(H_APPLY_KINDS), apply_dtype=list(H_APPLY_DTYPES),
                      in_place=[False, True], refused=["bad_acc:vec", "bad_acc:2d", "bad_apply:vec",
                                                       "bad_apply:2d", "bad_acc:vec1 (F>1)",
                                                       "bad_apply:vec1 (F>1)"],
                      held="every apply() result of an un-merged sequence is held to its end: unchanged, no "
                           "memory shared with another result or a foreign input"),
            replay=lambda case: _eval_history(case["config"], seed, tier, replay_ops=case["ops"]),
            chunk=1, kind="explore"),
        core.SubCheck(
            "local", lpts, lambda p: _eval_local(p, seed),
            "no statistics: apply() over shapes x dtype x norm_var (inner: axis x in_place) equals the "
            "direct per-coefficient standardisation, mean 0, variance 1; a single vector (1-D input or all "
            "other axes of length 1) gives zeros without norm_var; result float64 and the (writable) input "
            "bit-identical afterwards unless in_place; non-trivial = the values are defined by the property",
            axes=dict(shape="1-D, 2-D and 3-D, extents in %s" % (list(ext),),
                      dtype=["float64", "float32", "int32", "int16"], norm_var=[True, False],
                      axis="-ndim..ndim-1", in_place=[False, True]),
            replay=lambda case: _replay_local(case, seed)),
        core.SubCheck(
            "global_apply", gpts, lambda p: _eval_global(p, seed),
            "statistics of 6 real-valued vectors: apply() over every 1..3-D shape x axis x in_place "
            "equals (x-mean)/std; an axis of F+-1 coefficients raises ValueError",
            axes=dict(F=[1, 2, 3], norm_var=[True, False], dtype=["float64", "float32", "int32", "int16"],
                      other_extents=[1, 2, 3]),
            replay=lambda case: _replay_local(case, seed)),
        core.SubCheck(
            "conditioning", kpts, lambda p: _eval_conditioning(p, seed),
            "ill-conditioned but valid statistics: 4-coefficient vectors whose coefficients are (offset, spread) "
            "pairs of a profile %s (mean^2/var from ~0 to ~2e7, every variance >= 1e-5 and clearly non-zero) x "
            "number of vectors x stored dtype x norm_var x where the statistics come from {local = the tensor "
            "itself, one accumulated tensor, vector by vector, two tensors along different axes, a statistics "
            "file}; inner loop: apply() through the TENSOR route (the data set as 2-D along -1 / 0 and 3-D along "
            "1 / -1, other vectors as 1xF, Fx1, 4xF) and the VECTOR route (first / last vector of the set, "
            "another vector) x in_place: equals the direct two-pass (x - mean)/std within 1e-10 + 64 eps (1 + "
            "mean^2/var) relative, float64, input bit-identical unless in_place" % (
                {k: [list(c) for c in v] for k, v in K_PROFILES.items()},),
            axes=dict(profile={k: [list(c) for c in v] for k, v in K_PROFILES.items()}, n=list(K_N),
                      dtype=list(K_DTYPES), norm_var=[True, False], stats=list(K_STATS),
                      probes="2d:-1, 2d:0, 3d:1, 3d:-1 (+ vec:0, vec:n-1, vec:other, 1xF, Fx1, other:2d with "
                             "statistics)", in_place=[False, True]),
            replay=lambda case: _replay_local(case, seed)),
        core.SubCheck(
            "instances", _instance_configs(tier), lambda c: _eval_instances(c, seed),
            "up to two LIVE Standardize instances and two statistics files: every applicable history over "
            "{load(slot, path), new(slot), accumulate(slot, vector | tensor), save(slot, path)} up to the depth "
            "bound, each re-executed from scratch in its own directory (no deep copies); at the end of every "
            "history apply() of every live instance is the transform of the model's vectors for THAT instance and "
            "a fresh load of every file is the transform of the vectors last saved there",
            axes=dict(file_kind=list(I_KINDS), norm_var=[True, False], F=[2, 1], depth=4 if tier == "quick" else 5,
                      letters=I_LETTERS, initial="file P holds the statistics of vectors 0,1; Q does not exist"),
            replay=lambda case: _eval_instances(case["config"], seed, replay_ops=case["ops"]),
            kind="explore"),
        core.SubCheck(
            "mismatch", [(F, nv, o) for F in M_F for nv in (True, False) for o in M_ORIGINS],
            lambda p: _eval_mismatch(p, seed),
            "statistics of 3 vectors (accumulated one by one / as a tensor / loaded): accumulate and apply of "
            "every presentation (vector; 2-D, 3-D tensor along every axis) of EVERY mismatching length "
            "{0, 1, F-1, F+1, F+2, 2F} raise ValueError, leave apply() of a probe bit-identical and a later valid "
            "accumulate gives the transform of the model's vectors; one new object per refused call",
            axes=dict(F=list(M_F), norm_var=[True, False], origin=list(M_ORIGINS), dtype=list(M_DTYPES),
                      lengths="0, 1, F-1, F+1, F+2, 2F (!= F)", other_extents="1, 2, F / (1,1), (2,1), (1,F), (2,3)",
                      op=["accumulate", "apply", "apply in_place"]),
            replay=lambda case: _replay_mismatch(case, seed)),
    ]
