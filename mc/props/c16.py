"""C16 - Standardize normalises with exactly the statistics it was given.

Engine E (sub-check accumulate_bfs): breadth-first search over ALL histories of accumulate
calls on one real Standardize.  A data set of n integer-valued vectors (all sums and squares
exact in float64) is split in every possible way: from every state, accumulate(piece) for
every non-empty subset of the vectors not yet accumulated, each presented as a single vector,
a 2-D tensor along axis -1 / 1 / 0 / -2 (transposed), a 3-D tensor, in several dtypes.  The
real object is deep-copied per transition; the model of a state is just the set of vectors
accumulated.  After EVERY transition apply() is observed for a set of probe tensors and
compared with (x - mean) / std computed directly (two-pass) from the model's vectors; states
are merged on the canonical form of the real object, and a merge of two histories whose models
disagree is reported.  Every ordered set partition of the data set is a path of the search.

Engine L (sub-checks local, global_apply): local standardisation and apply() with given
statistics over tensor shapes x axes x dtypes x norm_var x in_place, and the ValueError on a
mismatching feature dimension.
"""
import copy
import itertools
import os
import shutil
import tempfile
import warnings

import numpy as np

from .. import computers, core, explorer, sig
from ..refs import post as ref

LEVEL = "model_checking"
ASSUMPTIONS = [
    "accumulate_bfs: data sets are n integer-valued vectors (n = 5, one configuration 6 quick; 6..8 thorough; F in {1,3} "
    "coefficients; mixed-sign, all-negative and large-magnitude variants), so every order of "
    "accumulation yields bit-identical statistics and states merge exactly; probes are generic "
    "real-valued tensors",
    "zero-variance coefficients (a single accumulated vector with norm_var) are outside the "
    "property: values are not compared there, only shape/dtype",
    "local / global_apply: well-separated generic values (any two entries differ by >= 0.8, "
    "magnitudes <= ~40) so that rtol 1e-10 is far above round-off of either formula",
    "the 'loaded' start state reads a 2 x (F+1) float64 .npy written by the harness (sums and "
    "count in row 0, sums of squares in row 1), as documented for the statistics matrix",
]

RTOL = 1e-10


def _post_module_state():
    from pydrobert.speech import post

    out = []
    for name, v in sorted(vars(post).items()):
        if name.startswith("__") or callable(v) or isinstance(v, type(os)):
            continue
        if isinstance(v, (np.ndarray, list, dict, set, int, float, bool)):
            out.append((name, computers.canon_value(v, 1)))
    return tuple(out)


def _canon(obj):
    return (computers.canon_value(obj), computers.class_state(type(obj)), _post_module_state())


def _dataset(seed, n, F, kind):
    """n x F distinct integers (as float64)"""
    r = np.argsort(np.argsort(sig.signal(seed, n * F, offset=16))).astype(np.float64)
    if kind == "mixed":
        d = r * 7.0 - 3.0 * n * F
    elif kind == "negative":
        d = -(r * 5.0 + 11.0)
    else:  # large
        d = r * 1000.0 + 40000.0
    return d.reshape(n, F)


def _separated(seed, shape, offset=0):
    """generic real values, pairwise >= 0.8 apart, centred on 0"""
    n = int(np.prod(shape))
    s = sig.signal(seed, n, offset=17 + offset)
    r = np.argsort(np.argsort(s)).astype(np.float64)
    return ((r - n / 2.0) + 0.1 * np.tanh(s)).reshape(shape)


def _factor(k):
    for a in (2, 3):
        if k % a == 0 and k > a:
            return a, k // a
    return 1, k


def _present(data, idx, pres, F):
    """(array, axis-or-None) for accumulate; data rows idx presented as `pres`"""
    parts = pres.split(":")
    kind = parts[0]
    dtype = parts[2] if len(parts) > 2 else "float64"
    rows = data[list(idx)]
    if kind == "rev":
        rows = rows[::-1]
        kind, parts = "2d", ["2d", "-1"]
    if kind == "vec":
        x = rows[0]
        axis = None if parts[1] == "d" else int(parts[1])
    elif kind == "2d":
        axis = int(parts[1])
        x = rows if axis in (-1, 1) else rows.T
    else:  # 3d
        axis = int(parts[1])
        k = len(idx)
        a, b = _factor(k)
        if parts[1] == "1":
            x = rows.reshape(k, F, 1) if parts[3:4] != ["b"] else rows.T.reshape(1, F, k)
        elif parts[1] == "-1":
            x = rows.reshape(a, b, F)
        elif parts[1] == "0":
            x = rows.T.reshape(F, a, b)
        else:  # -2
            x = np.transpose(rows.reshape(a, b, F), (0, 2, 1))
    x = x.astype(dtype)
    x.setflags(write=False)
    return x, axis


def _presentations(k):
    out = []
    if k == 1:
        out += ["vec:d", "vec:0", "vec:-1", "vec:d:int32", "vec:d:float32"]
    out += ["2d:-1", "2d:1", "2d:0", "2d:-2", "3d:1", "3d:1:float64:b", "3d:-1", "3d:0", "3d:-2",
            "2d:-1:float32", "2d:0:int16", "3d:-1:int64"]
    if k > 1:
        out.append("rev")
    return out


class Ctx:
    def __init__(self, c, seed):
        self.c = c
        self.n, self.F, self.norm_var = c["n"], c["F"], bool(c["norm_var"])
        self.data = _dataset(seed, self.n, self.F, c["data"])
        if c["data"] == "large":
            self.int16_ok = False
        else:
            self.int16_ok = True
        F = self.F
        p = _separated(seed, (4, F)) * (1.0 if c["data"] != "large" else 300.0)
        if c["data"] == "large":
            p = p + 42000.0
        self.probes = [
            ("vec", sig.ro(p[0]), None),
            ("vec0", sig.ro(p[1]), 0),
            ("2d:-1", sig.ro(p), -1),
            ("2d:0", sig.ro(p.T), 0),
            ("3d:1", sig.ro(p.reshape(2, 2, F).transpose(0, 2, 1)), 1),
            ("3d:-3", sig.ro(p.T.reshape(F, 2, 2)), -3),
            ("2d:1:f32", sig.ro(p.astype(np.float32)), 1),
            ("2d:-2:i32", sig.ro(np.round(p.T).astype(np.int32)), -2),
        ]
        self.pristine = [np.array(x, copy=True) for _, x, _ in self.probes]
        self.bad_vec = sig.ro(np.arange(F + 1, dtype=np.float64))
        self.bad_2d = sig.ro(np.arange(2.0 * (F + 1)).reshape(2, F + 1))

    def tags(self, **kw):
        t = dict(norm_var=self.norm_var)
        t.update(kw)
        return t


class St:
    __slots__ = ("obj", "sub")

    def __init__(self, obj, sub):
        self.obj, self.sub = obj, sub


def _expected(ctx, sub):
    return ref.mean_var([ctx.data[i] for i in sub])


def _observe(ctx, obj, sub, where):
    """have_stats and apply() for every probe, against the model's vectors"""
    viol = []
    hs = computers.call(lambda: bool(obj.have_stats))
    if hs[0] != "ok" or hs[1] != (len(sub) > 0):
        viol.append(core.violation(ctx.tags(what="have_stats"),
                                   "have_stats is %r with %d vectors accumulated" % (hs[1:], len(sub))))
    if not sub:
        return viol, 0
    mean, var = _expected(ctx, sub)
    zero_var = bool(np.any(var == 0.0))
    compared = 0
    for (name, x, axis), pristine in zip(ctx.probes, ctx.pristine):
        for in_place in (False, True):
            arg = x if not in_place else np.array(x, copy=True)
            with warnings.catch_warnings():
                warnings.simplefilter("ignore")
                r = computers.call(lambda: obj.apply(arg, in_place=in_place)) if axis is None else \
                    computers.call(obj.apply, arg, axis, in_place)
            tags = ctx.tags(probe=name.split(":")[0].rstrip("0"))
            if r[0] != "ok":
                viol.append(core.violation(dict(tags, what="apply_exception", exc=r[1]),
                                           "%s: apply(%s) raised %s: %s" % (where, name, r[1], r[2])))
                continue
            got = r[1]
            if not isinstance(got, np.ndarray) or got.shape != x.shape:
                viol.append(core.violation(dict(tags, what="apply_shape"),
                                           "%s: apply(%s) has shape %r for input %r" % (
                                               where, name, getattr(got, "shape", None), x.shape)))
                continue
            if got.dtype != np.float64:
                viol.append(core.violation(dict(tags, what="apply_dtype"),
                                           "%s: apply(%s) returned %s, documented float64" % (
                                               where, name, got.dtype)))
                continue
            if not in_place and not np.array_equal(x, pristine):
                viol.append(core.violation(dict(tags, what="input_modified"),
                                           "%s: apply(%s, in_place=False) changed its input" % (where, name)))
            if ctx.norm_var and zero_var:
                continue  # zero variance: the property does not define the result
            want = ref.standardize(pristine, mean, var, 0 if axis is None else axis, ctx.norm_var)
            compared += 1
            err = np.abs(got - want)
            if not np.all(err <= RTOL * (1.0 + np.abs(want))):
                i = np.unravel_index(np.argmax(err), err.shape)
                viol.append(core.violation(
                    dict(tags, what="apply_values"),
                    "%s: apply(%s, in_place=%s)%s = %r; (x-mean)/std of the %d accumulated vectors = %r "
                    "(mean %r, var %r)" % (where, name, in_place, list(map(int, i)), float(got[i]), len(sub),
                                           float(want[i]), mean.tolist(), var.tolist())))
    return viol, compared


def _ops(ctx, s):
    rest = [i for i in range(ctx.n) if i not in s.sub]
    for k in range(1, len(rest) + 1):
        for P in itertools.combinations(rest, k):
            for pres in _presentations(k):
                if pres.endswith("int16") and not ctx.int16_ok:
                    continue
                yield ["acc", list(P), pres]
    if s.sub:
        yield ["bad_acc", "vec"]
        yield ["bad_acc", "2d"]
        yield ["bad_apply", "vec"]
        yield ["bad_apply", "2d"]


def _step(ctx, s, op):
    obj = copy.deepcopy(s.obj)
    name = op[0]
    if name == "acc":
        x, axis = _present(ctx.data, op[1], op[2], ctx.F)
        pristine = np.array(x, copy=True)
        r = computers.call(obj.accumulate, x) if axis is None else computers.call(obj.accumulate, x, axis)
        pk = op[2].split(":")[0].replace("rev", "2d")
        if r[0] != "ok":
            return None, [core.violation(
                ctx.tags(what="accumulate_exception", pres=pk, exc=r[1]),
                "accumulate(%s of vectors %s) raised %s: %s" % (op[2], op[1], r[1], r[2]))], ("acc", "exc")
        viol = []
        if not np.array_equal(x, pristine):
            viol.append(core.violation(ctx.tags(what="accumulate_modified_input", pres=pk),
                                       "accumulate(%s) changed its argument" % op[2]))
        sub = tuple(sorted(s.sub + tuple(op[1])))
        v, compared = _observe(ctx, obj, sub, "after %s" % (op,))
        for w in v:
            w["tags"]["pres"] = pk
        viol.extend(v)
        return St(obj, sub), viol, ("acc", len(sub), pk, compared > 0)
    # refusals: a mismatching feature dimension raises ValueError
    bad = ctx.bad_vec if op[1] == "vec" else ctx.bad_2d
    if name == "bad_acc":
        r = computers.call(obj.accumulate, bad)
    else:
        r = computers.call(obj.apply, bad)
    viol = []
    if not (r[0] == "exc" and r[1] == "ValueError"):
        viol.append(core.violation(
            ctx.tags(what="mismatch_accepted", op=name, pres=op[1]),
            "%s of a tensor with %d coefficients on statistics for %d: %s" % (
                name, ctx.F + 1, ctx.F, "returned" if r[0] == "ok" else "%s: %s" % (r[1], r[2]))))
    return St(obj, s.sub), viol, (name, r[0])


def _initial(ctx, scratch):
    from pydrobert.speech import post

    if ctx.c["start"] == "empty":
        return St(post.Standardize(norm_var=ctx.norm_var), ())
    # loaded statistics of vectors {0, 1}, written by the harness
    sub = (0, 1)
    stats = np.zeros((2, ctx.F + 1))
    for i in sub:
        for f in range(ctx.F):
            stats[0, f] += ctx.data[i, f]
            stats[1, f] += ctx.data[i, f] * ctx.data[i, f]
        stats[0, ctx.F] += 1
    path = os.path.join(scratch, "start.npy")
    np.save(path, stats)
    return St(post.Standardize(path, norm_var=ctx.norm_var), sub)


def _model_of_hist(ctx, hist):
    sub = (0, 1) if ctx.c["start"] == "loaded" else ()
    for op in hist:
        if op[0] == "acc":
            sub = sub + tuple(op[1])
    return tuple(sorted(sub))


def explore_config(c, seed, replay_ops=None):
    ctx = Ctx(c, seed)
    scratch = tempfile.mkdtemp(prefix="verif-")
    try:
        s0 = _initial(ctx, scratch)
    finally:
        shutil.rmtree(scratch, ignore_errors=True)
    v0, _ = _observe(ctx, s0.obj, s0.sub, "initial state")
    if replay_ops is not None:
        viol = list(v0)
        s = s0
        for op in replay_ops:
            s2, v, _ = _step(ctx, s, op)
            viol.extend(v)
            if s2 is None:
                break
            s = s2
        for v in viol:
            v["case"] = dict(config=c, ops=replay_ops)
        return core.result(viol)

    keys_of_model = {}

    def key(s):
        k = _canon(s.obj)
        keys_of_model.setdefault(s.sub, set()).add(k)
        return k

    def on_merge(rep_hist, s2, h2):
        a = _model_of_hist(ctx, rep_hist)
        if a == s2.sub:
            return []
        ma, mb = _expected(ctx, a), _expected(ctx, s2.sub)
        if len(a) == len(s2.sub) and np.array_equal(ma[0], mb[0]) and np.array_equal(ma[1], mb[1]):
            return []
        return [core.violation(
            ctx.tags(what="merge_mismatch"),
            "histories accumulating vectors %s and %s leave the object in the same state" % (a, s2.sub),
            dict(config=c, ops=list(h2)))]

    st = explorer.bfs(lambda: s0, lambda s: _ops(ctx, s), lambda s, op: _step(ctx, s, op), key,
                      max_states=5000, max_viol=200, on_merge=on_merge)
    viol = list(v0) + st.violations
    for v in viol:
        v["case"] = dict(v.get("case") or {}, config=c)
        v["case"].setdefault("ops", [])
    # first violation per signature is enough from one configuration
    seen, uniq = set(), []
    for v in viol:
        h = core.sig_hash(v["tags"])
        if h not in seen:
            seen.add(h)
            uniq.append(v)
    n_models = len(keys_of_model)
    extra = sum(len(k) - 1 for k in keys_of_model.values())
    full = 2 ** (ctx.n - len(s0.sub))
    return core.result(
        uniq, nontrivial=st.states >= 4, obs=(st.states, len(st.observations)),
        states=st.states, transitions=st.transitions, impl_calls=st.transitions * (1 + 2 * len(ctx.probes)),
        capped=st.capped if (st.capped and not uniq) else
        (None if (uniq or n_models == full) else "only %d of %d subsets reached" % (n_models, full)),
        sample=dict(config=c, states=st.states, transitions=st.transitions, closed=st.closed,
                    max_depth=st.max_depth, subsets_reached=n_models,
                    states_beyond_one_per_subset=extra,
                    distinct_observations=len(st.observations)))


def _configs(tier):
    out = []
    n = 5 if tier == "quick" else 6
    for norm_var in (True, False):
        for data in ("mixed", "negative", "large"):
            for F in (3, 1):
                out.append(dict(n=n, F=F, norm_var=norm_var, data=data, start="empty"))
            out.append(dict(n=n, F=2, norm_var=norm_var, data=data, start="loaded"))
    big = [dict(n=n + 1, F=3, norm_var=True, data="mixed", start="empty")]
    if tier == "thorough":
        big.append(dict(n=7, F=2, norm_var=False, data="negative", start="empty"))
        big.insert(0, dict(n=8, F=2, norm_var=True, data="mixed", start="empty"))
    out = big + out  # longest explorations first (one point = one worker)
    return out


# ------------------------------------------------------------------ engine L


def _check_apply(obj, x, axis, in_place, want, tags, case, what="values"):
    pristine = np.array(x, copy=True)
    arg = x if not in_place else np.array(x, copy=True)
    with warnings.catch_warnings():
        warnings.simplefilter("ignore")
        r = computers.call(obj.apply, arg, axis, in_place)
    if r[0] != "ok":
        return [core.violation(dict(tags, what="exception", exc=r[1]),
                               "apply raised %s: %s" % (r[1], r[2]), case)], None
    got = r[1]
    if not isinstance(got, np.ndarray) or got.shape != x.shape:
        return [core.violation(dict(tags, what="shape"), "result shape %r for input %r" % (
            getattr(got, "shape", None), x.shape), case)], None
    if got.dtype != np.float64:
        return [core.violation(dict(tags, what="dtype"), "result dtype %s, documented float64" % got.dtype,
                               case)], None
    viol = []
    if not in_place and not np.array_equal(x, pristine):
        viol.append(core.violation(dict(tags, what="input_modified"),
                                   "apply(in_place=False) changed its input", case))
    err = np.abs(got - want)
    if not np.all(err <= RTOL * (1.0 + np.abs(want))):
        i = np.unravel_index(np.argmax(err), err.shape)
        viol.append(core.violation(dict(tags, what=what),
                                   "result%s = %r, direct formula %r" % (
                                       list(map(int, i)), float(got[i]), float(want[i])), case))
    return viol, got


def _local_data(seed, shape, dtype):
    x = _separated(seed, shape, offset=len(shape))
    if dtype.startswith("int"):
        x = np.round(x * 3.0)
    return sig.ro(x.astype(dtype))


def _eval_local(pt, seed):
    from pydrobert.speech import post

    shape, dtype, norm_var = tuple(pt[0]), pt[1], bool(pt[2])
    x = _local_data(seed, shape, dtype)
    viol, evals, nontriv, skipped, obs = [], 0, 0, 0, set()
    for axis in range(-len(shape), len(shape)):
        count = int(np.prod(shape)) // shape[axis]
        if count < 2:
            skipped += 1  # a single vector has no variance: outside the property
            continue
        mean, var = ref.mean_var(ref.vectors_of(x, axis))
        want = ref.standardize(x, mean, var, axis, norm_var)
        for in_place in (False, True):
            tags = dict(mode="local", norm_var=norm_var, dtype=dtype, ndim=len(shape), in_place=in_place)
            case = dict(mode="local", shape=list(shape), dtype=dtype, norm_var=norm_var, axis=axis,
                        in_place=in_place)
            v, got = _check_apply(post.Standardize(norm_var=norm_var), x, axis, in_place, want, tags, case)
            evals += 1
            nontriv += 1
            viol.extend(v)
            if got is not None and not v:
                other = tuple(a for a in range(len(shape)) if a != axis % len(shape))
                m = got.mean(axis=other)
                s2 = got.var(axis=other)
                if not np.all(np.abs(m) <= 1e-9 * (1.0 + np.abs(mean))):
                    viol.append(core.violation(dict(tags, what="mean_not_zero"),
                                               "per-coefficient means of the result: %r" % m.tolist(), case))
                if norm_var and not np.all(np.abs(s2 - 1.0) <= 1e-9):
                    viol.append(core.violation(dict(tags, what="variance_not_one"),
                                               "per-coefficient variances of the result: %r" % s2.tolist(),
                                               case))
                obs.add((norm_var, in_place, count > 2))
    return core.result(viol, evals=evals, nontrivial_count=nontriv, skipped=skipped or None,
                       obs=sorted(map(str, obs)), obs_is_set=True,
                       sample=dict(shape=list(shape), dtype=dtype, norm_var=norm_var,
                                   inner="axis -ndim..ndim-1 x in_place"))


def _replay_local(case, seed):
    from pydrobert.speech import post

    if case.get("mode") == "global":
        return _replay_global(case, seed)
    shape, dtype, norm_var, axis = tuple(case["shape"]), case["dtype"], case["norm_var"], case["axis"]
    x = _local_data(seed, shape, dtype)
    mean, var = ref.mean_var(ref.vectors_of(x, axis))
    want = ref.standardize(x, mean, var, axis, norm_var)
    tags = dict(mode="local", norm_var=norm_var, dtype=dtype, ndim=len(shape), in_place=case["in_place"])
    v, got = _check_apply(post.Standardize(norm_var=norm_var), x, axis, case["in_place"], want, tags, case)
    if got is not None and not v:
        other = tuple(a for a in range(len(shape)) if a != axis % len(shape))
        if not np.all(np.abs(got.mean(axis=other)) <= 1e-9 * (1.0 + np.abs(mean))):
            v.append(core.violation(dict(tags, what="mean_not_zero"), "means %r" % got.mean(axis=other), case))
        if norm_var and not np.all(np.abs(got.var(axis=other) - 1.0) <= 1e-9):
            v.append(core.violation(dict(tags, what="variance_not_one"), "vars %r" % got.var(axis=other), case))
    return core.result(v)


def _global_obj(seed, F, norm_var):
    from pydrobert.speech import post

    data = _separated(seed, (6, F), offset=9) * 1.5 - 4.0
    obj = post.Standardize(norm_var=norm_var)
    obj.accumulate(sig.ro(data), -1)
    mean, var = ref.mean_var([list(r) for r in data])
    return obj, mean, var


def _global_shapes(F):
    out = [((F,), 0), ((F,), -1)]
    for other in itertools.product((1, 2, 3), repeat=1):
        for pos in range(2):
            s = list(other)
            s.insert(pos, F)
            out += [(tuple(s), pos), (tuple(s), pos - 2)]
    for other in itertools.product((1, 2, 3), repeat=2):
        for pos in range(3):
            s = list(other)
            s.insert(pos, F)
            out += [(tuple(s), pos), (tuple(s), pos - 3)]
    return out


def _global_one(seed, F, norm_var, dtype, shape, axis, in_place, objs=None):
    obj, mean, var = objs or _global_obj(seed, F, norm_var)
    x = _local_data(seed, shape, dtype)
    tags = dict(mode="global", norm_var=norm_var, dtype=dtype, ndim=len(shape), in_place=in_place)
    case = dict(mode="global", F=F, norm_var=norm_var, dtype=dtype, shape=list(shape), axis=axis,
                in_place=in_place)
    if shape[axis] != F:
        with warnings.catch_warnings():
            warnings.simplefilter("ignore")
            r = computers.call(copy.deepcopy(obj).apply, x, axis, in_place)
        if r[0] == "exc" and r[1] == "ValueError":
            return [], "refused"
        return [core.violation(dict(tags, what="mismatch_accepted"),
                               "apply of shape %r along axis %d with statistics for %d coefficients: %s" % (
                                   shape, axis, F, "returned" if r[0] == "ok" else r[1]), case)], "accepted"
    want = ref.standardize(x, mean, var, axis, norm_var)
    v, _ = _check_apply(copy.deepcopy(obj), x, axis, in_place, want, tags, case)
    return v, "applied"


def _eval_global(pt, seed):
    F, norm_var, dtype = pt
    objs = _global_obj(seed, F, norm_var)
    viol, evals, nontriv, obs = [], 0, 0, set()
    shapes = _global_shapes(F) + [(s, a) for s, a in _global_shapes(F + 1)] + \
        ([(s, a) for s, a in _global_shapes(F - 1)] if F > 1 else [])
    done = set()
    for shape, axis in shapes:
        for ax in range(-len(shape), len(shape)):
            if (shape, ax) in done:
                continue
            done.add((shape, ax))
            for in_place in (False, True):
                v, o = _global_one(seed, F, norm_var, dtype, shape, ax, in_place, objs)
                evals += 1
                nontriv += int(o == "applied")
                viol.extend(v)
                obs.add((o, len(shape), in_place))
    return core.result(viol, evals=evals, nontrivial_count=nontriv, obs=sorted(map(str, obs)),
                       obs_is_set=True, sample=dict(F=F, norm_var=norm_var, dtype=dtype,
                                   inner="every 1..3-D shape holding an axis of F-1, F or F+1 "
                                         "coefficients x every axis x in_place"))


def _replay_global(case, seed):
    v, _ = _global_one(seed, case["F"], case["norm_var"], case["dtype"], tuple(case["shape"]),
                       case["axis"], case["in_place"])
    return core.result(v)


def subchecks(tier, seed):
    cs = _configs(tier)
    ext = (1, 2, 3, 4) if tier == "quick" else (1, 2, 3, 4, 6)
    lpts = [(list(s), d, nv) for nd in (2, 3) for s in itertools.product(ext, repeat=nd)
            for d in ("float64", "float32", "int32", "int16") for nv in (True, False)]
    gpts = [(F, nv, d) for F in ((1, 2, 3) if tier == "quick" else (1, 2, 3, 5))
            for nv in (True, False) for d in ("float64", "float32", "int32", "int16")]
    return [
        core.SubCheck(
            "accumulate_bfs", cs, lambda c: explore_config(c, seed),
            "BFS to closure over all histories of accumulate(piece) (every non-empty subset of the "
            "remaining vectors x 12-17 presentations) on one real Standardize; apply() of 8 probes x "
            "in_place observed after every transition and compared with the direct formula over the "
            "model's vectors; refusals of mismatching dimensions in every state with statistics",
            axes=dict(n="5 and one configuration with 6 (quick) / 6, 7, 8 (thorough)", F=[1, 2, 3], norm_var=[True, False],
                      data=["mixed", "negative", "large"], start=["empty", "loaded"],
                      presentations=_presentations(1) + ["rev"]),
            replay=lambda case: explore_config(case["config"], seed, replay_ops=case["ops"]),
            chunk=1, kind="explore"),
        core.SubCheck(
            "local", lpts, lambda p: _eval_local(p, seed),
            "no statistics: apply() over shapes x dtype x norm_var (inner: axis x in_place) equals the "
            "direct per-coefficient standardisation, mean 0, variance 1; non-trivial = >= 2 vectors",
            axes=dict(shape="2-D and 3-D, extents in %s" % (list(ext),),
                      dtype=["float64", "float32", "int32", "int16"], norm_var=[True, False],
                      axis="-ndim..ndim-1", in_place=[False, True]),
            replay=lambda case: _replay_local(case, seed)),
        core.SubCheck(
            "global_apply", gpts, lambda p: _eval_global(p, seed),
            "statistics of 6 real-valued vectors: apply() over every 1..3-D shape x axis x in_place "
            "equals (x-mean)/std; an axis of F+-1 coefficients raises ValueError",
            axes=dict(F=[1, 2, 3], norm_var=[True, False], dtype=["float64", "float32", "int32", "int16"],
                      other_extents=[1, 2, 3]),
            replay=lambda case: _replay_local(case, seed)),
    ]
